//! Positive controls: deliberately WRONG hand-written `Deserr` impls, one per rule whose expected
//! count on a healthy tree is zero. Every run of the owning check must flag each control with the
//! right rule (see rules/controls.py); otherwise the run is a checker failure. Never executed.
#![allow(dead_code, unused_variables, unused_mut, unused_assignments, clippy::all)]
use deserr::{take_cf_content, DeserializeError, Deserr, ErrorKind, IntoValue, Map, Sequence, Value, ValueKind, ValuePointerRef};
use std::ops::ControlFlow;

fn kind_err<E: DeserializeError, V: IntoValue>(v: Value<V>, location: ValuePointerRef) -> E {
    take_cf_content(E::error(None, ErrorKind::IncorrectValueKind { actual: v, accepted: &[ValueKind::Sequence] }, location))
}

macro_rules! seq_impl {
    ($name:ident, |$seq:ident, $location:ident, $e:ident| $body:block) => {
        pub struct $name(pub Vec<u8>);
        impl<$e: DeserializeError> Deserr<$e> for $name {
            fn deserialize_from_value<V: IntoValue>(value: Value<V>, $location: ValuePointerRef) -> Result<Self, $e> {
                match value {
                    Value::Sequence($seq) => $body,
                    v => Err(take_cf_content($e::error(None, ErrorKind::IncorrectValueKind { actual: v, accepted: &[ValueKind::Sequence] }, $location))),
                }
            }
        }
    };
}

// ---- C01.LIN: the accumulator is dropped at Ok
seq_impl!(C01DropAcc, |seq, location, E| {
    let mut error: Option<E> = None;
    let mut vec = Vec::new();
    for (index, value) in seq.into_iter().enumerate() {
        match u8::deserialize_from_value(value.into_value(), location.push_index(index)) {
            Ok(v) => vec.push(v),
            Err(e) => {
                error = match E::merge(error, e, location.push_index(index)) {
                    ControlFlow::Continue(e) => Some(e),
                    ControlFlow::Break(e) => return Err(e),
                };
            }
        }
    }
    Ok(C01DropAcc(vec))
});

// ---- C01.LIN: a child's error is thrown away with .ok()
seq_impl!(C01OkChild, |seq, location, E| {
    let mut vec = Vec::new();
    for (index, value) in seq.into_iter().enumerate() {
        if let Some(v) = <u8 as Deserr<E>>::deserialize_from_value(value.into_value(), location.push_index(index)).ok() {
            vec.push(v);
        }
    }
    Ok(C01OkChild(vec))
});

// ---- C02.LOOP / REJOIN: stop examining after the first fault although the error type said Continue
seq_impl!(C02BreakLoop, |seq, location, E| {
    let mut error: Option<E> = None;
    let mut vec = Vec::new();
    for (index, value) in seq.into_iter().enumerate() {
        match u8::deserialize_from_value(value.into_value(), location.push_index(index)) {
            Ok(v) => vec.push(v),
            Err(e) => {
                error = match E::merge(error, e, location.push_index(index)) {
                    ControlFlow::Continue(e) => Some(e),
                    ControlFlow::Break(e) => return Err(e),
                };
                break;
            }
        }
    }
    if let Some(e) = error { Err(e) } else { Ok(C02BreakLoop(vec)) }
});

// ---- C02.LATE: the accumulated error is inspected before all examination is done
seq_impl!(C02Late, |seq, location, E| {
    let mut error: Option<E> = None;
    let mut vec = Vec::new();
    for (index, value) in seq.into_iter().enumerate() {
        if error.is_some() && index > 3 {
            continue;
        }
        match u8::deserialize_from_value(value.into_value(), location.push_index(index)) {
            Ok(v) => vec.push(v),
            Err(e) => {
                error = match E::merge(error, e, location.push_index(index)) {
                    ControlFlow::Continue(e) => Some(e),
                    ControlFlow::Break(e) => return Err(e),
                };
            }
        }
    }
    if let Some(e) = error { Err(e) } else { Ok(C02Late(vec)) }
});

// ---- C03.BREAK: a stop answer is swallowed and the loop goes on
seq_impl!(C03SwallowBreak, |seq, location, E| {
    let mut error: Option<E> = None;
    let mut vec = Vec::new();
    for (index, value) in seq.into_iter().enumerate() {
        match u8::deserialize_from_value(value.into_value(), location.push_index(index)) {
            Ok(v) => vec.push(v),
            Err(e) => {
                error = match E::merge(error, e, location.push_index(index)) {
                    ControlFlow::Continue(e) => Some(e),
                    ControlFlow::Break(e) => Some(e),
                };
            }
        }
    }
    if let Some(e) = error { Err(e) } else { Ok(C03SwallowBreak(vec)) }
});

// ---- C03.BREAK: a new report is made after the stop
seq_impl!(C03ReportAfterBreak, |seq, location, E| {
    let mut error: Option<E> = None;
    let mut vec = Vec::new();
    for (index, value) in seq.into_iter().enumerate() {
        match u8::deserialize_from_value(value.into_value(), location.push_index(index)) {
            Ok(v) => vec.push(v),
            Err(e) => {
                error = match E::merge(error, e, location.push_index(index)) {
                    ControlFlow::Continue(e) => Some(e),
                    ControlFlow::Break(e) => {
                        return Err(take_cf_content(E::error::<V>(Some(e), ErrorKind::Unexpected { msg: String::new() }, location)))
                    }
                };
            }
        }
    }
    if let Some(e) = error { Err(e) } else { Ok(C03ReportAfterBreak(vec)) }
});

// ---- C04.CHILD: constant index inside a loop
seq_impl!(C04ConstIndex, |seq, location, E| {
    let mut error: Option<E> = None;
    let mut vec = Vec::new();
    for value in seq.into_iter() {
        match u8::deserialize_from_value(value.into_value(), location.push_index(0)) {
            Ok(v) => vec.push(v),
            Err(e) => {
                error = match E::merge(error, e, location.push_index(0)) {
                    ControlFlow::Continue(e) => Some(e),
                    ControlFlow::Break(e) => return Err(e),
                };
            }
        }
    }
    if let Some(e) = error { Err(e) } else { Ok(C04ConstIndex(vec)) }
});

// ---- C04.MERGE: hand-over at the parent's location
seq_impl!(C04MergeAtParent, |seq, location, E| {
    let mut error: Option<E> = None;
    let mut vec = Vec::new();
    for (index, value) in seq.into_iter().enumerate() {
        match u8::deserialize_from_value(value.into_value(), location.push_index(index)) {
            Ok(v) => vec.push(v),
            Err(e) => {
                error = match E::merge(error, e, location) {
                    ControlFlow::Continue(e) => Some(e),
                    ControlFlow::Break(e) => return Err(e),
                };
            }
        }
    }
    if let Some(e) = error { Err(e) } else { Ok(C04MergeAtParent(vec)) }
});

// ---- C04.PAYLOAD: `actual` is not the value found
pub struct C04ActualNull(pub u8);
impl<E: DeserializeError> Deserr<E> for C04ActualNull {
    fn deserialize_from_value<V: IntoValue>(value: Value<V>, location: ValuePointerRef) -> Result<Self, E> {
        match value {
            Value::Integer(x) => Ok(C04ActualNull(x as u8)),
            _v => Err(take_cf_content(E::error(None, ErrorKind::IncorrectValueKind { actual: Value::<V>::Null, accepted: &[ValueKind::Integer] }, location))),
        }
    }
}

// ---- C12.SITE: unguarded unwrap of an iterator step, slice indexing
seq_impl!(C12Unwrap, |seq, location, E| {
    let mut iter = seq.into_iter();
    let first = iter.next().unwrap();
    let v = u8::deserialize_from_value(first.into_value(), location.push_index(0))?;
    Ok(C12Unwrap(vec![v]))
});
seq_impl!(C12Index, |seq, location, E| {
    let n = seq.len();
    let table = [1u8, 2, 3];
    Ok(C12Index(vec![table[n]]))
});

// ---- C15: order-dependent treatment of object members
pub struct C15FirstKey(pub u8);
impl<E: DeserializeError> Deserr<E> for C15FirstKey {
    fn deserialize_from_value<V: IntoValue>(value: Value<V>, location: ValuePointerRef) -> Result<Self, E> {
        match value {
            Value::Map(map) => {
                let mut error: Option<E> = None;
                let mut first = true;
                let mut out = 0u8;
                for (key, value) in map.into_iter() {
                    if first {
                        first = false;
                        match u8::deserialize_from_value(value.into_value(), location.push_key(&key)) {
                            Ok(v) => out = v,
                            Err(e) => {
                                error = match E::merge(error, e, location.push_key(&key)) {
                                    ControlFlow::Continue(e) => Some(e),
                                    ControlFlow::Break(e) => return Err(e),
                                };
                            }
                        }
                    }
                }
                if let Some(e) = error { Err(e) } else { Ok(C15FirstKey(out)) }
            }
            v => Err(take_cf_content(E::error(None, ErrorKind::IncorrectValueKind { actual: v, accepted: &[ValueKind::Map] }, location))),
        }
    }
}
pub struct C15Enumerate(pub u8);
impl<E: DeserializeError> Deserr<E> for C15Enumerate {
    fn deserialize_from_value<V: IntoValue>(value: Value<V>, location: ValuePointerRef) -> Result<Self, E> {
        match value {
            Value::Map(map) => {
                let mut error: Option<E> = None;
                let mut out = 0u8;
                for (i, (key, value)) in map.into_iter().enumerate() {
                    match u8::deserialize_from_value(value.into_value(), location.push_key(&key)) {
                        Ok(v) => out = out.wrapping_add(v.wrapping_mul(i as u8)),
                        Err(e) => {
                            error = match E::merge(error, e, location.push_key(&key)) {
                                ControlFlow::Continue(e) => Some(e),
                                ControlFlow::Break(e) => return Err(e),
                            };
                        }
                    }
                }
                if let Some(e) = error { Err(e) } else { Ok(C15Enumerate(out)) }
            }
            v => Err(take_cf_content(E::error(None, ErrorKind::IncorrectValueKind { actual: v, accepted: &[ValueKind::Map] }, location))),
        }
    }
}
