// generated at extraction time by rules/catgen.py
