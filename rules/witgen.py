"""C16 reject corpus: derive inputs each poisoned with exactly one rejection cause, paired with a
compiling twin that differs only by the poison.  Compiled (never run); the verdict is rustc's."""
import random

PRELUDE = '''#![allow(dead_code, unused_variables, unused_imports)]
use deserr::{Deserr, DeserializeError, ValuePointerRef, errors::JsonError};
use std::str::FromStr;
pub struct ConvErr;
impl deserr::MergeWithError<ConvErr> for JsonError {
    fn merge(_s: Option<Self>, _o: ConvErr, l: ValuePointerRef) -> std::ops::ControlFlow<Self, Self> {
        std::ops::ControlFlow::Break(deserr::take_cf_content(JsonError::error::<std::convert::Infallible>(None, deserr::ErrorKind::Unexpected { msg: String::new() }, l)))
    }
}
fn from_string(_s: String) -> %(T)s { unimplemented!() }
fn try_from_string(_s: String) -> Result<%(T)s, ConvErr> { Err(ConvErr) }
fn validate(x: %(T)s, _l: ValuePointerRef) -> Result<%(T)s, ConvErr> { Ok(x) }
fn unknown(_k: &str, _a: &[&str], l: ValuePointerRef) -> JsonError { missing("", l) }
fn missing(_k: &str, l: ValuePointerRef) -> JsonError {
    deserr::take_cf_content(JsonError::error::<std::convert::Infallible>(None, deserr::ErrorKind::Unexpected { msg: String::new() }, l))
}
fn f_from(_s: String) -> u8 { 0 }
fn f_try_from(_s: String) -> Result<u8, ConvErr> { Err(ConvErr) }
fn f_map(x: u8) -> u8 { x }
fn main() {}
'''


def item(kind, cattrs, fattrs=(), vattrs=(), body=None):
    """render one derive input named T. cattrs: list of attribute *groups* (each group = one #[deserr(..)])"""
    lines = ["#[derive(Deserr)]"]
    for g in cattrs:
        lines.append("#[deserr(%s)]" % ", ".join(g))
    if body is not None:
        lines.append(body)
        return "\n".join(lines)
    if kind == "struct":
        lines.append("struct T {")
        for g in fattrs:
            lines.append("    #[deserr(%s)]" % ", ".join(g))
        lines.append("    a: u8,")
        lines.append("    b: String,")
        lines.append("}")
    elif kind == "tagged":
        lines.append("enum T {")
        for g in vattrs:
            lines.append("    #[deserr(%s)]" % ", ".join(g))
        lines.append("    Aa,")
        lines.append("    Bb {")
        for g in fattrs:
            lines.append("        #[deserr(%s)]" % ", ".join(g))
        lines.append("        a: u8,")
        lines.append("    },")
        lines.append("}")
    elif kind == "unit":
        lines.append("enum T {")
        for g in vattrs:
            lines.append("    #[deserr(%s)]" % ", ".join(g))
        lines.append("    Aa,")
        lines.append("    Bb,")
        lines.append("}")
    return "\n".join(lines)


class W:
    def __init__(self, name, cause, level, poisoned, twin):
        self.name = name
        self.cause = cause
        self.level = level
        self.poisoned = poisoned
        self.twin = twin


# single-valued attributes per level: name -> (text, alternative text)
CONTAINER_SINGLE = {
    "rename_all": ("rename_all = camelCase", "rename_all = lowercase"),
    "error": ("error = JsonError", "error = JsonError"),
    "deny_unknown_fields": ("deny_unknown_fields", "deny_unknown_fields = unknown"),
    "from": ("from(String) = from_string", "from(String) = from_string"),
    "try_from": ("try_from(String) = try_from_string -> ConvErr", "try_from(String) = try_from_string -> ConvErr"),
    "validate": ("validate = validate -> ConvErr", "validate = validate -> ConvErr"),
}
VARIANT_SINGLE = {
    "rename": ('rename = "x"', 'rename = "y"'),
    "rename_all": ("rename_all = camelCase", "rename_all = lowercase"),
}
FIELD_SINGLE = {
    "rename": ('rename = "x"', 'rename = "y"'),
    "default": ("default", "default = 3"),
    "missing_field_error": ("missing_field_error = missing", "missing_field_error = missing"),
    "error": ("error = JsonError", "error = JsonError"),
    "map": ("map = f_map", "map = f_map"),
    "from": ("from(String) = f_from", "from(String) = f_from"),
    "try_from": ("try_from(String) = f_try_from -> ConvErr", "try_from(String) = f_try_from -> ConvErr"),
}


def base_cattrs(kind, name):
    """container attributes needed for the base item to be valid, given the attribute under test"""
    base = [["error = JsonError"]]
    if kind == "tagged":
        base.append(['tag = "t"'])
    return base


def witnesses(tier="quick", seed=0):
    ws = []

    def add(name, cause, level, p, t):
        ws.append(W(name, cause, level, p, t))

    # ---------------------------------------------------------------- unsupported shapes
    add("shape_tuple_struct", "tuple struct", "container",
        "#[derive(Deserr)]\nstruct T(u8, u8);", "#[derive(Deserr)]\nstruct T { a: u8, b: u8 }")
    add("shape_unit_struct", "unit struct", "container",
        "#[derive(Deserr)]\nstruct T;", "#[derive(Deserr)]\nstruct T { a: u8 }")
    add("shape_union", "union", "container",
        "#[derive(Deserr)]\nunion T { a: u8, b: u16 }", "#[derive(Deserr)]\nstruct T { a: u8, b: u16 }")
    add("shape_variant_unnamed", "variant with unnamed data", "variant",
        '#[derive(Deserr)]\n#[deserr(tag = "t")]\nenum T { Aa, Bb(u8) }', '#[derive(Deserr)]\n#[deserr(tag = "t")]\nenum T { Aa, Bb { x: u8 } }')
    add("shape_untagged_data", "data-carrying enum without tag", "container",
        "#[derive(Deserr)]\nenum T { Aa, Bb { x: u8 } }", '#[derive(Deserr)]\n#[deserr(tag = "t")]\nenum T { Aa, Bb { x: u8 } }')
    add("shape_untagged_unnamed", "untagged enum with unnamed data", "container",
        "#[derive(Deserr)]\nenum T { Aa, Bb(u8) }", "#[derive(Deserr)]\nenum T { Aa, Bb }")
    # ---------------------------------------------------------------- unknown attributes
    add("unknown_container_attr", "unknown attribute", "container",
        item("struct", [["error = JsonError", "frobnicate"]]), item("struct", [["error = JsonError"]]))
    add("unknown_container_attr_value", "unknown attribute", "container",
        item("struct", [["error = JsonError"], ["renameall = camelCase"]]), item("struct", [["error = JsonError"], ["rename_all = camelCase"]]))
    add("unknown_variant_attr", "unknown attribute", "variant",
        item("tagged", [['tag = "t"']], vattrs=[["skip"]]), item("tagged", [['tag = "t"']], vattrs=[['rename = "q"']]))
    add("unknown_field_attr", "unknown attribute", "field",
        item("struct", [], fattrs=[["flatten"]]), item("struct", [], fattrs=[["default"]]))
    add("unknown_field_attr_container_name", "unknown attribute", "field",
        item("struct", [], fattrs=[["rename_all = camelCase"]]), item("struct", [], fattrs=[['rename = "x"']]))
    # ---------------------------------------------------------------- duplicates, same attribute / two attributes
    for nm, (a, b) in CONTAINER_SINGLE.items():
        kind = "struct"
        extra = []
        if nm in ("validate",):
            extra = []
        for place in ("same", "two"):
            for second in ((a,) if a == b else (a, b)):
                base = [["error = JsonError"]] if nm != "error" else []
                if place == "same":
                    p = item(kind, base + [[a, second]])
                else:
                    p = item(kind, base + [[a], [second]])
                t = item(kind, base + [[a]])
                add("dup_container_%s_%s_%s" % (nm, place, "alt" if second != a else "eq"), "attribute given twice", "container", p, t)
    for place in ("same", "two"):
        a = 'tag = "t"'
        b = 'tag = "u"'
        p = item("tagged", [[a, b]] if place == "same" else [[a], [b]])
        add("dup_container_tag_%s" % place, "attribute given twice", "container", p, item("tagged", [[a]]))
    for nm, (a, b) in VARIANT_SINGLE.items():
        for place in ("same", "two"):
            for second in ((a,) if a == b else (a, b)):
                va = [[a, second]] if place == "same" else [[a], [second]]
                add("dup_variant_%s_%s_%s" % (nm, place, "alt" if second != a else "eq"), "attribute given twice", "variant",
                    item("tagged", [['tag = "t"']], vattrs=va), item("tagged", [['tag = "t"']], vattrs=[[a]]))
    for nm, (a, b) in FIELD_SINGLE.items():
        for place in ("same", "two"):
            for second in ((a,) if a == b else (a, b)):
                fa = [[a, second]] if place == "same" else [[a], [second]]
                cat = [["error = JsonError"]]
                add("dup_field_%s_%s_%s" % (nm, place, "alt" if second != a else "eq"), "attribute given twice", "field",
                    item("struct", cat, fattrs=fa), item("struct", cat, fattrs=[[a]]))
                if nm in ("rename", "default"):
                    add("dup_vfield_%s_%s_%s" % (nm, place, "alt" if second != a else "eq"), "attribute given twice", "field",
                        item("tagged", [['tag = "t"']], fattrs=fa), item("tagged", [['tag = "t"']], fattrs=[[a]]))
    # duplicates / conflicts spread over two attributes whose first one also carries unrelated flags
    for flag in ("skip", "needs_predicate"):
        for nm in ("rename", "default", "map", "error"):
            a, b = FIELD_SINGLE[nm]
            add("dup_field_%s_after_%s" % (nm, flag), "attribute given twice", "field",
                item("struct", [["error = JsonError"]], fattrs=[[flag, a], [b]]), item("struct", [["error = JsonError"]], fattrs=[[flag, a]]))
            add("dup_field_%s_before_%s" % (nm, flag), "attribute given twice", "field",
                item("struct", [["error = JsonError"]], fattrs=[[a], [flag, b]]), item("struct", [["error = JsonError"]], fattrs=[[a], [flag]]))
        add("from_tryfrom_field_after_%s" % flag, "from together with try_from", "field",
            item("struct", [["error = JsonError"]], fattrs=[[flag, FIELD_SINGLE["from"][0]], [FIELD_SINGLE["try_from"][0]]]),
            item("struct", [["error = JsonError"]], fattrs=[[flag, FIELD_SINGLE["from"][0]]]))
    # ---------------------------------------------------------------- from together with try_from
    cf, ct = CONTAINER_SINGLE["from"][0], CONTAINER_SINGLE["try_from"][0]
    for order in ((cf, ct), (ct, cf)):
        for place in ("same", "two"):
            ca = [["error = JsonError"]] + ([[order[0], order[1]]] if place == "same" else [[order[0]], [order[1]]])
            add("from_tryfrom_container_%s_%s" % ("ft" if order[0] == cf else "tf", place), "from together with try_from", "container",
                item("struct", ca), item("struct", [["error = JsonError"], [order[0]]]))
    ff, ft = FIELD_SINGLE["from"][0], FIELD_SINGLE["try_from"][0]
    for order in ((ff, ft), (ft, ff)):
        for place in ("same", "two"):
            fa = [[order[0], order[1]]] if place == "same" else [[order[0]], [order[1]]]
            add("from_tryfrom_field_%s_%s" % ("ft" if order[0] == ff else "tf", place), "from together with try_from", "field",
                item("struct", [["error = JsonError"]], fattrs=fa), item("struct", [["error = JsonError"]], fattrs=[[order[0]]]))
    # ---------------------------------------------------------------- tag on a struct
    add("tag_on_struct", "tag on a struct", "container", item("struct", [['tag = "t"']]), item("struct", []))
    add("tag_on_struct_two", "tag on a struct", "container", item("struct", [["error = JsonError"], ['tag = "t"']]), item("struct", [["error = JsonError"]]))
    add("tag_on_struct_with_from", "tag on a struct", "container",
        item("struct", [["error = JsonError"], [cf, 'tag = "t"']]), item("struct", [["error = JsonError"], [cf]]))
    add("tag_on_struct_with_from_two", "tag on a struct", "container",
        item("struct", [["error = JsonError"], ['tag = "t"'], [cf]]), item("struct", [["error = JsonError"], [cf]]))
    # the same cause beside every attribute a struct may legally carry, before and after it, in one attribute or two: a
    # validation that looks only at the first (or last) restricted attribute it meets must not let the other through
    for comp in ("rename_all = camelCase", "deny_unknown_fields", "validate = validate -> ConvErr", "rename_all = lowercase, deny_unknown_fields"):
        cname = comp.split(" ")[0].split("=")[0] + ("_both" if "," in comp else "")
        for tag_first in (True, False):
            for place in ("same", "two"):
                pair = ['tag = "t"', comp] if tag_first else [comp, 'tag = "t"']
                ca = [["error = JsonError"]] + ([pair] if place == "same" else [[pair[0]], [pair[1]]])
                add("tag_on_struct_beside_%s_%s_%s" % (cname, "tag1" if tag_first else "tag2", place), "tag on a struct", "container",
                    item("struct", ca), item("struct", [["error = JsonError"], [comp]]))
    # ---------------------------------------------------------------- container try_from with rename_all / tag / deny_unknown_fields
    for other, kind in (("rename_all = camelCase", "struct"), ("deny_unknown_fields", "struct"), ('tag = "t"', "tagged"), ("rename_all = lowercase", "unit")):
        for place in ("same", "two"):
            for first in (True, False):
                pair = [ct, other] if first else [other, ct]
                ca = [["error = JsonError"]] + ([pair] if place == "same" else [[pair[0]], [pair[1]]])
                add("tryfrom_with_%s_%s_%s_%s" % (other.split(" ")[0].split("=")[0], kind, place, "tf1" if first else "tf2"),
                    "container try_from with rename_all/tag/deny_unknown_fields", "container",
                    item(kind, ca), item(kind, [["error = JsonError"], [ct]]))
    # ---------------------------------------------------------------- invalid rename_all value
    add("rename_all_invalid_container", "invalid rename_all value", "container",
        item("struct", [["rename_all = snake_case"]]), item("struct", [["rename_all = camelCase"]]))
    add("rename_all_invalid_variant", "invalid rename_all value", "variant",
        item("tagged", [['tag = "t"']], vattrs=[["rename_all = PascalCase"]]), item("tagged", [['tag = "t"']], vattrs=[["rename_all = lowercase"]]))
    add("rename_all_string_container", "invalid rename_all value", "container",
        item("struct", [['rename_all = "camelCase"']]), item("struct", [["rename_all = camelCase"]]))
    # ---------------------------------------------------------------- malformed syntax
    add("malformed_missing_eq_container", "malformed attribute syntax", "container",
        item("struct", [["rename_all camelCase"]]), item("struct", [["rename_all = camelCase"]]))
    add("malformed_trailing_container", "malformed attribute syntax", "container",
        item("struct", [["deny_unknown_fields error = JsonError"]]), item("struct", [["deny_unknown_fields", "error = JsonError"]]))
    add("malformed_trailing_field", "malformed attribute syntax", "field",
        item("struct", [], fattrs=[["skip default"]]), item("struct", [], fattrs=[["skip", "default"]]))
    add("malformed_trailing_variant", "malformed attribute syntax", "variant",
        item("tagged", [['tag = "t"']], vattrs=[['rename = "x" rename_all = camelCase']]), item("tagged", [['tag = "t"']], vattrs=[['rename = "x"', "rename_all = camelCase"]]))
    add("malformed_missing_value_field", "malformed attribute syntax", "field",
        item("struct", [], fattrs=[["rename ="]]), item("struct", [], fattrs=[['rename = "x"']]))
    add("malformed_tag_not_string", "malformed attribute syntax", "container",
        item("tagged", [["tag = t"]]), item("tagged", [['tag = "t"']]))
    add("malformed_try_from_no_error", "malformed attribute syntax", "field",
        item("struct", [["error = JsonError"]], fattrs=[["try_from(String) = f_try_from"]]), item("struct", [["error = JsonError"]], fattrs=[[ft]]))
    add("malformed_leading_comma", "malformed attribute syntax", "container",
        item("struct", [[", error = JsonError"]]), item("struct", [["error = JsonError"]]))
    # try_from beside two of the attributes it excludes (each alone is covered above): whichever the validation meets first
    for a_, b_, kind in (("rename_all = camelCase", "deny_unknown_fields", "struct"), ("deny_unknown_fields", "rename_all = camelCase", "struct"),
                         ('tag = "t"', "rename_all = camelCase", "tagged"), ("rename_all = camelCase", 'tag = "t"', "tagged")):
        for pos in (0, 1, 2):
            parts = [a_, b_]
            parts.insert(pos, ct)
            add("tryfrom_with_two_%s_%s_%s_%d" % (a_.split(" ")[0], b_.split(" ")[0], kind, pos), "container try_from with rename_all/tag/deny_unknown_fields", "container",
                item(kind, [["error = JsonError"]] + [[x] for x in parts]), item(kind, [["error = JsonError"], [ct]]))
    # ---------------------------------------------------------------- the helper attribute written without an argument list
    # (`#[deserr]`, `#[deserr = ".."]`): not something the derive can honour - it must say so, not skip it
    for form, nm in (("#[deserr]", "bare"), ('#[deserr = "x"]', "namevalue")):
        add("malformed_%s_container" % nm, "malformed attribute syntax", "container",
            "#[derive(Deserr)]\n%s\nstruct T { a: u8 }" % form, "#[derive(Deserr)]\nstruct T { a: u8 }")
        add("malformed_%s_container_beside" % nm, "malformed attribute syntax", "container",
            "#[derive(Deserr)]\n%s\n#[deserr(error = JsonError)]\nstruct T { a: u8 }" % form, "#[derive(Deserr)]\n#[deserr(error = JsonError)]\nstruct T { a: u8 }")
        add("malformed_%s_field" % nm, "malformed attribute syntax", "field",
            "#[derive(Deserr)]\nstruct T {\n    %s\n    a: u8,\n}" % form, "#[derive(Deserr)]\nstruct T {\n    a: u8,\n}")
        add("malformed_%s_field_beside" % nm, "malformed attribute syntax", "field",
            "#[derive(Deserr)]\nstruct T {\n    #[deserr(default)]\n    %s\n    a: u8,\n}" % form, "#[derive(Deserr)]\nstruct T {\n    #[deserr(default)]\n    a: u8,\n}")
        add("malformed_%s_variant" % nm, "malformed attribute syntax", "variant",
            '#[derive(Deserr)]\n#[deserr(tag = "t")]\nenum T {\n    %s\n    Aa,\n    Bb { a: u8 },\n}' % form, '#[derive(Deserr)]\n#[deserr(tag = "t")]\nenum T {\n    Aa,\n    Bb { a: u8 },\n}')
        add("malformed_%s_variant_field" % nm, "malformed attribute syntax", "field",
            '#[derive(Deserr)]\n#[deserr(tag = "t")]\nenum T {\n    Aa,\n    Bb {\n        %s\n        a: u8,\n    },\n}' % form, '#[derive(Deserr)]\n#[deserr(tag = "t")]\nenum T {\n    Aa,\n    Bb { a: u8 },\n}')
    if tier == "thorough":
        ws += generated(seed, 500)
    else:
        # a fixed sample of the grammar-generated corpus: one cause in a random legal context
        ws += generated(0, 60)
    return ws


def generated(seed, count):
    """grammar-generated valid items, each poisoned with one cause at a random place"""
    rng = random.Random(seed * 7919 + 13)
    out = []
    for i in range(count):
        kind = rng.choice(["struct", "tagged", "unit"])
        cat = [["error = JsonError"]]
        if kind == "tagged":
            cat.append(['tag = "%s"' % rng.choice(["t", "kind", "type"])])
        if rng.random() < 0.4 and kind != "unit":
            cat.append([rng.choice(["deny_unknown_fields", "deny_unknown_fields = unknown"])])
        if rng.random() < 0.4:
            cat.append([rng.choice(["rename_all = camelCase", "rename_all = lowercase"])])
        if rng.random() < 0.3:
            cat.append(["validate = validate -> ConvErr"])
        fat = []
        if kind != "unit":
            for nm in rng.sample(sorted(FIELD_SINGLE), rng.randint(0, 3)):
                if nm == "try_from" and any("from(" in x for g in fat for x in g):
                    continue
                if nm == "from" and any("try_from(" in x for g in fat for x in g):
                    continue
                if nm == "missing_field_error" and any(x.startswith("default") for g in fat for x in g):
                    pass
                fat.append([rng.choice(FIELD_SINGLE[nm])])
        vat = []
        if kind != "struct":
            for nm in rng.sample(sorted(VARIANT_SINGLE), rng.randint(0, 2)):
                vat.append([rng.choice(VARIANT_SINGLE[nm])])
        # merge groups randomly (same attribute vs separate)
        def regroup(groups):
            flat = [x for g in groups for x in g]
            res = []
            cur = []
            for x in flat:
                cur.append(x)
                if rng.random() < 0.5:
                    res.append(cur)
                    cur = []
            if cur:
                res.append(cur)
            return res
        cat, fat, vat = regroup(cat), regroup(fat), regroup(vat)
        twin = item(kind, cat, fattrs=fat, vattrs=vat)
        # poison
        choices = ["dup_c", "unknown_c"]
        if kind != "unit" and fat:
            choices += ["dup_f", "unknown_f", "trailing_f"]
        elif kind != "unit":
            choices += ["unknown_f"]
        if vat:
            choices += ["dup_v", "unknown_v"]
        if kind == "struct":
            choices += ["tag_struct"]
        choices += ["bad_rename_all", "tryfrom_c"]
        ch = rng.choice(choices)
        pc, pf, pv = [list(g) for g in cat], [list(g) for g in fat], [list(g) for g in vat]

        def dup(groups, table):
            g = rng.randrange(len(groups))
            x = rng.choice(groups[g])
            nm = x.split(" ")[0].split("(")[0].split("=")[0].strip()
            alt = rng.choice(table[nm]) if nm in table else x
            if rng.random() < 0.5:
                groups[g].append(alt)
            else:
                groups.insert(rng.randrange(len(groups) + 1), [alt])
        cause = ch
        if ch == "dup_c":
            table = dict(CONTAINER_SINGLE)
            table["tag"] = ('tag = "t"', 'tag = "zz"')
            dup(pc, table)
        elif ch == "unknown_c":
            pc[rng.randrange(len(pc))].append(rng.choice(["bogus", "skip", "default", "rename = \"x\"", "flatten"]))
        elif ch == "dup_f":
            dup(pf, FIELD_SINGLE)
        elif ch == "unknown_f":
            if pf:
                pf[rng.randrange(len(pf))].append(rng.choice(["bogus", "tag = \"t\"", "validate = validate -> ConvErr", "rename_all = camelCase"]))
            else:
                pf.append([rng.choice(["bogus", "rename_all = camelCase"])])
        elif ch == "trailing_f":
            g = rng.randrange(len(pf))
            pf[g][-1] = pf[g][-1] + " skip"
        elif ch == "dup_v":
            dup(pv, VARIANT_SINGLE)
        elif ch == "unknown_v":
            pv[rng.randrange(len(pv))].append(rng.choice(["bogus", "skip", "default", "tag = \"t\""]))
        elif ch == "tag_struct":
            pc.insert(rng.randrange(len(pc) + 1), ['tag = "t"'])
        elif ch == "bad_rename_all":
            had = any(x.startswith("rename_all") for g in pc for x in g)
            if had:
                for g in pc:
                    for j, x in enumerate(g):
                        if x.startswith("rename_all"):
                            g[j] = "rename_all = %s" % rng.choice(["snake_case", "PascalCase", "UPPERCASE", "kebab"])
            else:
                pc.append(["rename_all = %s" % rng.choice(["snake_case", "PascalCase", "UPPERCASE"])])
                twin = item(kind, cat + [["rename_all = camelCase"]], fattrs=fat, vattrs=vat)
        elif ch == "tryfrom_c":
            # try_from together with rename_all/tag/deny_unknown_fields (needs one of them present)
            has = any(x.startswith(("rename_all", "tag", "deny_unknown_fields")) for g in pc for x in g)
            if not has:
                pc.append(["rename_all = camelCase"])
            pc.insert(rng.randrange(len(pc) + 1), [CONTAINER_SINGLE["try_from"][0]])
            cleaned = [[x for x in g if not x.startswith(("rename_all", "tag", "deny_unknown_fields"))] for g in pc]
            cleaned = [g for g in cleaned if g]
            twin = item(kind, cleaned, fattrs=fat, vattrs=vat)
        out.append(W("gen_%03d_%s" % (i, ch), "generated: " + cause, "mixed", item(kind, pc, fattrs=pf, vattrs=pv), twin))
    return out


def render(w, poisoned):
    return PRELUDE % {"T": "T"} + "\n" + (w.poisoned if poisoned else w.twin) + "\n"
