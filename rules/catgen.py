"""Derive catalogue generator.

A catalogue entry is described *once*, as data; from that description this module renders
(a) the Rust derive input (what a user would write) and (b) the spec sidecar: what the
documented semantics (book + rustdoc of the derive) say the generated code must do.  The
spec is computed by the small reference implementation below, independently of the macro;
the rule engine then compares the type-checked MIR of the macro's output with it.

Identifier grammar (so that the documented renaming is unambiguous): fields are
lower_snake words of [a-z][a-z0-9]* joined by single underscores; variants are PascalCase
words.
"""
import json
import random
import re


# ----------------------------------------------------------------- the derive's generic error parameter
GENERIC_ERR = "__Deserr_E"


def discover_generic_err(repo):
    """The catalogue has to spell the type parameter the derive introduces for a container without `error = ..` (marker
    functions are instantiated with it).  Its name is the derive's private choice: read it from the generator's sources
    (`parse_quote!(__Deserr_E)`), so that renaming it there does not break the catalogue."""
    import os
    counts = {}
    d = os.path.join(repo, "derive", "src")
    try:
        files = [os.path.join(d, f) for f in os.listdir(d) if f.endswith(".rs")]
    except OSError:
        return GENERIC_ERR
    for f in files:
        try:
            src = open(f).read()
        except OSError:
            continue
        for m in re.finditer(r"parse_quote!\(\s*(__[A-Za-z0-9_]+)\s*\)", src):
            counts[m.group(1)] = counts.get(m.group(1), 0) + 1
    if counts:
        return max(counts, key=counts.get)
    return GENERIC_ERR


# ----------------------------------------------------------------- reference semantics
def split_words(ident):
    words = []
    for part in ident.split("_"):
        if not part:
            continue
        # convert_case's default boundaries also split between letters and digits (LowerDigit, DigitLower, UpperDigit, DigitUpper)
        words += re.findall(r"[A-Z]?[a-z]+|[A-Z]+(?![a-z])|[0-9]+", part)
    return words


def camel_case(ident):
    w = split_words(ident)
    if not w:
        return ident
    return w[0].lower() + "".join(x[:1].upper() + x[1:].lower() for x in w[1:])


def effective_key(ident, rename_all, rename):
    """documented: rename > rename_all > identifier"""
    if rename is not None:
        return rename
    if rename_all == "camelCase":
        return camel_case(ident)
    if rename_all == "lowercase":
        return ident.lower()
    return ident


# ----------------------------------------------------------------------------- model
class F:
    def __init__(self, ident, ty, rename=None, default=None, skip=False, from_=None, try_from=None,
                 map=False, missing_fn=False, error=None, needs_predicate=False, split_attrs=False):
        self.ident = ident
        self.ty = ty
        self.rename = rename
        self.default = default        # None | 'trait' | 'fn' | ('lit', "expr")
        self.skip = skip
        self.from_ = from_            # None | (from_ty, by_ref)
        self.try_from = try_from      # None | (from_ty, by_ref)
        self.map = map
        self.missing_fn = missing_fn
        self.error = error            # None | 'FieldErr' | 'CatErr'
        self.needs_predicate = needs_predicate
        self.split_attrs = split_attrs  # write every attribute in its own #[deserr(..)]


class V:
    def __init__(self, ident, fields=None, rename=None, rename_all=None):
        self.ident = ident
        self.fields = fields          # None = unit
        self.rename = rename
        self.rename_all = rename_all


class T:
    def __init__(self, name, fields=None, variants=None, rename_all=None, deny=None, tag=None, err="generic",
                 validate=False, from_=None, try_from=None, generics=None, where=None, split_attrs=False):
        self.name = name
        self.fields = fields
        self.variants = variants
        self.rename_all = rename_all
        self.deny = deny              # None | 'default' | 'fn'
        self.tag = tag
        self.err = err                # 'generic' | 'CatErr'
        self.validate = validate
        self.from_ = from_            # container from: (from_ty, by_ref)
        self.try_from = try_from
        self.generics = generics      # e.g. ["G"]
        self.where = where
        self.split_attrs = split_attrs


def fn_name(*parts):
    return "m_" + "_".join(p.lower() for p in parts)


# ------------------------------------------------------------------------- rendering
def render_field(t, vname, f, err_ty, out_fns):
    attrs = []
    owner = t.name + ("_" + vname if vname else "")
    spec = {"ident": f.ident, "ty": f.ty, "skipped": f.skip, "default": None, "from": None, "try_from": None,
            "map": None, "missing_fn": None, "error": f.error}
    if f.rename is not None:
        attrs.append('rename = "%s"' % f.rename)
    if f.skip:
        attrs.append("skip")
    if f.default == "trait":
        attrs.append("default")
        spec["default"] = {"kind": "trait"}
    elif f.default == "fn":
        fn = fn_name(owner, f.ident, "default")
        attrs.append("default = %s()" % fn)
        out_fns.append("pub fn %s() -> %s { ::std::default::Default::default() }" % (fn, f.ty))
        spec["default"] = {"kind": "fn", "fn": fn}
    elif isinstance(f.default, tuple):
        attrs.append("default = %s" % f.default[1])
        spec["default"] = {"kind": "lit", "expr": f.default[1]}
    if f.skip and spec["default"] is None:
        spec["default"] = {"kind": "trait"}
    if f.from_:
        fty, by_ref = f.from_
        fn = fn_name(owner, f.ident, "from")
        attrs.append("from(%s%s) = %s" % ("&" if by_ref else "", fty, fn))
        out_fns.append("pub fn %s(_x: %s%s) -> %s { ::std::default::Default::default() }" % (fn, "&" if by_ref else "", fty, f.ty))
        spec["from"] = {"ty": fty, "by_ref": by_ref, "fn": fn}
    if f.try_from:
        fty, by_ref = f.try_from
        fn = fn_name(owner, f.ident, "tryfrom")
        attrs.append("try_from(%s%s) = %s -> ConvErr" % ("&" if by_ref else "", fty, fn))
        out_fns.append("pub fn %s(_x: %s%s) -> ::std::result::Result<%s, ConvErr> { Err(ConvErr(0)) }" % (fn, "&" if by_ref else "", fty, f.ty))
        spec["try_from"] = {"ty": fty, "by_ref": by_ref, "fn": fn, "err": "ConvErr"}
    if f.map:
        fn = fn_name(owner, f.ident, "map")
        attrs.append("map = %s" % fn)
        out_fns.append("pub fn %s(x: %s) -> %s { x }" % (fn, f.ty, f.ty))
        spec["map"] = fn
    if f.missing_fn:
        fn = fn_name(owner, f.ident, "missing")
        if err_ty == GENERIC_ERR:
            attrs.append("missing_field_error = %s::<%s>" % (fn, GENERIC_ERR))
            out_fns.append("pub fn %s<E: DeserializeError>(_k: &str, l: ValuePointerRef) -> E { mk_err::<E>(l) }" % fn)
        else:
            attrs.append("missing_field_error = %s" % fn)
            out_fns.append("pub fn %s(_k: &str, l: ValuePointerRef) -> %s { mk_err::<%s>(l) }" % (fn, err_ty, err_ty))
        spec["missing_fn"] = fn
    if f.error:
        attrs.append("error = %s" % f.error)
    if f.needs_predicate:
        attrs.append("needs_predicate")
    lines = []
    if attrs:
        if f.split_attrs:
            for a in attrs:
                lines.append("    #[deserr(%s)]" % a)
        else:
            lines.append("    #[deserr(%s)]" % ", ".join(attrs))
    lines.append("    pub %s: %s," % (f.ident, f.ty))
    return lines, spec


def render_type(t):
    """returns (rust source, spec dict)"""
    out_fns = []
    cattrs = []
    spec = {"name": t.name, "err": t.err, "rename_all": t.rename_all, "deny": None, "tag": t.tag,
            "validate": None, "from": None, "try_from": None, "generics": t.generics or []}
    err_ty = GENERIC_ERR if t.err == "generic" else t.err
    if t.err != "generic":
        cattrs.append("error = %s" % t.err)
    if t.rename_all:
        cattrs.append("rename_all = %s" % t.rename_all)
    if t.tag:
        cattrs.append('tag = "%s"' % t.tag)
    if t.deny == "default":
        cattrs.append("deny_unknown_fields")
        spec["deny"] = {"kind": "default"}
    elif t.deny == "fn":
        fn = fn_name(t.name, "unknown")
        if err_ty == GENERIC_ERR:
            cattrs.append("deny_unknown_fields = %s::<%s>" % (fn, GENERIC_ERR))
            out_fns.append("pub fn %s<E: DeserializeError>(_k: &str, _a: &[&str], l: ValuePointerRef) -> E { mk_err::<E>(l) }" % fn)
        else:
            cattrs.append("deny_unknown_fields = %s" % fn)
            out_fns.append("pub fn %s(_k: &str, _a: &[&str], l: ValuePointerRef) -> %s { mk_err::<%s>(l) }" % (fn, err_ty, err_ty))
        spec["deny"] = {"kind": "fn", "fn": fn}
    gen = ("<" + ", ".join(t.generics) + ">") if t.generics else ""
    if t.validate:
        fn = fn_name(t.name, "validate")
        cattrs.append("validate = %s -> ConvErr" % fn)
        out_fns.append("pub fn %s%s(x: %s%s, _l: ValuePointerRef) -> ::std::result::Result<%s%s, ConvErr> { Ok(x) }" % (fn, gen, t.name, gen, t.name, gen))
        spec["validate"] = {"fn": fn, "err": "ConvErr"}
    if t.from_:
        fty, by_ref = t.from_
        fn = fn_name(t.name, "cfrom")
        cattrs.append("from(%s%s) = %s" % ("&" if by_ref else "", fty, fn))
        spec["from"] = {"ty": fty, "by_ref": by_ref, "fn": fn}
    if t.try_from:
        fty, by_ref = t.try_from
        fn = fn_name(t.name, "ctryfrom")
        cattrs.append("try_from(%s%s) = %s -> ConvErr" % ("&" if by_ref else "", fty, fn))
        spec["try_from"] = {"ty": fty, "by_ref": by_ref, "fn": fn, "err": "ConvErr"}
    if t.where:
        cattrs.append("where_predicate = %s" % t.where)
    lines = ["#[derive(Deserr)]"]
    if cattrs:
        if t.split_attrs:
            for a in cattrs:
                lines.append("#[deserr(%s)]" % a)
        else:
            lines.append("#[deserr(%s)]" % ", ".join(cattrs))
    if t.fields is not None:
        spec["kind"] = "struct"
        lines.append("pub struct %s%s {" % (t.name, gen))
        fs = []
        for f in t.fields:
            ls, fsp = render_field(t, None, f, err_ty, out_fns)
            fsp["key"] = None if f.skip else effective_key(f.ident, t.rename_all, f.rename)
            lines += ls
            fs.append(fsp)
        lines.append("}")
        spec["fields"] = fs
    else:
        all_unit = all(v.fields is None for v in t.variants)
        spec["kind"] = "tagged_enum" if t.tag else "unit_enum"
        assert t.tag or all_unit
        lines.append("pub enum %s%s {" % (t.name, gen))
        vs = []
        for v in t.variants:
            vattrs = []
            if v.rename is not None:
                vattrs.append('rename = "%s"' % v.rename)
            if v.rename_all:
                vattrs.append("rename_all = %s" % v.rename_all)
            if vattrs:
                lines.append("    #[deserr(%s)]" % ", ".join(vattrs))
            vsp = {"ident": v.ident, "key": effective_key(v.ident, t.rename_all, v.rename), "unit": v.fields is None,
                   "rename_all": v.rename_all, "fields": []}
            if v.fields is None:
                lines.append("    %s," % v.ident)
            else:
                lines.append("    %s {" % v.ident)
                for f in v.fields:
                    ls, fsp = render_field(t, v.ident, f, err_ty, out_fns)
                    # documented: variant fields are renamed only by the variant's own rename_all
                    fsp["key"] = None if f.skip else effective_key(f.ident, v.rename_all, f.rename)
                    lines += ["    " + x.replace("pub ", "") for x in ls]
                    fs = fsp
                    vsp["fields"].append(fs)
                lines.append("    },")
            vs.append(vsp)
        lines.append("}")
        spec["variants"] = vs
    if t.from_ or t.try_from:
        spec["kind"] = "from" if t.from_ else "try_from"
        fty, by_ref = t.from_ or t.try_from
        fn = spec["from"]["fn"] if t.from_ else spec["try_from"]["fn"]
        amp = "&" if by_ref else ""
        if t.from_:
            out_fns.append("pub fn %s(_x: %s%s) -> %s { ::std::unimplemented!() }" % (fn, amp, fty, t.name))
        else:
            out_fns.append("pub fn %s(_x: %s%s) -> ::std::result::Result<%s, ConvErr> { Err(ConvErr(1)) }" % (fn, amp, fty, t.name))
    return "\n".join(lines) + "\n" + "\n".join(out_fns) + "\n", spec


# -------------------------------------------------------------------- base catalogue
def base_catalogue():
    c = []
    # plain / rename / rename_all
    c.append(T("S01Plain", fields=[F("alpha", "u8"), F("beta_gamma", "String"), F("delta", "Option<bool>")]))
    c.append(T("S02Camel", rename_all="camelCase", fields=[
        F("first_field", "u8"), F("second_long_field", "String", rename="second"), F("x", "bool"), F("with_2_digits", "i8")]))
    c.append(T("S03Lower", rename_all="lowercase", fields=[F("some_field", "u16"), F("other", "u16", rename="Other_Renamed")]))
    c.append(T("S04Rename", fields=[F("a", "u8", rename="b"), F("b", "u8", rename="a"), F("c", "u8")]))
    # defaults and skips in every position
    c.append(T("S05Defaults", fields=[
        F("opt", "Option<u8>"), F("dflt", "u8", default="trait"), F("dflt_fn", "String", default="fn"),
        F("dflt_lit", "u32", default=("lit", "7")), F("req", "bool")]))
    c.append(T("S06SkipFirst", fields=[F("sk", "u8", skip=True), F("a", "u8"), F("b", "String")]))
    c.append(T("S07SkipMiddle", deny="default", fields=[F("a", "u8"), F("sk", "String", skip=True), F("b", "bool")]))
    c.append(T("S08SkipEnd", fields=[F("a", "u8"), F("b", "bool"), F("sk", "Vec<u8>", skip=True, default="fn")]))
    c.append(T("S09SkipMany", rename_all="camelCase", deny="default", fields=[
        F("s_one", "u8", skip=True), F("real_one", "u8"), F("s_two", "u8", skip=True, default=("lit", "9")),
        F("real_two", "u8", default="trait"), F("s_three", "u8", skip=True)]))
    # deny_unknown_fields
    c.append(T("S10Deny", deny="default", fields=[F("word", "String"), F("other_word", "String", rename="ow")]))
    c.append(T("S11DenyFn", deny="fn", fields=[F("word", "String"), F("n", "u8", default="trait")]))
    # missing_field_error
    c.append(T("S12Missing", fields=[F("doggo", "String"), F("catto", "String", missing_fn=True), F("birdo", "u8", missing_fn=True, rename="bird")]))
    # map
    c.append(T("S13Map", fields=[F("a", "u8", map=True), F("b", "u8", map=True, default=("lit", "1")), F("c", "String")]))
    # from / try_from on fields (by value and by reference)
    c.append(T("S14From", fields=[F("a", "u16", from_=("u8", False)), F("b", "String", from_=("String", True)), F("c", "u8")]))
    c.append(T("S15TryFrom", fields=[F("a", "u16", try_from=("u8", False)), F("b", "String", try_from=("String", True)),
                                      F("c", "u8", try_from=("u8", False), default="trait", map=True)]))
    # validate
    c.append(T("S16Validate", validate=True, fields=[F("start", "usize"), F("end", "usize")]))
    c.append(T("S17ValidateDeny", validate=True, deny="default", rename_all="camelCase",
               fields=[F("range_start", "usize"), F("range_end", "usize", default="trait")]))
    # concrete error type, field-level error types
    c.append(T("S18Concrete", err="CatErr", fields=[F("a", "u8"), F("b", "String", error="FieldErr"), F("c", "bool", error="CatErr")]))
    c.append(T("S19ConcreteAll", err="CatErr", deny="default", validate=True, fields=[
        F("a", "u8", try_from=("u8", False)), F("b", "String", error="FieldErr", default="trait"),
        F("c", "bool", missing_fn=True), F("d", "u8", skip=True)]))
    # a field with an error type of its own *and* a fallible conversion: the conversion error goes to the field's error type
    # first, then to the container's (C11.TRYFROM)
    c.append(T("S28FieldErrTryFrom", err="CatErr", fields=[
        F("x", "u8", try_from=("u8", False), error="FieldErr"), F("y", "String", try_from=("String", True), error="FieldErr", default="trait"), F("z", "bool")]))
    # nesting
    c.append(T("S20Nested", fields=[F("inner", "S01Plain", needs_predicate=True), F("list", "Vec<S05Defaults>", needs_predicate=True),
                                    F("maybe", "Option<S10Deny>", needs_predicate=True)]))
    # generics
    c.append(T("S21Generic", generics=["G"], fields=[F("doggo", "String"), F("catto", "G")]))
    c.append(T("S22Where", generics=["G"], where="G: ::std::fmt::Debug", fields=[F("x", "G"), F("y", "Option<G>")]))
    # attributes split over several #[deserr(..)]
    c.append(T("S23Split", rename_all="camelCase", deny="default", validate=True, split_attrs=True, fields=[
        F("first_one", "u8", rename="f1", default="trait", map=True, split_attrs=True), F("second_one", "u8")]))
    # single field / many fields
    c.append(T("S24Single", deny="default", fields=[F("only", "u8")]))
    c.append(T("S25Wide", fields=[F("f%d" % i, "u8") for i in range(9)]))
    # no field at all: unknown keys are still refused (there is nothing else such a type can say)
    c.append(T("S29EmptyDeny", deny="default", fields=[]))
    c.append(T("S30EmptyDenyFn", deny="fn", err="CatErr", fields=[]))
    c.append(T("S31Empty", fields=[]))
    # container from / try_from
    c.append(T("C01From", from_=("String", False), fields=[F("inner", "String")]))
    c.append(T("C02FromRef", from_=("String", True), validate=True, fields=[F("inner", "String")]))
    c.append(T("C03TryFrom", try_from=("String", False), fields=[F("inner", "String")]))
    c.append(T("C04TryFromRef", try_from=("u32", True), validate=True, err="CatErr", fields=[F("inner", "u32")]))
    # unit enums
    c.append(T("E01Unit", variants=[V("Alpha"), V("BetaGamma"), V("Delta")]))
    c.append(T("E02UnitRenamed", rename_all="camelCase", variants=[V("FirstOne"), V("SecondOne", rename="2nd"), V("Third")]))
    c.append(T("E03UnitLower", rename_all="lowercase", variants=[V("LoudName"), V("Quiet")]))
    c.append(T("E04UnitOne", variants=[V("Only")]))
    c.append(T("E05UnitConcrete", err="CatErr", validate=True, variants=[V("A"), V("B", rename="bee")]))
    # tagged enums
    c.append(T("E10Tagged", tag="type", variants=[V("A"), V("B", fields=[F("x", "bool"), F("y", "u8")])]))
    c.append(T("E11TaggedRename", tag="kind", rename_all="camelCase", variants=[
        V("UnitOne"), V("WithFields", fields=[F("my_field", "u8"), F("other_field", "String", rename="o")]),
        V("CamelInside", rename_all="camelCase", fields=[F("my_field", "u8"), F("second_field", "bool")]),
        V("LowerInside", rename="lower", rename_all="lowercase", fields=[F("Mixed_field", "u8")])]))
    c.append(T("E12TaggedDeny", tag="t", deny="default", variants=[
        V("A", fields=[F("x", "u8"), F("sk", "u8", skip=True)]), V("B", fields=[F("x", "String"), F("y", "u8", default="trait")]), V("C")]))
    c.append(T("E13TaggedShared", tag="tag", variants=[
        V("P", fields=[F("v", "u8"), F("w", "bool")]), V("Q", fields=[F("v", "String"), F("w", "bool", default="trait")]),
        V("R", fields=[F("tag", "u8", rename="tag2")])]))
    c.append(T("E14TaggedFull", tag="kind", err="CatErr", deny="fn", validate=True, variants=[
        V("One", fields=[F("a", "u8", try_from=("u8", False)), F("b", "u8", missing_fn=True), F("c", "u8", map=True, default="trait")]),
        V("Two", rename="zwei", fields=[F("s", "String", from_=("String", True))]), V("Three")]))
    c.append(T("E15TaggedSingle", tag="only", variants=[V("Solo", fields=[F("z", "Option<u8>")])]))
    c.append(T("E21TaggedEmptyVariant", tag="t", deny="default", variants=[V("Nothing", fields=[]), V("One", fields=[F("x", "u8")])]))
    # a variant-level rename_all must not leak into later variants
    c.append(T("E16VariantOrder", tag="shape", variants=[
        V("Circle", rename_all="camelCase", fields=[F("center_x", "u8"), F("radius_len", "u8")]),
        V("Square", fields=[F("center_x", "u8"), F("side_len", "u8")]),
        V("Wide", rename_all="lowercase", fields=[F("Upper_Case", "u8")]),
        V("Last", fields=[F("Upper_Case", "u8"), F("two_words", "u8")])]))
    c.append(T("E17UnitValidate", validate=True, variants=[V("On"), V("Off")]))
    # more than 20 fields with skipped ones in front: order of keys / accepted list must stay the declaration order
    wide = []
    for i in range(26):
        if i in (0, 3, 7, 12):
            wide.append(F("w%02d" % i, "u8", skip=True))
        else:
            wide.append(F("w%02d" % i, "u8", default="trait" if i % 5 == 0 else None))
    c.append(T("S26VeryWide", deny="default", fields=wide))
    c.append(T("E18WideVariant", tag="t", deny="fn", variants=[V("Big", fields=[F("v%02d" % i, "bool", skip=(i in (1, 2, 9))) for i in range(24)]), V("Small")]))
    # the tag literal is used as written: neither the container's nor a variant's rename_all touches it
    c.append(T("E19TagSnake", tag="shape_kind", rename_all="camelCase", deny="default", variants=[
        V("RoundOne", fields=[F("radius_len", "u8")]), V("FlatOne")]))
    # digits inside a word are word boundaries of their own for the case conversion (`abc1def` -> `abc1Def`)
    c.append(T("S27DigitsInside", rename_all="camelCase", deny="default", fields=[
        F("abc1def", "u8"), F("v2beta_x", "bool"), F("plain_one", "u8"), F("x9", "u8", rename="x_nine")]))
    c.append(T("E20TagUpper", tag="Kind", rename_all="lowercase", variants=[
        V("Dog", fields=[F("Legs", "u8")]), V("Fish", rename_all="camelCase", fields=[F("fin_count", "u8")])]))
    return c


# ---------------------------------------------------------------- random catalogue
FIELD_IDENTS = ["a", "b", "c", "id", "name", "my_field", "other_field", "long_field_name", "x1", "field_2", "value", "kind", "is_ok", "url", "abc1def", "utf8_text"]
VARIANT_IDENTS = ["Alpha", "Beta", "GammaDelta", "Http", "NotFound", "XmlDoc", "A", "Bee", "LongVariantName"]
SCALARS = ["u8", "u16", "i32", "bool", "String", "char", "f64", "u64", "()"]


def rand_ty(rng, depth=0):
    r = rng.random()
    if depth < 2 and r < 0.12:
        return "Vec<%s>" % rand_ty(rng, depth + 1)
    if depth < 2 and r < 0.24:
        return "Option<%s>" % rand_ty(rng, depth + 1)
    if depth < 2 and r < 0.30:
        return "::std::collections::BTreeMap<String, %s>" % rand_ty(rng, depth + 1)
    if depth < 2 and r < 0.34:
        return "(%s, %s)" % (rand_ty(rng, depth + 1), rand_ty(rng, depth + 1))
    return rng.choice(SCALARS)


def has_default(ty):
    return "char" not in ty or ty.startswith("Option") or ty.startswith("Vec")


def rand_field(rng, ident):
    ty = rand_ty(rng)
    f = F(ident, ty)
    r = rng.random()
    if r < 0.2:
        f.rename = rng.choice(["renamed", "Re_Named", ident.upper(), "x-" + ident, ident + "2"])
    r = rng.random()
    if r < 0.15 and has_default(ty):
        f.skip = True
        if rng.random() < 0.4:
            f.default = "fn"
    elif r < 0.3 and has_default(ty):
        f.default = "trait"
    elif r < 0.4 and has_default(ty):
        f.default = "fn"
    r = rng.random()
    if not f.skip:
        if r < 0.12:
            f.from_ = (rng.choice(["u8", "String", "bool"]), rng.random() < 0.5)
        elif r < 0.24:
            f.try_from = (rng.choice(["u8", "String", "bool"]), rng.random() < 0.5)
        if rng.random() < 0.15:
            f.map = True
        if rng.random() < 0.12 and f.default is None:
            f.missing_fn = True
    if rng.random() < 0.2:
        f.split_attrs = True
    return f


def rand_fields(rng, n=None):
    n = n if n is not None else rng.randint(1, 6)
    idents = rng.sample(FIELD_IDENTS, n)
    return [rand_field(rng, i) for i in idents]


def rand_type(rng, idx):
    name = "G%03d" % idx
    r = rng.random()
    ra = rng.choice([None, None, "camelCase", "lowercase"])
    deny = rng.choice([None, None, "default", "fn"])
    err = "CatErr" if rng.random() < 0.25 else "generic"
    validate = rng.random() < 0.2
    if r < 0.55:
        t = T(name, fields=rand_fields(rng), rename_all=ra, deny=deny, err=err, validate=validate,
              split_attrs=rng.random() < 0.2)
    elif r < 0.7:
        vs = rng.sample(VARIANT_IDENTS, rng.randint(1, 5))
        t = T(name, variants=[V(v, rename=("r_" + v) if rng.random() < 0.25 else None) for v in vs],
              rename_all=ra, err=err, validate=validate)
    else:
        vs = rng.sample(VARIANT_IDENTS, rng.randint(1, 4))
        variants = []
        for v in vs:
            if rng.random() < 0.3:
                variants.append(V(v, rename=("r_" + v) if rng.random() < 0.25 else None))
            else:
                variants.append(V(v, fields=rand_fields(rng, rng.randint(1, 4)),
                                  rename=("r_" + v) if rng.random() < 0.25 else None,
                                  rename_all=rng.choice([None, None, "camelCase", "lowercase"])))
        t = T(name, variants=variants, tag=rng.choice(["type", "kind", "t", "the_tag", "Tag", "tagName"]), rename_all=ra, deny=deny, err=err,
              validate=validate)
    # effective keys must be pairwise distinct inside one struct / variant and differ from the tag
    # (the documented semantics do not say which of two colliding fields wins)
    groups = [(t.fields, t.rename_all)] if t.fields else [(v.fields, v.rename_all) for v in t.variants if v.fields]
    for fs, ra_ in groups:
        seen = set([t.tag]) if t.tag else set()
        for i, f in enumerate(fs):
            if f.skip:
                continue
            k = effective_key(f.ident, ra_, f.rename)
            if k in seen:
                f.rename = "uniq_%d_%s" % (i, f.ident)
                k = f.rename
            seen.add(k)
    if t.variants:
        seen = set()
        for i, v in enumerate(t.variants):
            k = effective_key(v.ident, t.rename_all, v.rename)
            if k in seen:
                v.rename = "uniq_%d" % i
                k = v.rename
            seen.add(k)
    # field-level error types only with a concrete container error
    if err == "CatErr":
        for fs in ([t.fields] if t.fields else [v.fields for v in t.variants if v.fields]):
            for f in fs:
                if rng.random() < 0.2 and not f.skip:
                    f.error = rng.choice(["FieldErr", "CatErr"])
    return t


def random_catalogue(seed, count):
    rng = random.Random(seed)
    return [rand_type(rng, i) for i in range(count)]


SUPPORT = r'''// generated by /verif/rules/catgen.py — do not edit
#![allow(dead_code, unused_variables, non_snake_case, non_camel_case_types, clippy::all)]
use deserr::{take_cf_content, DeserializeError, Deserr, ErrorKind, IntoValue, MergeWithError, ValuePointerRef};
use std::convert::Infallible;
use std::ops::ControlFlow;

/// keep-going error type of the catalogue
pub struct CatErr(pub Vec<String>);
impl DeserializeError for CatErr {
    fn error<V: IntoValue>(self_: Option<Self>, _error: ErrorKind<V>, _location: ValuePointerRef) -> ControlFlow<Self, Self> {
        let mut v = self_.map(|x| x.0).unwrap_or_default();
        v.push(String::new());
        ControlFlow::Continue(CatErr(v))
    }
}
impl MergeWithError<CatErr> for CatErr {
    fn merge(self_: Option<Self>, mut other: CatErr, _l: ValuePointerRef) -> ControlFlow<Self, Self> {
        let mut v = self_.map(|x| x.0).unwrap_or_default();
        v.append(&mut other.0);
        ControlFlow::Continue(CatErr(v))
    }
}
/// error of user conversion / validation functions
pub struct ConvErr(pub u32);
impl MergeWithError<ConvErr> for CatErr {
    fn merge(self_: Option<Self>, _other: ConvErr, _l: ValuePointerRef) -> ControlFlow<Self, Self> {
        let mut v = self_.map(|x| x.0).unwrap_or_default();
        v.push(String::new());
        ControlFlow::Continue(CatErr(v))
    }
}
/// a second deserialisation error type, used with field-level `error =`
pub struct FieldErr(pub u32);
impl DeserializeError for FieldErr {
    fn error<V: IntoValue>(_self_: Option<Self>, _error: ErrorKind<V>, _location: ValuePointerRef) -> ControlFlow<Self, Self> {
        ControlFlow::Break(FieldErr(0))
    }
}
impl MergeWithError<FieldErr> for FieldErr {
    fn merge(_self_: Option<Self>, other: FieldErr, _l: ValuePointerRef) -> ControlFlow<Self, Self> {
        ControlFlow::Break(other)
    }
}
impl MergeWithError<ConvErr> for FieldErr {
    fn merge(_self_: Option<Self>, other: ConvErr, _l: ValuePointerRef) -> ControlFlow<Self, Self> {
        ControlFlow::Break(FieldErr(other.0))
    }
}
impl MergeWithError<FieldErr> for CatErr {
    fn merge(self_: Option<Self>, _other: FieldErr, _l: ValuePointerRef) -> ControlFlow<Self, Self> {
        let mut v = self_.map(|x| x.0).unwrap_or_default();
        v.push(String::new());
        ControlFlow::Continue(CatErr(v))
    }
}
pub fn mk_err<E: DeserializeError>(l: ValuePointerRef) -> E {
    take_cf_content(E::error::<Infallible>(None, ErrorKind::Unexpected { msg: String::new() }, l))
}
'''


def type_features(sp):
    """which documented features a catalogue entry exercises (used to attribute a build failure of that entry)"""
    feats = set()
    fields = list(sp.get("fields") or [])
    for v in sp.get("variants") or []:
        fields += v.get("fields") or []
        if v.get("rename_all") or v["key"] != v["ident"]:
            feats.add("rename")
    if sp.get("rename_all"):
        feats.add("rename")
    if sp.get("deny"):
        feats.add("deny")
    if sp.get("validate") or sp.get("from") or sp.get("try_from"):
        feats.add("conv")
    if sp["kind"] in ("tagged_enum", "unit_enum"):
        feats.add("enum")
    for f in fields:
        if f.get("key") is not None and f["key"] != f["ident"]:
            feats.add("rename")
        if f.get("default") or f.get("skipped") or f.get("missing_fn"):
            feats.add("default")
        if f.get("from") or f.get("try_from") or f.get("map") or f.get("error"):
            feats.add("conv")
    return feats


def generate(tier, seed, count=None, exclude=()):
    """returns (rust source, spec list, {type name: (first line, last line)} in the generated source)"""
    cat = base_catalogue()
    if tier == "thorough":
        cat += random_catalogue(seed, count if count is not None else 700)
    else:
        cat += random_catalogue(seed, count if count is not None else 40)
    # entries that mention an excluded entry go too
    excl = set(exclude)
    changed = True
    rendered = [(t, ) + render_type(t) for t in cat]
    while changed:
        changed = False
        for t, s, sp in rendered:
            if t.name in excl:
                continue
            if any(re.search(r"\b%s\b" % re.escape(x), s) for x in excl):
                excl.add(t.name)
                changed = True
    src = [SUPPORT]
    specs = []
    ranges = {}
    line = SUPPORT.count("\n") + 1
    for t, s, sp in rendered:
        if t.name in excl:
            continue
        n = s.count("\n") + 1
        ranges[t.name] = (line + 1, line + n)
        line += n
        src.append(s)
        specs.append(sp)
    return "\n".join(src), specs, ranges


if __name__ == "__main__":
    import sys
    src, specs, _ = generate(sys.argv[1] if len(sys.argv) > 1 else "quick", int(sys.argv[2]) if len(sys.argv) > 2 else 0)
    print(src)
    print(json.dumps(specs, indent=1), file=sys.stderr)
