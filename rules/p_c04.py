"""C04 — every report points at the real culprit: location and payload match input."""
import loc
from check import PropResult
from common import scopes
from sites import BodySites
from analysis import View


def run(ctx):
    res = PropResult("C04")
    res.level = "proof"
    nchild = nsite = 0
    for label, sc, local in scopes(ctx):
        roots = {}
        for c, b, role in sc.members:
            if role == "root":
                roots[(c.name, b.path)] = sc.view(c, b)
        for c, b, role in sc.members:
            v = sc.view(c, b)
            bs = BodySites(v)
            rv = roots.get((c.name, b.root))
            names = ("location", "deserr_location__")
            if rv is not None and rv.b.lname(2):
                names = (rv.b.lname(2),)
            fs, ob = loc.c04_rules(v, bs, names, rv)
            nchild += len(bs.children)
            nsite += len(bs.sites)
            res.add("C04.CHILD/MERGE/SELF/PAYLOAD", ob, fs)
            if len(res.samples) < 8 and bs.children and role == "root" and not bs.children[0]["delegating"]:
                ch = bs.children[0]
                res.samples.append({"body": b.path, "child": ch["full"], "value": loc.fmt(loc.canon(v, ch["value"])),
                                    "location": loc.fmt(loc.canon(v, ch["loc"]))})
    # C04.MISSING (derived code): a MissingField report is true of the payload only if the field's state stays
    # `Missing` exactly when its key never occurred: every path through the arm of a key (re)assigns that field's state
    import skeleton
    import flow
    from lin import Finding
    nm_ob = 0
    nm_fs = []
    for label, sc, local in scopes(ctx):
        for c, b, role in sc.members:
            if role != "root" or c.name == "deserr":
                continue
            v = sc.view(c, b)
            bs = BodySites(v)
            sk = skeleton.extract(v, bs, {})
            nfs = []
            if sk.named is not None:
                nfs.append(sk.named)
            for k, val in sk.variants.items():
                if val[0] == "named":
                    nfs.append(val[1])
            gs = flow.gprime_succ(v, bs)
            for nf in nfs:
                if nf.errors or nf.loop_header is None:
                    continue
                for a in nf.arms:
                    for fname, defs in a["assigned"].items():
                        nm_ob += 1
                        assign_blocks = set(d[1] for d in defs)
                        seen = set()
                        st = [a["entry"]]
                        leak = False
                        while st:
                            x = st.pop()
                            if x in seen or x in assign_blocks or x not in nf.loop_body:
                                continue
                            seen.add(x)
                            if x == nf.loop_header:
                                leak = True
                                break
                            st.extend(gs[x])
                        if leak:
                            nm_fs.append(Finding("C04.MISSING", b.path, "the key `%s` can be present without the state of field `%s` being updated: it may later be reported missing although it is there" % (a["key"], fname), b.span))
                    if not a["assigned"]:
                        nm_ob += 1
                        nm_fs.append(Finding("C04.MISSING", b.path, "the arm of key `%s` never records that the key was seen" % a["key"], b.span))
    res.add("C04.MISSING", nm_ob, nm_fs)
    import controls
    controls.run(ctx, res, "C04", lambda crate, b, v, bs: loc.c04_rules(v, bs, (v.b.lname(2),) if v.b.lname(2) else ("location",), v)[0])
    # C04.PTR: push_key / push_index build the right variant with prev = self
    res.add("C04.PTR", *ptr_rules(ctx))
    res.analysed.update({"child_calls": nchild, "report_sites": nsite})
    res.floor("child calls", nchild, 16)
    res.floor("report sites", nsite, 115)
    res.trusted_base = ["rustc nightly MIR construction", "mirfacts extractor", "rules/loc.py (provenance terms)"]
    res.assumptions = ["locations are tied to the iterator step the item came from; run-time key values are irrelevant to the argument",
                       "derived code: per catalogue entry", "unwinding ignored"]
    res.explanation = ("Each child call's value is traced to one iterator step (or the whole input) and its location must be push_key/push_index of the "
                       "container's own location with the key/index of that same step (enumerate counter, or constant ordinal in unrolled code). "
                       "Every hand-over is located where the error came from; reports about the container itself are at its own location; ErrorKind payload "
                       "fields are the values found there.")
    return res


def ptr_rules(ctx):
    from lin import Finding
    crate = ctx.libcrate("deserr")
    fs = []
    n = 0
    for name, variant, field in (("push_key", "Key", "key"), ("push_index", "Index", "index")):
        b = None
        for x in crate.bodies:
            if x.path.endswith("ValuePointerRef::<'a>::" + name) or x.path.endswith("ValuePointerRef::" + name):
                b = x
        n += 1
        if b is None:
            fs.append(Finding("C04.PTR", name, "ValuePointerRef::%s not found" % name, ""))
            continue
        v = View(b)
        ok = False
        for bb in v.reach:
            for st in v.blocks[bb]["stmts"]:
                if st["k"] == "assign" and st["place"]["l"] == 0 and not st["place"]["p"]:
                    t = v.origin_rv(st["rv"], bb)
                    if t[0] == "agg" and t[1] == "adt" and t[4] == variant:
                        f = dict(zip(t[5], t[2]))
                        from analysis import strip_refs
                        if strip_refs(f.get(field)) == ("param", 2) and strip_refs(f.get("prev")) == ("param", 1):
                            ok = True
        if not ok:
            fs.append(Finding("C04.PTR", b.path, "%s does not build %s { %s: argument, prev: self }" % (name, variant, field), b.span))
    return n, fs
