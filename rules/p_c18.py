"""C18 — did-you-mean: budget table by byte length, candidate selection = first minimum of
Damerau-Levenshtein distance within the budget.  Structure only; the metric is strsim's."""
from analysis import View, strip_refs, erase_generics, term_mentions
from check import PropResult
from lin import Finding
from loc import canon, fmt, call_name
from sites import npath

INF = 10 ** 30
WANT = [((0, 3), "empty"), ((4, 7), 1), ((8, 12), 2), ((13, 17), 3), ((18, 24), 4), ((25, INF), 5)]


def fnd(rule, v, what, bb=None, detail=""):
    at = v.blocks[bb]["term"].get("at", "") if bb is not None else v.b.span
    return Finding(rule, v.b.path, what, at, detail)


def closure_view(crate, path):
    for b in crate.bodies:
        if b.path == path:
            return View(b)
    return None


def budget_table(v, len_call_bb):
    """symbolic walk of the range dispatch on `len`: [( (lo, hi), 'empty' | int | 'other')]"""
    len_term = ("call", len_call_bb)
    start = v.blocks[len_call_bb]["term"]["target"]
    leaves = []
    seen = set()

    def walk(bb, lo, hi, depth):
        if lo > hi or depth > 60:
            return
        key = (bb, lo, hi)
        if key in seen:
            return
        seen.add(key)
        blk = v.blocks[bb]
        # leaf: assigns a constant budget / returns early
        for st in blk["stmts"]:
            if st["k"] == "assign" and st["rv"]["k"] == "use" and st["rv"]["op"]["k"] == "const" and "int" in st["rv"]["op"] and not st["place"]["p"] \
                    and v.b.ltys(st["place"]["l"]) == "usize" and v.b.lname(st["place"]["l"]):
                leaves.append(((lo, hi), st["rv"]["op"]["int"], st["place"]["l"]))
                return
        t = blk["term"]
        if t["k"] == "call" and t["dest"]["l"] == 0:
            c = v.callee(bb)
            leaves.append(((lo, hi), "empty" if c.fn is not None and c.base() == "std::string::String::new" else "other", None))
            return
        # `return message;` where message is the (still empty) String created up front
        for st in blk["stmts"]:
            if st["k"] == "assign" and st["place"]["l"] == 0 and not st["place"]["p"] and st["rv"]["k"] == "use" and st["rv"]["op"]["k"] in ("move", "copy"):
                src = strip_refs(canon(v, v.origin(st["rv"]["op"])))
                if src[0] == "call" and call_name(v, src) == "std::string::String::new":
                    # nothing was appended on the way here?
                    pushes = [x for x, c2 in v.calls() if c2.fn is not None and c2.name in ("push_str", "push", "write_fmt", "write_str", "extend", "insert_str")
                              and bb in v.reachable(x)]
                    leaves.append(((lo, hi), "empty" if not pushes else "other", None))
                    return
        if t["k"] == "switch":
            info = v.switch_info(bb)
            src = info.get("src")
            if info["kind"] == "bool" and src is not None and src["k"] == "binop" and src["op"] in ("Le", "Lt", "Ge", "Gt"):
                a = canon(v, v.origin(src["a"]))
                b = canon(v, v.origin(src["b"]))
                tt = v.edge_target(info, True)
                ft = v.edge_target(info, False)
                op = src["op"]

                def is_len(x):
                    return x[0] == "call" and x[1] == len_call_bb
                if is_len(b) and a[0] == "const":      # const OP len
                    c = a[2]
                    op = {"Le": "Ge", "Lt": "Gt", "Ge": "Le", "Gt": "Lt"}[op]   # len OP' const
                elif is_len(a) and b[0] == "const":
                    c = b[2]
                else:
                    leaves.append(((lo, hi), "other", None))
                    return
                if op == "Le":
                    walk(tt, lo, min(hi, c), depth + 1)
                    walk(ft, max(lo, c + 1), hi, depth + 1)
                elif op == "Lt":
                    walk(tt, lo, min(hi, c - 1), depth + 1)
                    walk(ft, max(lo, c), hi, depth + 1)
                elif op == "Ge":
                    walk(tt, max(lo, c), hi, depth + 1)
                    walk(ft, lo, min(hi, c - 1), depth + 1)
                else:
                    walk(tt, max(lo, c + 1), hi, depth + 1)
                    walk(ft, lo, min(hi, c), depth + 1)
                return
            if info["kind"] == "int":
                dt = canon(v, v.origin(t["discr"]))
                if dt[0] == "call" and dt[1] == len_call_bb:
                    pts = sorted(val for val, tgt in info["edges"] if val is not None)
                    for val, tgt in info["edges"]:
                        if val is not None and lo <= val <= hi:
                            walk(tgt, val, val, depth + 1)
                    # the remaining lengths, interval by interval
                    cur_lo = lo
                    for pnt in pts + [None]:
                        seg_hi = hi if pnt is None else min(hi, pnt - 1)
                        if cur_lo <= seg_hi:
                            walk(t["otherwise"], cur_lo, seg_hi, depth + 1)
                        if pnt is not None:
                            cur_lo = max(cur_lo, pnt + 1)
                    return
            leaves.append(((lo, hi), "other", None))
            return
        for s in v.succ[bb]:
            walk(s, lo, hi, depth + 1)
    walk(start, 0, INF, 0)
    return leaves


def merge_intervals(leaves):
    leaves = sorted(leaves, key=lambda x: x[0][0])
    out = []
    for (lo, hi), val, l in leaves:
        if out and out[-1][1] == val and out[-1][0][1] + 1 == lo:
            out[-1] = ((out[-1][0][0], hi), val)
        else:
            out.append(((lo, hi), val))
    return out



def _all_views(crate, v):
    """the function and the closures it creates (transitively)"""
    out = [v]
    seen = set()
    work = [v]
    while work:
        x = work.pop()
        for bb in x.reach:
            for st in x.blocks[bb]["stmts"]:
                if st["k"] == "assign" and st["rv"]["k"] == "agg" and st["rv"].get("ak") == "closure":
                    p = st["rv"].get("path")
                    if p and p not in seen:
                        seen.add(p)
                        cv = closure_view(crate, p)
                        if cv is not None:
                            out.append(cv)
                            work.append(cv)
    return out


def select_general(crate, v, mins, budget_locals):
    """Selection written in another way than the map / filter / min_by chain: what can be said for any formulation.
    (1) the only metric is strsim::damerau_levenshtein; (2) nothing selects a last / a maximum; (3) an explicit loop
    replaces its best candidate only on a strictly smaller distance; everything else is left undecided."""
    fs = []
    views = _all_views(crate, v)
    metrics = []
    for x in views:
        for bb, c in x.calls():
            if c.fn is not None and c.krate == "strsim":
                metrics.append((x, bb, c))
    for x, bb, c in metrics:
        if c.path != "strsim::damerau_levenshtein":
            fs.append(fnd("C18.SELECT", x, "the metric is %s, not strsim::damerau_levenshtein" % c.path, bb))
    for x in views:
        for bb, c in x.calls():
            if c.fn is not None and c.trait and erase_generics(c.trait) in ("std::iter::Iterator", "std::iter::DoubleEndedIterator") and c.name in ("max_by", "max_by_key", "max", "last", "rev", "rfind", "next_back"):
                fs.append(fnd("C18.SELECT", x, "the candidate is selected with %s: not the first of the closest candidates" % c.name, bb))
    decided = False
    # iterator form with other adaptors: min_by / min_by_key over accepted, every filter looks at the distance
    sel = [bb for bb in mins if v.callee(bb).name in ("min_by", "min_by_key")]
    if len(sel) == 1 and len(mins) == 1:
        t = canon(v, v.origin_call(sel[0]))
        cur = t
        ok_chain = True
        filters = []
        while cur[0] == "call":
            nm = call_name(v, cur) or ""
            short = nm.split("::")[-1]
            if short not in ("min_by", "min_by_key", "filter", "map", "filter_map", "iter", "copied", "cloned", "into_iter"):
                ok_chain = False
            if short in ("filter", "filter_map") and len(cur[3]) > 1:
                filters.append(strip_refs(cur[3][1]))
            if not cur[3]:
                break
            cur = cur[3][0]
        if ok_chain and strip_refs(cur) == ("param", 2):
            for cl in filters:
                if cl[0] == "agg" and cl[1] == "closure":
                    cv = closure_view(crate, cl[3])
                    if cv is None:
                        continue
                    sees_distance = any(c.fn is not None and c.krate == "strsim" for _, c in cv.calls()) or "usize)" in cv.b.ltys(2) or "usize)" in (cv.b.ltys(2) if cv.b.arg_count >= 2 else "")
                    if not sees_distance:
                        fs.append(fnd("C18.SELECT", cv, "candidates are dropped by a condition that does not look at their distance"))
    # loop form of the same: an iteration that goes on to the next candidate before the distance of this one was computed,
    # on a condition about byte lengths (`str::len`): the metric counts characters, so a difference in bytes is not a lower
    # bound of the distance and candidates within the budget are dropped
    for h, body in v.loops():
        dist = [bb for bb in body if v.blocks[bb]["term"]["k"] == "call" and v.callee(bb) is not None and v.callee(bb).fn is not None and v.callee(bb).krate == "strsim"]
        if not dist:
            continue

        def reach_in_iteration(start, avoid):
            seen_, work_ = set(), [start]
            while work_:
                x_ = work_.pop()
                if x_ in seen_ or x_ not in body or x_ in avoid:
                    continue
                seen_.add(x_)
                if x_ == h and start != h:
                    continue
                work_.extend(v.succ[x_])
            return seen_
        for sb in sorted(body):
            info = v.switch_info(sb)
            if not info or info["kind"] not in ("bool", "int") or sb == h:
                continue
            if not any(d_ in reach_in_iteration(sb, set()) for d_ in dist):
                continue
            skips = [y for y in set(v.succ[sb]) if h in reach_in_iteration(y, set(dist)) and not any(d_ in reach_in_iteration(y, set()) for d_ in dist)]
            if not skips:
                continue
            cond = canon(v, v.origin(v.blocks[sb]["term"]["discr"]))
            if term_mentions(cond, lambda y: y[0] == "call" and (call_name(v, y) or "").split("::")[-1] == "len" and "str" in (call_name(v, y) or "")):
                fs.append(fnd("C18.SELECT", v, "candidates are skipped, before their distance is computed, on a condition about lengths in bytes: the distance counts characters, "
                              "so candidates within the budget are dropped", sb))
    # loop form: `best = Some((candidate, distance))` replaced only when distance < best.1
    for h, body in v.loops():
        for bb in sorted(body):
            for st in v.blocks[bb]["stmts"]:
                if st["k"] == "assign" and not st["place"]["p"] and st["rv"]["k"] == "agg" and st["rv"].get("variant") == "Some" and "usize)" in v.b.ltys(st["place"]["l"]):
                    best = st["place"]["l"]
                    rb = bb
                    # (the aggregate may first go to a temporary that is then moved into the variable)
                    for b3 in sorted(body):
                        for st3 in v.blocks[b3]["stmts"]:
                            if st3["k"] == "assign" and not st3["place"]["p"] and st3["rv"]["k"] == "use" and st3["rv"]["op"]["k"] == "move" \
                                    and not st3["rv"]["op"]["place"]["p"] and st3["rv"]["op"]["place"]["l"] == best and len(v.whole_defs(st3["place"]["l"])) > 1:
                                best, rb = st3["place"]["l"], b3
                                break
                    r = _loop_replacement_rule(v, body, best, rb)
                    if r is False:
                        fs.append(fnd("C18.SELECT", v, "the best candidate is replaced by one at the same distance: not the first of the closest candidates", bb))
                        decided = True
                    elif r is True:
                        decided = True
    if not fs and not decided:
        f_ = fnd("C18.SELECT", v, "the selection is not written as accepted.iter().map(distance).filter(budget).min_by(distance): only the metric and the absence of last / max selection were checked (undecided)")
        f_.undecided = True
        fs.append(f_)
    return fs


def _loop_replacement_rule(v, body, best, repl_bb):
    """True: the replacement of `best` (when it is Some) happens only under distance < best.1; False: it can happen at
    an equal distance; None: not understood"""
    # temporaries that end up in best
    targets = {best}
    for bb in body:
        for st in v.blocks[bb]["stmts"]:
            if st["k"] == "assign" and not st["place"]["p"] and st["place"]["l"] == best and st["rv"]["k"] == "use" and st["rv"]["op"]["k"] == "move" and not st["rv"]["op"]["place"]["p"]:
                targets.add(st["rv"]["op"]["place"]["l"])

    def is_best_dist(term):
        t = strip_refs(term)
        return t[0] == "field" and str(t[3]) == "1" and term_mentions(t, lambda y: y == ("multi", best) or (isinstance(y, tuple) and len(y) > 1 and y[0] == "multi" and y[1] in targets))

    verdicts = []
    for bb in sorted(body):
        blk = v.blocks[bb]
        for st in blk["stmts"]:
            if st["k"] != "assign" or st["rv"]["k"] != "binop" or st["rv"]["op"] not in ("Lt", "Le", "Gt", "Ge"):
                continue
            a = canon(v, v.origin(st["rv"]["a"]))
            b2 = canon(v, v.origin(st["rv"]["b"]))
            op = st["rv"]["op"]
            if is_best_dist(a) and not is_best_dist(b2):
                # best OP distance  ==  distance OP' best
                op = {"Lt": "Gt", "Le": "Ge", "Gt": "Lt", "Ge": "Le"}[op]
            elif is_best_dist(b2) and not is_best_dist(a):
                pass
            else:
                continue
            cl = st["place"]["l"]
            # where is the result switched on?
            for sb in sorted(body):
                info = v.switch_info(sb)
                if not info or info["kind"] != "bool":
                    continue
                d = v.blocks[sb]["term"]["discr"]
                if d["k"] not in ("copy", "move") or d["place"]["p"]:
                    continue
                dl = d["place"]["l"]
                feeds = dl == cl
                if not feeds:
                    for df in v.whole_defs(dl):
                        if df[0] == "stmt" and df[3]["rv"]["k"] == "use" and df[3]["rv"]["op"]["k"] in ("move", "copy") and not df[3]["rv"]["op"]["place"]["p"] and df[3]["rv"]["op"]["place"]["l"] == cl:
                            feeds = True
                        if df[0] == "stmt" and df[3] is st:
                            feeds = True
                if not feeds:
                    continue
                tt, ft = v.edge_target(info, True), v.edge_target(info, False)
                if tt is None or ft is None:
                    continue
                headers = set(h2 for h2, bd2 in v.loops() if set(bd2) == set(body) or repl_bb in bd2)

                def in_body(s):
                    # blocks reachable inside this iteration (not through the loop header)
                    seen_ = set()
                    work_ = [s]
                    while work_:
                        x_ = work_.pop()
                        if x_ in seen_ or x_ not in body or x_ in headers:
                            continue
                        seen_.add(x_)
                        work_.extend(v.succ[x_])
                    return seen_
                t_repl = repl_bb in in_body(tt) and not (repl_bb in in_body(ft))
                f_repl = repl_bb in in_body(ft) and not (repl_bb in in_body(tt))
                if t_repl:
                    verdicts.append(op == "Lt")          # replace iff distance < best
                elif f_repl:
                    verdicts.append(op == "Ge")          # keep iff distance >= best  <=> replace iff distance < best
    if not verdicts:
        return None
    return all(verdicts)


def run(ctx):
    res = PropResult("C18")
    res.level = "other"
    crate = ctx.libcrate("deserr")
    b = None
    for x in crate.bodies:
        if x.path == "errors::helpers::did_you_mean":
            b = x
    if b is None:
        res.add("C18.BUDGET", 1, [Finding("C18.BUDGET", "did_you_mean", "function not found (undecided)", "", undecided=True)])
        return res
    import inline
    b = inline.expand_local_helpers(crate, b)
    v = View(b)
    fs = []
    # ---- BUDGET
    lens = [bb for bb, c in v.calls() if c.fn is not None and c.name == "len" and "str" in c.path]
    budget_locals = set()
    lens = [bb for bb in lens if strip_refs(canon(v, v.origin(v.blocks[bb]["term"]["args"][0]))) == ("param", 1)]
    if len(lens) != 1:
        f_ = fnd("C18.BUDGET", v, "no single `received.len()` found: budget table not extracted (undecided)")
        f_.undecided = True
        fs.append(f_)
        table = []
    else:
        leaves = budget_table(v, lens[0])
        table = merge_intervals(leaves)
        covered = sorted(iv for iv, _ in table)
        gaps = (not covered) or covered[0][0] != 0 or covered[-1][1] < INF or any(covered[i][1] + 1 != covered[i + 1][0] for i in range(len(covered) - 1))
        if any(val == "other" for _, val in table) or not table or gaps:
            f_ = fnd("C18.BUDGET", v, "the dispatch on the length was not fully read (%s): budget table not extracted (undecided)" % (
                [(a, b2 if b2 < INF else "inf", val) for ((a, b2), val) in table]))
            f_.undecided = True
            fs.append(f_)
        elif table != WANT:
            fs.append(fnd("C18.BUDGET", v, "typo budget table is %s, the statement says %s" % (
                [(a, b2 if b2 < INF else "inf", val) for ((a, b2), val) in table], [(a, b2 if b2 < INF else "inf", val) for ((a, b2), val) in WANT])))
        budget_locals = set(l for _, _, l in leaves if l is not None)
    res.add("C18.BUDGET", 7, fs)
    # ---- SELECT
    fs = []
    ob = 8
    mins = [bb for bb, c in v.calls() if c.fn is not None and c.trait and erase_generics(c.trait) == "std::iter::Iterator" and c.name in ("min_by", "min_by_key", "max_by", "max_by_key", "min", "max", "fold", "reduce", "last", "find")]
    exact = False
    if len(mins) == 1 and v.callee(mins[0]).name == "min_by":
        t0 = canon(v, v.origin_call(mins[0]))
        ch0 = []
        c0_ = t0
        while c0_[0] == "call":
            ch0.append(call_name(v, c0_))
            if not c0_[3]:
                break
            c0_ = c0_[3][0]
        exact = ch0 == ["std::iter::Iterator::min_by", "std::iter::Iterator::filter", "std::iter::Iterator::map", "core::slice::iter"]
    if not exact:
        fs += select_general(crate, v, mins, budget_locals)
    else:
        t = canon(v, v.origin_call(mins[0]))
        chain = []
        cur = t
        closures = {}
        while cur[0] == "call":
            nm = call_name(v, cur)
            chain.append(nm)
            if len(cur[3]) > 1:
                cl = strip_refs(cur[3][1])
                if cl[0] == "agg" and cl[1] == "closure":
                    closures[nm] = cl
            if not cur[3]:
                break
            cur = cur[3][0]
        want_chain = ["std::iter::Iterator::min_by", "std::iter::Iterator::filter", "std::iter::Iterator::map", "core::slice::iter"]
        if chain != want_chain:
            fs.append(fnd("C18.SELECT", v, "candidates flow through %s, expected accepted.iter().map(distance).filter(budget).min_by(distance)" % chain, mins[0]))
        elif strip_refs(cur) != ("param", 2):
            fs.append(fnd("C18.SELECT", v, "candidates are not taken from the accepted list", mins[0], fmt(cur)))
        else:
            # map closure: (candidate, damerau_levenshtein(received, candidate))
            mv = closure_view(crate, closures["std::iter::Iterator::map"][3])
            okm = False
            if mv is not None:
                for bb in mv.reach:
                    for st in mv.blocks[bb]["stmts"]:
                        if st["k"] == "assign" and st["place"]["l"] == 0:
                            r = canon(mv, mv.origin_rv(st["rv"], bb))
                            if r[0] == "agg" and r[1] == "tuple" and len(r[2]) == 2:
                                c0, d = r[2]
                                if strip_refs(c0) == ("param", 2) and d[0] == "call" and mv.callee(d[1]).path == "strsim::damerau_levenshtein":
                                    a0 = strip_refs(d[3][0])
                                    a1 = strip_refs(d[3][1])
                                    if a0[0] == "field" and a0[1] == ("param", 1) and a0[3] == "received" and a1 == ("param", 2):
                                        okm = True
            if not okm:
                fs.append(fnd("C18.SELECT", v, "the metric is not strsim::damerau_levenshtein(received, candidate)"))
            # filter closure: distance <= budget
            fv = closure_view(crate, closures["std::iter::Iterator::filter"][3])
            okf = False
            if fv is not None:
                for bb, c in fv.calls():
                    if fv.blocks[bb]["term"]["dest"]["l"] == 0 and c.fn is not None and c.name == "le" and c.trait and erase_generics(c.trait) == "std::cmp::PartialOrd":
                        t2 = fv.blocks[bb]["term"]
                        a0 = strip_refs(fv.origin(t2["args"][0]))
                        a1 = strip_refs(fv.origin(t2["args"][1]))
                        if a0[0] == "field" and a0[3] == "1" and strip_refs(a0[1]) == ("param", 2) and a1[0] == "field" and strip_refs(a1[1]) == ("param", 1):
                            okf = True
                # the captured budget is the table's variable
                up = closures["std::iter::Iterator::filter"][2]
                if not (len(up) == 1 and strip_refs(up[0])[0] == "multi" and strip_refs(up[0])[1] in budget_locals):
                    okf = False
            if not okf:
                fs.append(fnd("C18.SELECT", v, "candidates are not kept exactly when distance <= budget"))
            # comparator: d1.cmp(d2)
            cv = closure_view(crate, closures["std::iter::Iterator::min_by"][3])
            okc = False
            if cv is not None:
                for bb, c in cv.calls():
                    if cv.blocks[bb]["term"]["dest"]["l"] == 0 and c.fn is not None and c.name == "cmp" and c.trait and erase_generics(c.trait) == "std::cmp::Ord":
                        t2 = cv.blocks[bb]["term"]
                        a0 = strip_refs(cv.origin(t2["args"][0]))
                        a1 = strip_refs(cv.origin(t2["args"][1]))
                        if a0[0] == "field" and a0[3] == "1" and strip_refs(a0[1]) == ("param", 2) and a1[0] == "field" and a1[3] == "1" and strip_refs(a1[1]) == ("param", 3):
                            okc = True
            if not okc:
                fs.append(fnd("C18.SELECT", v, "min_by does not compare the two distances as d1.cmp(d2)"))
        # None => empty, Some((c, _)) => message naming c
        from sites import follow_local_use
        k, sbb, info, cur2 = follow_local_use(v, mins[0], v.blocks[mins[0]]["term"]["dest"]["l"])
        if k != "switch":
            fs.append(fnd("C18.SELECT", v, "the selection result is not matched on"))
        else:
            nt = v.variant_target(info, "None")
            st_ = v.variant_target(info, "Some")
            okn = any(v.callee(x) is not None and v.callee(x).fn is not None and v.callee(x).base() == "std::string::String::new" and v.blocks[x]["term"]["dest"]["l"] == 0
                      for x in (v.reachable(nt) - v.reachable(st_)))
            if not okn:
                fs.append(fnd("C18.SELECT", v, "no candidate within the budget does not give the empty suggestion"))
            oks = False
            for bb, c in v.calls():
                if bb in v.reachable(st_) and c.fn is not None and "fmt::rt::Argument" in c.path:
                    a = strip_refs(canon(v, v.origin(v.blocks[bb]["term"]["args"][0])))
                    want = ("field", ("field", ("call", mins[0]), "Some", "0"), None, "0")
                    if a[0] == "field" and a[3] == "0" and a[1][0] == "field" and a[1][2] == "Some" and a[1][1][0] == "call" and a[1][1][1] == mins[0]:
                        oks = True
            if not oks:
                fs.append(fnd("C18.SELECT", v, "the suggestion does not name the selected candidate"))
    if getattr(b, "inlined", None):
        for f_ in fs:
            if "metric" not in f_.what and "same distance" not in f_.what and "does not look at their distance" not in f_.what and "not the first" not in f_.what:
                f_.undecided = True
    res.add("C18.SELECT", ob, fs)
    res.samples = [{"budget_table": [(a, b2 if b2 < INF else "inf", val) for ((a, b2), val) in table]},
                   {"selection": "accepted.iter().map(|c| (c, damerau_levenshtein(received, c))).filter(d <= budget).min_by(d1.cmp(d2))"}]
    res.trusted_base = ["rustc nightly MIR construction", "mirfacts extractor", "rules/p_c18.py", "strsim::damerau_levenshtein (pinned in Cargo.lock)",
                        "std: Iterator::min_by returns the first of several minima; filter/map keep order"]
    res.assumptions = ["the edit distance itself is strsim's; `len` is str::len (bytes), as the statement says"]
    res.explanation = ("BUDGET: the range dispatch on received.len() is walked symbolically (interval splitting at each comparison with a constant) and must equal "
                       "{0-3: empty, 4-7: 1, 8-12: 2, 13-17: 3, 18-24: 4, 25+: 5}. SELECT: candidates are accepted.iter() in order, unfiltered before the metric; the metric is "
                       "damerau_levenshtein(received, candidate); kept iff distance <= budget; chosen by min_by(d1.cmp(d2)); None gives the empty string, Some names that candidate.")
    return res
