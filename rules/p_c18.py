"""C18 — did-you-mean: budget table by byte length, candidate selection = first minimum of
Damerau-Levenshtein distance within the budget.  Structure only; the metric is strsim's."""
from analysis import View, strip_refs, erase_generics, term_mentions
from check import PropResult
from lin import Finding
from loc import canon, fmt, call_name
from sites import npath

INF = 10 ** 30
WANT = [((0, 3), "empty"), ((4, 7), 1), ((8, 12), 2), ((13, 17), 3), ((18, 24), 4), ((25, INF), 5)]


def fnd(rule, v, what, bb=None, detail=""):
    at = v.blocks[bb]["term"].get("at", "") if bb is not None else v.b.span
    return Finding(rule, v.b.path, what, at, detail)


def closure_view(crate, path):
    for b in crate.bodies:
        if b.path == path:
            return View(b)
    return None


def budget_table(v, len_call_bb):
    """symbolic walk of the range dispatch on `len`: [( (lo, hi), 'empty' | int | 'other')]"""
    len_term = ("call", len_call_bb)
    start = v.blocks[len_call_bb]["term"]["target"]
    leaves = []
    seen = set()

    def walk(bb, lo, hi, depth):
        if lo > hi or depth > 60:
            return
        key = (bb, lo, hi)
        if key in seen:
            return
        seen.add(key)
        blk = v.blocks[bb]
        # leaf: assigns a constant budget / returns early
        for st in blk["stmts"]:
            if st["k"] == "assign" and st["rv"]["k"] == "use" and st["rv"]["op"]["k"] == "const" and "int" in st["rv"]["op"] and not st["place"]["p"] \
                    and v.b.ltys(st["place"]["l"]) == "usize" and v.b.lname(st["place"]["l"]):
                leaves.append(((lo, hi), st["rv"]["op"]["int"], st["place"]["l"]))
                return
        t = blk["term"]
        if t["k"] == "call" and t["dest"]["l"] == 0:
            c = v.callee(bb)
            leaves.append(((lo, hi), "empty" if c.fn is not None and c.base() == "std::string::String::new" else "other", None))
            return
        if t["k"] == "switch":
            info = v.switch_info(bb)
            src = info.get("src")
            if info["kind"] == "bool" and src is not None and src["k"] == "binop" and src["op"] in ("Le", "Lt", "Ge", "Gt"):
                a = canon(v, v.origin(src["a"]))
                b = canon(v, v.origin(src["b"]))
                tt = v.edge_target(info, True)
                ft = v.edge_target(info, False)
                op = src["op"]

                def is_len(x):
                    return x[0] == "call" and x[1] == len_call_bb
                if is_len(b) and a[0] == "const":      # const OP len
                    c = a[2]
                    op = {"Le": "Ge", "Lt": "Gt", "Ge": "Le", "Gt": "Lt"}[op]   # len OP' const
                elif is_len(a) and b[0] == "const":
                    c = b[2]
                else:
                    leaves.append(((lo, hi), "other", None))
                    return
                if op == "Le":
                    walk(tt, lo, min(hi, c), depth + 1)
                    walk(ft, max(lo, c + 1), hi, depth + 1)
                elif op == "Lt":
                    walk(tt, lo, min(hi, c - 1), depth + 1)
                    walk(ft, max(lo, c), hi, depth + 1)
                elif op == "Ge":
                    walk(tt, max(lo, c), hi, depth + 1)
                    walk(ft, lo, min(hi, c - 1), depth + 1)
                else:
                    walk(tt, max(lo, c + 1), hi, depth + 1)
                    walk(ft, lo, min(hi, c), depth + 1)
                return
            leaves.append(((lo, hi), "other", None))
            return
        for s in v.succ[bb]:
            walk(s, lo, hi, depth + 1)
    walk(start, 0, INF, 0)
    return leaves


def merge_intervals(leaves):
    leaves = sorted(leaves, key=lambda x: x[0][0])
    out = []
    for (lo, hi), val, l in leaves:
        if out and out[-1][1] == val and out[-1][0][1] + 1 == lo:
            out[-1] = ((out[-1][0][0], hi), val)
        else:
            out.append(((lo, hi), val))
    return out


def run(ctx):
    res = PropResult("C18")
    res.level = "other"
    crate = ctx.libcrate("deserr")
    b = None
    for x in crate.bodies:
        if x.path == "errors::helpers::did_you_mean":
            b = x
    if b is None:
        res.add("C18.BUDGET", 1, [Finding("C18.BUDGET", "did_you_mean", "function not found", "")])
        return res
    v = View(b)
    fs = []
    # ---- BUDGET
    lens = [bb for bb, c in v.calls() if c.fn is not None and c.name == "len" and "str" in c.path]
    if len(lens) != 1 or strip_refs(canon(v, v.origin(v.blocks[lens[0]]["term"]["args"][0]))) != ("param", 1):
        fs.append(fnd("C18.BUDGET", v, "the budget is not derived from the byte length of the received string"))
        table = []
    else:
        leaves = budget_table(v, lens[0])
        table = merge_intervals(leaves)
        if table != WANT:
            fs.append(fnd("C18.BUDGET", v, "typo budget table is %s, the statement says %s" % (
                [(a, b2 if b2 < INF else "inf", val) for ((a, b2), val) in table], [(a, b2 if b2 < INF else "inf", val) for ((a, b2), val) in WANT])))
        budget_locals = set(l for _, _, l in leaves if l is not None)
    res.add("C18.BUDGET", 7, fs)
    # ---- SELECT
    fs = []
    ob = 8
    mins = [bb for bb, c in v.calls() if c.fn is not None and c.trait and erase_generics(c.trait) == "std::iter::Iterator" and c.name in ("min_by", "min_by_key", "max_by", "max_by_key", "min", "max", "fold", "reduce", "last", "find")]
    if len(mins) != 1 or v.callee(mins[0]).name != "min_by":
        fs.append(fnd("C18.SELECT", v, "the suggestion is not selected with Iterator::min_by (first minimum)"))
    else:
        t = canon(v, v.origin_call(mins[0]))
        chain = []
        cur = t
        closures = {}
        while cur[0] == "call":
            nm = call_name(v, cur)
            chain.append(nm)
            if len(cur[3]) > 1:
                cl = strip_refs(cur[3][1])
                if cl[0] == "agg" and cl[1] == "closure":
                    closures[nm] = cl
            if not cur[3]:
                break
            cur = cur[3][0]
        want_chain = ["std::iter::Iterator::min_by", "std::iter::Iterator::filter", "std::iter::Iterator::map", "core::slice::iter"]
        if chain != want_chain:
            fs.append(fnd("C18.SELECT", v, "candidates flow through %s, expected accepted.iter().map(distance).filter(budget).min_by(distance)" % chain, mins[0]))
        elif strip_refs(cur) != ("param", 2):
            fs.append(fnd("C18.SELECT", v, "candidates are not taken from the accepted list", mins[0], fmt(cur)))
        else:
            # map closure: (candidate, damerau_levenshtein(received, candidate))
            mv = closure_view(crate, closures["std::iter::Iterator::map"][3])
            okm = False
            if mv is not None:
                for bb in mv.reach:
                    for st in mv.blocks[bb]["stmts"]:
                        if st["k"] == "assign" and st["place"]["l"] == 0:
                            r = canon(mv, mv.origin_rv(st["rv"], bb))
                            if r[0] == "agg" and r[1] == "tuple" and len(r[2]) == 2:
                                c0, d = r[2]
                                if strip_refs(c0) == ("param", 2) and d[0] == "call" and mv.callee(d[1]).path == "strsim::damerau_levenshtein":
                                    a0 = strip_refs(d[3][0])
                                    a1 = strip_refs(d[3][1])
                                    if a0[0] == "field" and a0[1] == ("param", 1) and a0[3] == "received" and a1 == ("param", 2):
                                        okm = True
            if not okm:
                fs.append(fnd("C18.SELECT", v, "the metric is not strsim::damerau_levenshtein(received, candidate)"))
            # filter closure: distance <= budget
            fv = closure_view(crate, closures["std::iter::Iterator::filter"][3])
            okf = False
            if fv is not None:
                for bb, c in fv.calls():
                    if fv.blocks[bb]["term"]["dest"]["l"] == 0 and c.fn is not None and c.name == "le" and c.trait and erase_generics(c.trait) == "std::cmp::PartialOrd":
                        t2 = fv.blocks[bb]["term"]
                        a0 = strip_refs(fv.origin(t2["args"][0]))
                        a1 = strip_refs(fv.origin(t2["args"][1]))
                        if a0[0] == "field" and a0[3] == "1" and strip_refs(a0[1]) == ("param", 2) and a1[0] == "field" and strip_refs(a1[1]) == ("param", 1):
                            okf = True
                # the captured budget is the table's variable
                up = closures["std::iter::Iterator::filter"][2]
                if not (len(up) == 1 and strip_refs(up[0])[0] == "multi" and strip_refs(up[0])[1] in budget_locals):
                    okf = False
            if not okf:
                fs.append(fnd("C18.SELECT", v, "candidates are not kept exactly when distance <= budget"))
            # comparator: d1.cmp(d2)
            cv = closure_view(crate, closures["std::iter::Iterator::min_by"][3])
            okc = False
            if cv is not None:
                for bb, c in cv.calls():
                    if cv.blocks[bb]["term"]["dest"]["l"] == 0 and c.fn is not None and c.name == "cmp" and c.trait and erase_generics(c.trait) == "std::cmp::Ord":
                        t2 = cv.blocks[bb]["term"]
                        a0 = strip_refs(cv.origin(t2["args"][0]))
                        a1 = strip_refs(cv.origin(t2["args"][1]))
                        if a0[0] == "field" and a0[3] == "1" and strip_refs(a0[1]) == ("param", 2) and a1[0] == "field" and a1[3] == "1" and strip_refs(a1[1]) == ("param", 3):
                            okc = True
            if not okc:
                fs.append(fnd("C18.SELECT", v, "min_by does not compare the two distances as d1.cmp(d2)"))
        # None => empty, Some((c, _)) => message naming c
        from sites import follow_local_use
        k, sbb, info, cur2 = follow_local_use(v, mins[0], v.blocks[mins[0]]["term"]["dest"]["l"])
        if k != "switch":
            fs.append(fnd("C18.SELECT", v, "the selection result is not matched on"))
        else:
            nt = v.variant_target(info, "None")
            st_ = v.variant_target(info, "Some")
            okn = any(v.callee(x) is not None and v.callee(x).fn is not None and v.callee(x).base() == "std::string::String::new" and v.blocks[x]["term"]["dest"]["l"] == 0
                      for x in (v.reachable(nt) - v.reachable(st_)))
            if not okn:
                fs.append(fnd("C18.SELECT", v, "no candidate within the budget does not give the empty suggestion"))
            oks = False
            for bb, c in v.calls():
                if bb in v.reachable(st_) and c.fn is not None and "fmt::rt::Argument" in c.path:
                    a = strip_refs(canon(v, v.origin(v.blocks[bb]["term"]["args"][0])))
                    want = ("field", ("field", ("call", mins[0]), "Some", "0"), None, "0")
                    if a[0] == "field" and a[3] == "0" and a[1][0] == "field" and a[1][2] == "Some" and a[1][1][0] == "call" and a[1][1][1] == mins[0]:
                        oks = True
            if not oks:
                fs.append(fnd("C18.SELECT", v, "the suggestion does not name the selected candidate"))
    res.add("C18.SELECT", ob, fs)
    res.samples = [{"budget_table": [(a, b2 if b2 < INF else "inf", val) for ((a, b2), val) in table]},
                   {"selection": "accepted.iter().map(|c| (c, damerau_levenshtein(received, c))).filter(d <= budget).min_by(d1.cmp(d2))"}]
    res.trusted_base = ["rustc nightly MIR construction", "mirfacts extractor", "rules/p_c18.py", "strsim::damerau_levenshtein (pinned in Cargo.lock)",
                        "std: Iterator::min_by returns the first of several minima; filter/map keep order"]
    res.assumptions = ["the edit distance itself is strsim's; `len` is str::len (bytes), as the statement says"]
    res.explanation = ("BUDGET: the range dispatch on received.len() is walked symbolically (interval splitting at each comparison with a constant) and must equal "
                       "{0-3: empty, 4-7: 1, 8-12: 2, 13-17: 3, 18-24: 4, 25+: 5}. SELECT: candidates are accepted.iter() in order, unfiltered before the metric; the metric is "
                       "damerau_levenshtein(received, candidate); kept iff distance <= budget; chosen by min_by(d1.cmp(d2)); None gives the empty string, Some names that candidate.")
    return res
