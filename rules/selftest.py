#!/usr/bin/env python3
"""Checker self-validation: applies each mutant of rules/mutants.py to a scratch copy of /repo
(under $TMPDIR, removed afterwards), runs the owning checks against it (VERIF_REPO) and requires
a VIOLATION; behaviour-preserving variants must stay silent.

usage: rules/selftest.py [--only ID[,ID..]] [--props C01,C02] [--validate] [--jobs N] [--keep]
  --validate  also require that the mutant compiles and the repository's own test suite passes
"""
import concurrent.futures
import hashlib
import json
import os
import shutil
import subprocess
import sys
import tempfile
import time

HERE = os.path.dirname(os.path.abspath(__file__))
VERIF = os.path.dirname(HERE)
sys.path.insert(0, HERE)
import mutants  # noqa: E402

CACHE = os.path.join(VERIF, ".cache")


def tag_of(repo):
    return hashlib.sha256(repo.encode()).hexdigest()[:8]


def seed_cache(repo):
    """copy the dependency artefacts of /repo's cache so the scratch copy does not rebuild the world"""
    src_tag = tag_of("/repo")
    dst_tag = tag_of(repo)
    src = os.path.join(CACHE, "target", src_tag)
    dst = os.path.join(CACHE, "target", dst_tag)
    if os.path.isdir(src) and not os.path.isdir(dst):
        os.makedirs(os.path.dirname(dst), exist_ok=True)
        subprocess.run(["cp", "-a", src, dst], check=False)


def drop_cache(repo):
    t = tag_of(repo)
    for sub in ("target", "facts", "work"):
        shutil.rmtree(os.path.join(CACHE, sub, t), ignore_errors=True)
    for fn in os.listdir(CACHE):
        if fn.endswith("-%s.lock" % t):
            try:
                os.remove(os.path.join(CACHE, fn))
            except OSError:
                pass


def apply_mutant(m, root):
    for (path, old, new) in m["edits"]:
        p = os.path.join(root, path)
        t = open(p).read()
        cnt = t.count(old)
        if cnt < 1:
            raise RuntimeError("mutant %s: anchor text not found in %s" % (m["id"], path))
        which = m.get("occurrence", 0)
        if which == "all":
            t = t.replace(old, new)
        else:
            idx = -1
            for _ in range(which + 1):
                idx = t.index(old, idx + 1)
            t = t[:idx] + new + t[idx + len(old):]
        open(p, "w").write(t)


def run_one(m, props_filter, validate, keep, tier):
    t0 = time.time()
    base = tempfile.mkdtemp(prefix="verif-mut-%s-" % m["id"])
    root = os.path.join(base, "repo")
    res = {"id": m["id"], "expect": m["props"], "kind": m.get("kind", "mutant"), "ok": False, "detail": ""}
    try:
        subprocess.run(["rsync", "-a", "--exclude", "target", "--exclude", ".git", "/repo/", root + "/"], check=True)
        apply_mutant(m, root)
        if validate:
            env = dict(os.environ, CARGO_NET_OFFLINE="true", CARGO_TARGET_DIR=os.path.join(base, "target"))
            r = subprocess.run(["cargo", "test", "--workspace", "--offline", "--no-fail-fast"], cwd=root, env=env,
                               stdout=subprocess.PIPE, stderr=subprocess.STDOUT, text=True)
            res["tests_pass"] = (r.returncode == 0)
            if r.returncode != 0:
                res["detail"] += "TEST SUITE FAILS OR DOES NOT COMPILE: " + r.stdout[-1500:]
        seed_cache(root)
        env = dict(os.environ, VERIF_REPO=root, VERIF_EVIDENCE_DIR=os.path.join(base, "evidence"))
        props = m["props"] if not props_filter else [p for p in m["props"] if p in props_filter]
        if os.environ.get("SELFTEST_ALL_PROPS") and m.get("kind") != "preserving":
            props = ["C%02d" % i for i in range(1, 21)]
        if m.get("kind") == "preserving":
            props = props_filter or ["C%02d" % i for i in range(1, 21)]
        outs = {}
        for p in props:
            r = subprocess.run([os.path.join(VERIF, "bin", "check"), p, "--tier", tier], env=env,
                               stdout=subprocess.PIPE, stderr=subprocess.STDOUT, text=True)
            outs[p] = (r.returncode, r.stdout)
        res["results"] = {p: rc for p, (rc, _) in outs.items()}
        if m.get("kind") == "preserving":
            bad = [p for p, (rc, o) in outs.items() if rc != 0]
            if m.get("decided"):
                # the pinned tree itself: every rule must recognise its construct (nothing UNDECIDED), else the evidence is hollow
                bad += [p for p, (rc, o) in outs.items() if "UNDECIDED property=" in o and p not in bad]
            res["ok"] = not bad
            for p in bad:
                res["detail"] += "\n[%s] false alarm:\n%s" % (p, outs[p][1][-1500:])
        else:
            missed = []
            res["cross"] = sorted(p for p, (rc, o) in outs.items() if rc != 0 and p not in m["props"])
            for p, (rc, o) in outs.items():
                if p not in m["props"]:
                    continue
                hit = rc == 1 and "VIOLATION property=%s" % p in o
                if hit and m.get("expect_text"):
                    hit = m["expect_text"] in o
                if not hit:
                    missed.append(p)
                    res["detail"] += "\n[%s] rc=%d not detected:\n%s" % (p, rc, o[-1200:])
            res["ok"] = not missed
            res["keys"] = {p: [l.strip() for l in o.splitlines() if " | " in l][:4] for p, (rc, o) in outs.items()}
    except Exception as e:  # noqa
        res["detail"] += "harness error: %r" % e
    finally:
        if not keep:
            drop_cache(root)
            shutil.rmtree(base, ignore_errors=True)
    res["wall_s"] = round(time.time() - t0, 1)
    return res


def main():
    args = sys.argv[1:]
    only = None
    props_filter = None
    validate = "--validate" in args
    keep = "--keep" in args
    jobs = 6
    tier = "quick"
    for i, a in enumerate(args):
        if a == "--only":
            only = set(args[i + 1].split(","))
        if a == "--props":
            props_filter = args[i + 1].split(",")
        if a == "--jobs":
            jobs = int(args[i + 1])
        if a == "--tier":
            tier = args[i + 1]
    ms = [m for m in mutants.MUTANTS if (only is None or m["id"] in only) and not (m.get("skip") and only is None)]
    if props_filter and only is None:
        ms = [m for m in ms if (m.get("kind") == "preserving" and "--with-preserving" in args) or set(m["props"]) & set(props_filter)]
    results = []
    with concurrent.futures.ThreadPoolExecutor(max_workers=jobs) as ex:
        futs = [ex.submit(run_one, m, props_filter, validate, keep, tier) for m in ms]
        for f in concurrent.futures.as_completed(futs):
            r = f.result()
            results.append(r)
            print("%-8s %-34s %-10s %5.1fs %s" % ("ok" if r["ok"] else "MISSED" if r["kind"] != "preserving" else "FALSE-ALARM",
                                                   r["id"], ",".join(r["expect"]), r["wall_s"],
                                                   ("cross=" + ",".join(r.get("cross", [])) if r.get("cross") else "") if r["ok"] and r.get("tests_pass", True) else r["detail"][:3000]))
            sys.stdout.flush()
    ok = sum(1 for r in results if r["ok"])
    print("selftest: %d/%d as expected" % (ok, len(results)))
    json.dump(sorted(results, key=lambda r: r["id"]), open(os.path.join(VERIF, "mutants", "last_selftest.json"), "w"), indent=1)
    sys.exit(0 if ok == len(results) else 1)


if __name__ == "__main__":
    main()
