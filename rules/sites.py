"""Recognition of the repository's error-reporting vocabulary in one body:
report sites (DeserializeError::error / MergeWithError::merge calls) and how their answer is
handled, child deserialisation calls, payload iterator steps, accumulators."""
from analysis import View, norm_path, erase_generics, strip_refs, term_mentions


EXTERNAL_ROOTS = {"std", "core", "alloc", "serde_json", "serde", "actix_web", "axum", "axum_core", "actix_http", "actix_utils", "http", "syn", "quote",
                  "proc_macro2", "proc_macro", "convert_case", "strsim", "serde_cs", "deserr_internal", "deserr_catalogue", "deserr_controls",
                  "futures", "futures_core", "futures_util", "tokio", "bytes", "mime", "hyper", "serde_urlencoded", "tower", "tower_service"}


def npath(p):
    """item path with the library's own module prefix removed (`value::ValuePointerRef::..`, and just as well
    `value::pointer::ValuePointerRef::..` after a module move -> `ValuePointerRef::..`): a chain of lower-case
    module segments in front of a type / trait name is dropped unless it starts in another crate"""
    if p is None:
        return None
    p = norm_path(p)
    if p.startswith("<"):
        return p
    segs = p.split("::")
    # the library's free functions that are part of its vocabulary, wherever they are defined (re-exported from a module)
    if segs[-1] in ("take_cf_content",) and segs[0] not in EXTERNAL_ROOTS and all(s and (s[0].islower() or s[0] == "_") for s in segs):
        return segs[-1]
    if segs and segs[0] not in EXTERNAL_ROOTS:
        i = 0
        while i < len(segs) - 1 and segs[i] and (segs[i][0].islower() or segs[i][0] == "_") and segs[i].replace("_", "").isalnum():
            i += 1
        if i < len(segs) and segs[i] and segs[i][0].isupper():
            return "::".join(segs[i:])
    if p.startswith("value::"):
        p = p[len("value::"):]
    return p


def ty_is_payload_iter(crate, ti, kinds=("Sequence::Iter", "Map::Iter"), depth=0):
    """type is (an adaptor over) the value source's sequence / map iterator; returns the kind or None"""
    t = crate.types[ti]
    if t["k"] == "alias" and npath(t["path"]) in kinds:
        return npath(t["path"])
    if t["k"] == "adt" and depth < 4 and t["path"].startswith("std::iter::"):
        for a in t["args"]:
            if isinstance(a, int):
                r = ty_is_payload_iter(crate, a, kinds, depth + 1)
                if r:
                    return r
    if t["k"] == "ref":
        return ty_is_payload_iter(crate, t["t"], kinds, depth)
    return None


class Site:
    """a call to DeserializeError::error or MergeWithError::merge"""

    def __init__(self):
        self.bb = None
        self.kind = None          # 'error' | 'merge'
        self.self_ty = None       # type index of the error type asked
        self.self_term = None     # origin of self_
        self.self_none = False    # self_ is the literal None
        self.acc = None           # local passed as self_ (after following moves), or None
        self.payload = None       # origin term of ErrorKind aggregate / other
        self.ek = None            # ErrorKind variant name (error sites)
        self.loc = None           # origin term of the location
        self.handling = None      # 'switched' | 'collapsed' | 'returned' | 'unknown'
        self.sw_bb = None         # block of the switch on the answer
        self.cont = None          # Continue target block
        self.brk = None           # Break target block
        self.collapse_bb = None   # block of take_cf_content call
        self.at = None
        self.dest = None


def follow_local_use(view, start_bb, local, max_steps=40):
    """Starting after the terminator of start_bb, follow straight-line code to find the consumer
    of `local` (through `x = move local` copies). Returns (kind, bb, info, current_local)"""
    b = view.b
    cur = local
    bb = view.blocks[start_bb]["term"].get("target")
    steps = 0
    while bb is not None and steps < max_steps:
        steps += 1
        blk = view.blocks[bb]
        for st in blk["stmts"]:
            if st["k"] != "assign":
                continue
            rv = st["rv"]
            if rv["k"] == "use" and rv["op"]["k"] in ("move", "copy") and rv["op"]["place"]["l"] == cur:
                if rv["op"]["place"]["p"]:
                    return ("projected", bb, st, cur)
                if st["place"]["p"]:
                    return ("stored", bb, st, cur)
                cur = st["place"]["l"]
                continue
            if rv["k"] == "discr" and rv["place"]["l"] == cur and not rv["place"]["p"]:
                t = blk["term"]
                if t["k"] == "switch":
                    return ("switch", bb, view.switch_info(bb), cur)
            if rv["k"] == "agg":
                for o in rv["ops"]:
                    if o["k"] in ("move", "copy") and o["place"]["l"] == cur:
                        return ("agg", bb, st, cur)
        t = blk["term"]
        if t["k"] == "call":
            for i, a in enumerate(t["args"]):
                if a["k"] in ("move", "copy") and a["place"]["l"] == cur and not a["place"]["p"]:
                    return ("call", bb, i, cur)
        if t["k"] == "return":
            return ("return", bb, None, cur)
        if t["k"] == "switch":
            return ("branch", bb, None, cur)
        succ = view.succ[bb]
        if len(succ) != 1:
            return ("end", bb, None, cur)
        bb = succ[0]
    return ("end", bb, None, cur)


class BodySites:
    def __init__(self, view):
        self.v = view
        self.b = view.b
        self.sites = []
        self.children = []       # dict(bb, value, loc, delegating, ty, err_ty)
        self.nexts = []          # dict(bb, kind, self_ty)
        self.user_calls = []     # calls into non-std, non-deserr crates (user functions)
        self._scan()

    def _scan(self):
        v = self.v
        b = self.b
        for bb, c in v.calls():
            t = v.blocks[bb]["term"]
            tr = c.deserr_trait()
            if tr == "DeserializeError" and c.name == "error" or tr == "MergeWithError" and c.name == "merge":
                s = Site()
                s.bb = bb
                s.kind = c.name
                s.self_ty = c.self_ty
                s.at = t.get("at")
                s.dest = t["dest"]["l"]
                args = t["args"]
                if len(args) == 3:
                    s.self_term = v.origin(args[0])
                    st = s.self_term
                    s.self_none = (st[0] == "agg" and st[1] == "adt" and st[3] == "std::option::Option" and st[4] == "None")
                    if st[0] in ("multi", "param"):
                        s.acc = st[1]
                    s.payload = v.origin(args[1])
                    if s.kind == "error" and s.payload[0] == "agg" and s.payload[1] == "adt":
                        s.ek = s.payload[4]
                    s.loc = v.origin(args[2])
                self._handling(s)
                self.sites.append(s)
            elif tr == "Deserr" and c.name == "deserialize_from_value":
                args = t["args"]
                ch = {"bb": bb, "value": v.origin(args[0]) if args else None,
                      "loc": v.origin(args[1]) if len(args) > 1 else None,
                      "self_ty": c.self_ty, "gargs": c.gargs, "dest": t["dest"]["l"], "at": t.get("at"),
                      "full": c.full}
                val = ch["value"]
                ch["delegating"] = (val is not None and val[0] == "param" and val[1] == 1)
                self.children.append(ch)
            elif c.fn is not None and c.name == "next" and c.trait and erase_generics(c.trait) == "std::iter::Iterator":
                kind = ty_is_payload_iter(b.crate, c.self_ty) if c.self_ty is not None else None
                if kind:
                    self.nexts.append({"bb": bb, "kind": kind, "self_ty": c.self_ty, "dest": t["dest"]["l"]})
            elif c.fn is not None and c.krate not in ("std", "core", "alloc", "deserr") and c.krate is not None:
                self.user_calls.append({"bb": bb, "path": c.path, "krate": c.krate, "dest": t["dest"]["l"]})

    def _handling(self, s):
        v = self.v
        kind, bb, info, cur = follow_local_use(v, s.bb, s.dest)
        if kind == "switch":
            s.handling = "switched"
            s.sw_bb = bb
            s.cont = v.variant_target(info, "Continue")
            s.brk = v.variant_target(info, "Break")
        elif kind == "call":
            c = v.callee(bb)
            if c.fn is not None and npath(c.path) == "take_cf_content":
                s.handling = "collapsed"
                s.collapse_bb = bb
            else:
                s.handling = "passed:%s" % (c.base() if c.fn else "indirect")
        elif kind == "return":
            s.handling = "returned"
        else:
            s.handling = "unknown:%s" % kind

    def accumulators(self):
        """locals (Option<X>) used as self_ at some site"""
        accs = {}
        for s in self.sites:
            if s.acc is not None:
                accs.setdefault(s.acc, []).append(s)
        return accs
