"""Derive skeleton: recovers, from the type-checked MIR of a derived `deserialize_from_value`,
what the generated code does, in terms that can be compared with the documented semantics
(catalogue spec): string dispatches and their arms, per-field state locals, initial values,
missing-field phase, fallback arm, final aggregate, tag handling, user function call sites.
Defined by data / control dependence, not by statement order."""
from analysis import View, strip_refs, erase_generics, term_mentions
from sites import BodySites, npath
from loc import canon, item_of, next_kind, fmt, call_name


class Dispatch:
    def __init__(self, subject):
        self.subject = subject     # canonical term of the string being matched
        self.tests = []            # (eq_bb, const, arm_entry_bb, false_bb) in chain order
        self.fallback = None       # block reached when every test is false
        self.entry = None          # first eq block


def string_dispatches(view):
    """all `<str as PartialEq>::eq(subject, const)` chains, keyed by subject"""
    groups = {}
    for bb, c in view.calls():
        if c.fn is None or c.name != "eq":
            continue
        if not (c.full.startswith("<str as std::cmp::PartialEq") and "::eq" in c.full):
            continue
        t = view.blocks[bb]["term"]
        a0 = strip_refs(canon(view, view.origin(t["args"][0])))
        a1 = strip_refs(canon(view, view.origin(t["args"][1])))
        if a1[0] != "const" or a1[1] != "str":
            if a0[0] == "const" and a0[1] == "str":
                a0, a1 = a1, a0
            else:
                continue
        # the bool result is switched on in the target block
        tgt = t["target"]
        info = view.switch_info(tgt) if tgt is not None else None
        if not info or info["kind"] != "bool":
            continue
        true_t = view.edge_target(info, True)
        false_t = view.edge_target(info, False)
        groups.setdefault(a0, []).append((bb, a1[2], true_t, false_t, tgt))
    res = []
    for subj, tests in groups.items():
        d = Dispatch(subj)
        by_bb = {t[0]: t for t in tests}
        false_targets = set(t[3] for t in tests)
        firsts = [t for t in tests if t[0] not in false_targets]
        # several chains may share a subject (one per enum variant never happens: different loops have different subjects)
        if len(firsts) != 1:
            d.tests = [(t[0], t[1], t[2], t[3]) for t in tests]
            d.broken = True
            res.append(d)
            continue
        cur = firsts[0]
        seen = set()
        while cur is not None and cur[0] not in seen:
            seen.add(cur[0])
            d.tests.append((cur[0], cur[1], cur[2], cur[3]))
            nxt = by_bb.get(cur[3])
            if nxt is None:
                d.fallback = cur[3]
            cur = nxt
        d.entry = firsts[0][0]
        d.broken = len(seen) != len(tests)
        res.append(d)
    return res


class NamedFields:
    def __init__(self):
        self.entry = None           # block that dominates this struct's / variant's code
        self.acc = None             # accumulator local
        self.F = {}                 # field ident -> local
        self.init = {}              # field ident -> canonical term of the initial FieldState aggregate
        self.dispatch = None
        self.arms = []              # dict(key, entry, region, child, assigned, sites, user_calls)
        self.fallback_region = set()
        self.fallback_sites = []
        self.fallback_effects = []
        self.missing = []           # dict(field, bb, region, sites, user_calls)
        self.build = None           # dict(bb, fields {name: (F name, map fn path)}, variant)
        self.loop_header = None
        self.next_bb = None
        self.errors = []
        self.final_test = None


class Skel:
    def __init__(self, view):
        self.view = view
        self.kind = None
        self.errors = []
        self.kind_site = None
        self.named = None            # struct
        self.tag = None              # tagged enum: dict(const, remove_bb, missing_site, kind_site, dispatch, unknown_site)
        self.variants = {}           # key const -> ('unit', variant name, bb) | ('named', NamedFields)
        self.unit = None             # unit enum: dict(dispatch, unknown_site, arms {const: variant})
        self.user = None             # container from / try_from
        self.validate = None         # dict(bb, fn, args)
        self.closures = {}


def dominated(view, a):
    return set(x for x in view.reach if view.dominates(a, x))


def fieldstate_locals(view):
    res = {}
    for i, l in enumerate(view.b.locals):
        t = view.b.crate.types[l["ty"]]
        if t["k"] == "adt" and npath(t["path"]) == "FieldState" and l["name"] and l["user"]:
            res.setdefault(l["name"], []).append(i)
    return res


def _self_adt_path(b):
    t = b.crate.types[b.impl_self]
    return t.get("path")


def extract(view, bs, closures):
    """closures: {path: (View, BodySites)} of the closure bodies of this impl"""
    sk = Skel(view)
    sk.closures = closures
    b = view.b
    self_path = _self_adt_path(b)
    # ---- container from / try_from: the only child receives the whole input
    deleg = [ch for ch in bs.children if ch["delegating"]]
    info0 = view.switch_info(0)
    if deleg and not (info0 and info0["kind"] == "discr" and info0["place"] and info0["place"]["l"] == 1):
        sk.kind = "user"
        sk.user = {"child": deleg[0]}
        _validate(sk, bs)
        return sk
    if not (info0 and info0["kind"] == "discr" and info0["place"] and info0["place"]["l"] == 1 and not info0["place"]["p"]):
        sk.errors.append("the body does not start by dispatching on the kind of its input")
        return sk
    map_t = view.variant_target(info0, "Map")
    str_t = view.variant_target(info0, "String")
    labels = [lb for lb, t in info0["edges"] if lb is not None]
    other_t = None
    for lb, t in info0["edges"]:
        if lb is None and t not in view.unreach:
            other_t = t
    # kind report on the fall-through edge
    for s in bs.sites:
        if s.ek == "IncorrectValueKind" and other_t is not None and s.bb in dominated(view, other_t):
            sk.kind_site = s
    fs_locals = fieldstate_locals(view)
    # a field state local is one that is (re)assigned inside a loop; shadowing `let x = x.map(..)` after the loop is not
    loop_blocks = set()
    for h, bd in view.loops():
        loop_blocks |= bd
    chosen = {}
    for name, ls in fs_locals.items():
        keep = []
        for l in ls:
            ds = [d for d in view.whole_defs(l) if d[0] in ("stmt", "call")]
            in_loop = any(d[1] in loop_blocks for d in ds)
            before_loop = any(any(view.dominates(d[1], h) for h, bd in view.loops()) for d in ds)
            if in_loop or before_loop or not view.loops():
                keep.append(l)
        chosen[name] = keep or ls
    fs_locals = chosen
    view.set_opaque([l for ls in fs_locals.values() for l in ls])
    disps = string_dispatches(view)
    if labels == ["String"]:
        sk.kind = "unit_enum"
        ds = [d for d in disps if strip_refs(d.subject)[0] == "field" and strip_refs(d.subject)[1] == ("param", 1) and strip_refs(d.subject)[2] == "String"]
        if len(ds) != 1:
            sk.errors.append("cannot find the string match of the unit enum")
            _validate(sk, bs)
            return sk
        d = ds[0]
        arms = {}
        order = []
        for (ebb, const, arm, fbb) in d.tests:
            agg = _variant_agg_in(view, dominated(view, arm), self_path)
            arms[const] = agg
            order.append(const)
        unk = None
        if d.fallback is not None:
            for s in bs.sites:
                if s.bb in dominated(view, d.fallback):
                    unk = s
            fb_aggs = _variant_agg_in(view, dominated(view, d.fallback), self_path)
        else:
            fb_aggs = None
        sk.unit = {"dispatch": d, "arms": arms, "order": order, "unknown_site": unk, "fallback_builds": fb_aggs}
        _validate(sk, bs)
        return sk
    if labels != ["Map"]:
        sk.errors.append("unexpected kind dispatch %s" % labels)
        return sk
    # struct or tagged enum: is there a Map::remove?
    removes = [(bb, c) for bb, c in view.calls() if c.deserr_trait() == "Map" and c.name == "remove"]
    if removes:
        sk.kind = "tagged_enum"
        _tagged(sk, bs, removes, disps, fs_locals, self_path)
    else:
        sk.kind = "struct"
        nf = _named_fields(view, bs, map_t, disps, fs_locals, self_path, None)
        sk.named = nf
    _validate(sk, bs)
    return sk


def _variant_agg_in(view, region, self_path):
    """aggregates of Self built in region: list of variant names"""
    res = []
    for bb in sorted(region):
        for st in view.blocks[bb]["stmts"]:
            if st["k"] == "assign" and st["rv"]["k"] == "agg" and st["rv"].get("ak") == "adt" and st["rv"].get("path") == self_path:
                res.append(st["rv"]["variant"])
    return res


def _validate(sk, bs):
    """the user validate function: a call (in the root) to a non-deserr, non-std function whose first argument is the
    finished value (payload of the container's own `?`)"""
    view = sk.view
    for u in bs.user_calls:
        t = view.blocks[u["bb"]]["term"]
        if len(t["args"]) == 2:
            a1 = canon(view, view.origin(t["args"][1]))
            a0op = t["args"][0]
            is_self = a0op["k"] in ("move", "copy") and a0op["place"]["ty"] == view.b.impl_self
            if a1 == ("param", 2) and is_self:
                a0 = canon(view, view.origin(t["args"][0]))
                sk.validate = {"bb": u["bb"], "path": u["path"], "arg0": a0, "dest": u["dest"]}


def _tagged(sk, bs, removes, disps, fs_locals, self_path):
    view = sk.view
    if len(removes) != 1:
        sk.errors.append("expected exactly one Map::remove (the tag)")
        return
    rbb, rc = removes[0]
    t = view.blocks[rbb]["term"]
    tag = strip_refs(canon(view, view.origin(t["args"][1])))
    if tag[0] != "const":
        sk.errors.append("the tag key is not a constant")
        return
    sk.tag = {"const": tag[2], "remove_bb": rbb}
    # tag dispatch: subject derives from into_value(.. remove ..) String payload
    def from_remove(x):
        return x[0] == "call" and x[1] == rbb
    tds = [d for d in disps if term_mentions(d.subject, from_remove)]
    if len(tds) != 1:
        sk.errors.append("cannot find the match on the tag string")
        return
    d = tds[0]
    sk.tag["dispatch"] = d
    sk.tag["subject"] = d.subject
    # map iteration must come after the remove
    for (ebb, const, arm, fbb) in d.tests:
        region = dominated(view, arm)
        nexts = [n for n in bs.nexts if n["bb"] in region]
        if nexts:
            nf = _named_fields(view, bs, arm, disps, fs_locals, self_path, region)
            sk.variants[const] = ("named", nf)
        else:
            aggs = _variant_agg_in(view, region, self_path)
            sk.variants[const] = ("unit", aggs, arm)
    sk.tag["order"] = [c for (_, c, _, _) in d.tests]
    # sites: kind error about the tag value, unknown tag
    sk.tag["kind_site"] = None
    sk.tag["unknown_site"] = None
    for s in bs.sites:
        if s.ek == "IncorrectValueKind" and s is not sk.kind_site and term_mentions(s.payload, from_remove):
            sk.tag["kind_site"] = s
        if d.fallback is not None and s.bb in dominated(view, d.fallback):
            sk.tag["unknown_site"] = s
    sk.tag["fallback_builds"] = _variant_agg_in(view, dominated(view, d.fallback), self_path) if d.fallback is not None else None
    # missing tag: the ok_or_else closure, or a report on the None edge of a match on the removed entry
    sk.tag["missing_site"] = None
    sk.tag["missing_form"] = None
    for path, (cv, cbs) in sk.closures.items():
        for s in cbs.sites:
            if s.ek == "MissingField":
                sk.tag["missing_site"] = (cv, s)
                sk.tag["missing_form"] = "closure"
    if sk.tag["missing_site"] is None:
        from sites import follow_local_use
        k, sbb, info, cur = follow_local_use(view, rbb, view.blocks[rbb]["term"]["dest"]["l"])
        if k == "switch":
            nt = view.variant_target(info, "None")
            st_ = view.variant_target(info, "Some")
            if nt is not None and st_ is not None and nt != st_:
                none_only = view.reachable(nt) - view.reachable(st_)
                for s in bs.sites:
                    if s.ek == "MissingField" and s.bb in none_only and view.dominates(nt, s.bb):
                        sk.tag["missing_site"] = (view, s)
                        sk.tag["missing_form"] = "match"


def _named_fields(view, bs, entry, disps, fs_locals, self_path, region):
    nf = NamedFields()
    nf.entry = entry
    reg = region if region is not None else dominated(view, entry)
    # loop over the map
    nexts = [n for n in bs.nexts if n["bb"] in reg and n["kind"] == "Map::Iter"]
    if len(nexts) != 1:
        nf.errors.append("expected exactly one loop over the map entries, found %d" % len(nexts))
        return nf
    nf.next_bb = nexts[0]["bb"]
    for h, body in view.loops():
        if nf.next_bb in body:
            nf.loop_header = h
            nf.loop_body = body
    if nf.loop_header is None:
        nf.errors.append("the map iteration is not a loop")
        return nf
    key_term = ("field", ("field", ("next", nf.next_bb), "Some", "0"), None, "0")
    ds = [d for d in disps if strip_refs(d.subject) == key_term]
    # field state locals of this region
    for name, ls in fs_locals.items():
        for l in ls:
            wd = view.whole_defs(l)
            if wd and all((d[1] in reg) for d in wd if d[0] in ("stmt", "call")):
                nf.F[name] = l
    for name, l in nf.F.items():
        inits = [d for d in view.whole_defs(l) if d[0] == "stmt" and d[1] not in nf.loop_body and view.dominates(d[1], nf.loop_header)]
        if len(inits) == 1:
            nf.init[name] = canon(view, view.origin_rv(inits[0][3]["rv"], inits[0][1]))
        else:
            nf.errors.append("field state `%s` has no unique initial value" % name)
    if not ds:
        # a struct whose fields are all skipped has no arms: the loop body is only the fallback
        nf.dispatch = None
    elif len(ds) > 1:
        nf.errors.append("several matches on the entry key")
        return nf
    else:
        nf.dispatch = ds[0]
        if getattr(ds[0], "broken", False):
            nf.errors.append("the key match is not a simple chain of comparisons")
        for (ebb, const, arm, fbb) in ds[0].tests:
            areg = dominated(view, arm) & nf.loop_body
            a = {"key": const, "entry": arm, "region": areg,
                 "children": [ch for ch in bs.children if ch["bb"] in areg],
                 "sites": [s for s in bs.sites if s.bb in areg or s.bb in dominated(view, arm)],
                 "user_calls": [u for u in bs.user_calls if u["bb"] in areg],
                 "assigned": {}, "closure_calls": []}
            for name, l in nf.F.items():
                for d in view.whole_defs(l):
                    if d[0] == "stmt" and d[1] in areg:
                        a["assigned"].setdefault(name, []).append(d)
            for bb, c in view.calls():
                if bb in areg and c.fn is not None and c.trait and erase_generics(c.trait) in ("std::ops::Fn", "std::ops::FnMut", "std::ops::FnOnce"):
                    a["closure_calls"].append(bb)
            nf.arms.append(a)
    # fallback: blocks of the loop body reached when all comparisons fail, up to the loop latch
    if nf.dispatch is not None:
        fb = nf.dispatch.fallback
    else:
        fb = None
    nf.fallback_entry = fb
    if fb is not None:
        # region = blocks reachable from fb inside the loop body that are not reachable from any arm entry
        from_fb = set()
        st = [fb]
        while st:
            x = st.pop()
            if x in from_fb or x not in nf.loop_body or x == nf.loop_header:
                continue
            from_fb.add(x)
            st.extend(view.succ[x])
        arm_reach = set()
        for a in nf.arms:
            arm_reach |= a["region"]
        nf.fallback_region = set(x for x in (dominated(view, fb) if fb is not None else set()))
        nf.fallback_sites = [s for s in bs.sites if s.bb in nf.fallback_region]
        nf.fallback_user = [u for u in bs.user_calls if u["bb"] in nf.fallback_region]
    else:
        nf.fallback_user = []
    # missing phase
    for bb, c in view.calls():
        if bb in reg and c.fn is not None and npath(erase_generics(c.path)) == "FieldState::is_missing":
            t = view.blocks[bb]["term"]
            a = strip_refs(view.origin(t["args"][0]))
            fname = None
            for name, l in nf.F.items():
                if a == ("multi", l) or a == ("undef", l):  # F locals are opaque
                    fname = name
            info = view.switch_info(t["target"]) if t["target"] is not None else None
            true_t = view.edge_target(info, True) if info and info["kind"] == "bool" else None
            mreg = dominated(view, true_t) if true_t is not None else set()
            nf.missing.append({"field": fname, "bb": bb, "region": mreg, "true_t": true_t,
                               "sites": [s for s in bs.sites if s.bb in mreg],
                               "user_calls": [u for u in bs.user_calls if u["bb"] in mreg],
                               "in_loop": bb in nf.loop_body})
    # ... the same test written on the variant itself: `if let FieldState::Missing = field { .. }` / `match field { Missing => .. }`
    # (outside the member loop, on a field-state local)
    for bb in sorted(reg):
        if bb in nf.loop_body:
            continue
        info = view.switch_info(bb)
        if not info or info["kind"] != "discr" or info["place"] is None or info["place"]["p"]:
            continue
        fname = None
        for name, l in nf.F.items():
            if info["place"]["l"] == l:
                fname = name
        if fname is None:
            continue
        true_t = view.variant_target(info, "Missing")
        others = [tg for lb, tg in info["edges"] if tg != true_t and tg not in view.unreach]
        if true_t is None or not others or any(m["field"] == fname and not m["in_loop"] for m in nf.missing):
            continue
        mreg = dominated(view, true_t)
        nf.missing.append({"field": fname, "bb": bb, "region": mreg, "true_t": true_t,
                           "sites": [s for s in bs.sites if s.bb in mreg],
                           "user_calls": [u for u in bs.user_calls if u["bb"] in mreg],
                           "in_loop": False})
    # accumulator + final test + build
    accs = bs.accumulators()
    cand = [a for a in accs if any(s.bb in reg for s in accs[a])]
    # the accumulator also exists when no site uses it (struct of only defaulted fields): find Option<E> user local named deserr_error__
    if not cand:
        for i, l in enumerate(view.b.locals):
            if l["name"] == "deserr_error__" and view.whole_defs(i) and all(d[1] in reg for d in view.whole_defs(i) if d[0] == "stmt"):
                cand.append(i)
    if len(set(cand)) >= 1:
        nf.acc = sorted(set(cand))[0]
    for bb in sorted(reg):
        for st in view.blocks[bb]["stmts"]:
            if st["k"] == "assign" and st["rv"]["k"] == "agg" and st["rv"].get("ak") == "adt" and st["rv"].get("path") == self_path:
                rv = st["rv"]
                fields = {}
                for fname, op in zip(rv["fields"], rv["ops"]):
                    term = canon(view, view.origin(op))
                    fields[fname] = _unwrap_map(view, term, nf)
                nf.build = {"bb": bb, "variant": rv["variant"], "fields": fields}
    if nf.acc is not None:
        for bb in sorted(reg):
            info = view.switch_info(bb)
            if info and info["kind"] == "discr" and info["place"] and info["place"]["l"] == nf.acc and not info["place"]["p"]:
                nf.final_test = {"bb": bb, "none": view.variant_target(info, "None"), "some": view.variant_target(info, "Some")}
    return nf


def _unwrap_map(view, term, nf):
    """term of a built field: FieldState::unwrap(FieldState::map(F, f)) -> (F name, map fn path) or ('?', text)"""
    t = term
    if t[0] == "call" and call_name(view, t) == "FieldState::unwrap" and t[3]:
        inner = t[3][0]
        if inner[0] == "call" and call_name(view, inner) == "FieldState::map" and len(inner[3]) == 2:
            src, f = inner[3]
            fname = None
            for name, l in nf.F.items():
                if src == ("multi", l):
                    fname = name
            fpath = f[1] if f[0] == "fnconst" else None
            return (fname, fpath, inner[1])
        src = inner
        for name, l in nf.F.items():
            if src == ("multi", l):
                return (name, "<no map>")
    return (None, fmt(t))
