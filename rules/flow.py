"""Control-flow rules shared by C02 (keep going), C03 (stop means stop) and C15.

Vocabulary: a *switched* report site has a Continue edge and a Break edge; a *collapsed*
site hands its answer to take_cf_content and must return.  G' is the CFG without Break
edges (what a keep-going error type can execute)."""
from analysis import View, erase_generics, term_mentions, strip_refs
from sites import BodySites, npath
from lin import Finding

# calls that may appear on a path that only carries an already built error to the caller
BREAK_PATH_OK = {
    "take_cf_content",
    "ValuePointerRef::push_key", "ValuePointerRef::push_index",
    "ValuePointerRef::<'a>::push_key", "ValuePointerRef::<'a>::push_index",
    "std::ops::Deref::deref", "std::string::String::as_str", "std::convert::From::from",
    "std::ops::FromResidual::from_residual", "std::convert::Into::into",
    "std::convert::AsRef::as_ref", "std::borrow::Borrow::borrow",
}


def callee_key(c):
    if c.fn is None:
        return None
    if c.trait is not None:
        return erase_generics(c.trait) + "::" + (c.name or "")
    return erase_generics(npath(c.path))


def is_break_ok(c):
    k = callee_key(c)
    if k is None:
        return False
    k2 = npath(k)
    return k in BREAK_PATH_OK or k2 in BREAK_PATH_OK or erase_generics(k2) in ("ValuePointerRef::push_key", "ValuePointerRef::push_index")


def finding(rule, view, what, bb, detail=""):
    at = view.blocks[bb]["term"].get("at", "") if bb is not None else ""
    return Finding(rule, view.b.path, what, at, detail)


def site_desc(view, s):
    return "%s site (%s)" % (s.kind, s.ek if s.ek else "hand-over")


def break_payload_pred(view, s):
    """predicate on terms: mentions the Break payload of site s"""
    def pred(t):
        # (on the Break edge the answer as a whole - `stopped => take_cf_content(stopped)` - is the stopped error as well)
        return (t[0] == "field" and t[2] == "Break" and isinstance(t[1], tuple) and t[1][0] == "call" and t[1][1] == s.bb) or \
            (t[0] == "call" and t[1] == s.bb)
    return pred


def answer_pred(view, s):
    def pred(t):
        return t[0] == "call" and t[1] == s.bb
    return pred


def check_stop_region(view, bs, start, s, rule, what_prefix, seed_locals, seed_pred, known0=None):
    """From `start`, every feasible path must reach Return carrying the stopped error on, without
    examining anything: no loop, no child call, no iterator step, no new report, no user function.
    The walk is path-sensitive in two cheap ways: it tracks which enum variant a local is known to
    hold (so that `Err(e)?` only follows the Break edge of `Try::branch`) and which locals carry
    the stopped error (taint), seeded by `seed_locals` / by terms satisfying `seed_pred`."""
    out = []
    loop_headers = set(h for h, _ in view.loops())
    seen_states = set()
    visited = set()
    work = [(start, frozenset((known0 or {}).items()), frozenset(seed_locals))]
    steps = 0
    reached_return = False

    def tainted_op(op, taint):
        if op["k"] not in ("move", "copy"):
            return False
        if op["place"]["l"] in taint:
            return True
        return term_mentions(view.origin(op), seed_pred)

    while work:
        bb, known, taint = work.pop()
        key = (bb, known, taint)
        if key in seen_states:
            continue
        seen_states.add(key)
        steps += 1
        if steps > 4000:
            out.append(finding(rule, view, "%s: path exploration too large" % what_prefix, bb))
            break
        if bb in view.unreach:
            continue
        visited.add(bb)
        if bb == s.bb:
            out.append(finding(rule, view, "%s: control can come back to the report site" % what_prefix, s.bb))
            continue
        if bb in loop_headers:
            out.append(finding(rule, view, "%s: path enters a loop" % what_prefix, bb))
            continue
        kn = dict(known)
        tn = set(taint)
        blk = view.blocks[bb]
        for st in blk["stmts"]:
            if st["k"] != "assign":
                continue
            dst = st["place"]
            rv = st["rv"]
            is_t = False
            var = None
            if rv["k"] == "use":
                is_t = tainted_op(rv["op"], tn)
                if rv["op"]["k"] in ("move", "copy") and not rv["op"]["place"]["p"]:
                    var = kn.get(rv["op"]["place"]["l"])
                elif rv["op"]["k"] == "const" and "bool" in rv["op"]:
                    var = "#T" if rv["op"]["bool"] else "#F"        # a flag (`let stop = true`)
                elif rv["op"]["k"] in ("move", "copy") and len(rv["op"]["place"]["p"]) == 1 and rv["op"]["place"]["p"][0]["k"] == "field":
                    tv = kn.get(rv["op"]["place"]["l"])
                    fi = rv["op"]["place"]["p"][0].get("i")
                    if isinstance(tv, tuple) and tv and tv[0] == "#tuple" and fi is not None and fi < len(tv[1]):
                        var = tv[1][fi]                              # `let (e, stop) = ..`
            elif rv["k"] == "agg":
                is_t = any(tainted_op(o, tn) for o in rv["ops"])
                if rv.get("ak") == "adt":
                    var = rv.get("variant")
                elif rv.get("ak") == "tuple":
                    var = ("#tuple", tuple(("#T" if o["bool"] else "#F") if (o["k"] == "const" and "bool" in o) else None for o in rv["ops"]))
            elif rv["k"] == "unop" and rv.get("op") == "Not" and rv["a"]["k"] in ("move", "copy") and not rv["a"]["place"]["p"]:
                x_ = kn.get(rv["a"]["place"]["l"])
                var = "#F" if x_ == "#T" else "#T" if x_ == "#F" else None
            elif rv["k"] == "cast":
                is_t = tainted_op(rv["op"], tn)
            if not dst["p"]:
                if is_t:
                    tn.add(dst["l"])
                else:
                    tn.discard(dst["l"])
                if var is not None:
                    kn[dst["l"]] = var
                else:
                    kn.pop(dst["l"], None)
            elif is_t:
                tn.add(dst["l"])
        t = blk["term"]
        k = t["k"]
        if k == "return":
            reached_return = True
            if 0 not in tn:
                out.append(finding(rule, view, "%s: the value returned does not carry the stopped error" % what_prefix, bb))
            elif view.b.kind != "Closure" and kn.get(0) not in ("Err", "Break", None) :   # (a helper answering ControlFlow::Break hands the stop on)
                out.append(finding(rule, view, "%s: the value returned is not an Err" % what_prefix, bb))
            elif view.b.kind == "Closure" and kn.get(0) == "Continue":
                # the function of a `try_fold` / `try_for_each`: answering Continue asks for the next item
                out.append(finding(rule, view, "%s: the closure answers ControlFlow::Continue, which asks the iteration that drives it for the next item" % what_prefix, bb))
            continue
        if k == "call":
            c = view.callee(bb)
            tr = c.deserr_trait()
            args_t = [tainted_op(a, tn) for a in t["args"]]
            dest = t["dest"]
            res_t = any(args_t)
            res_var = None
            bad = None
            if tr == "MergeWithError" and c.name == "merge":
                if not (len(args_t) > 1 and args_t[1]):
                    bad = "a new merge that does not carry the stopped error"
            elif tr == "DeserializeError" and c.name == "error":
                bad = "a new report is made after the stop"
            elif tr == "Deserr":
                bad = "a child is deserialised after the stop"
            elif tr in ("Map", "Sequence", "IntoValue"):
                bad = "the payload is accessed after the stop (%s)" % c.name
            elif c.fn is not None and c.name == "next" and c.trait and erase_generics(c.trait) == "std::iter::Iterator":
                bad = "an iterator is advanced after the stop"
            elif c.fn is None:
                bad = "indirect call after the stop"
            else:
                key_ = callee_key(c)
                if key_ == "std::ops::Try::branch":
                    a0 = t["args"][0]
                    if a0["k"] in ("move", "copy") and not a0["place"]["p"]:
                        v0 = kn.get(a0["place"]["l"])
                        if v0 in ("Err", "None"):
                            res_var = "Break"
                        elif v0 in ("Ok", "Some"):
                            res_var = "Continue"
                elif key_ == "std::ops::FromResidual::from_residual":
                    res_var = "Err"
                elif key_ == "std::result::Result::map_err" and args_t and args_t[0]:
                    # the closure is applied to the stopped error: require that it hands it over (checked on the closure body)
                    a0 = t["args"][0]
                    if a0["k"] in ("move", "copy") and not a0["place"]["p"]:
                        res_var = kn.get(a0["place"]["l"])
                elif not is_break_ok(c):
                    bad = "call to %s after the stop" % key_
            if bad:
                out.append(finding(rule, view, "%s: %s" % (what_prefix, bad), bb))
            if not dest["p"]:
                if res_t:
                    tn.add(dest["l"])
                else:
                    tn.discard(dest["l"])
                if res_var:
                    kn[dest["l"]] = res_var
                else:
                    kn.pop(dest["l"], None)
            if t["target"] is not None:
                work.append((t["target"], frozenset(kn.items()), frozenset(tn)))
            continue
        if k == "switch":
            info = view.switch_info(bb)
            if info["kind"] == "discr" and info["place"] is not None and not info["place"]["p"] \
                    and info["place"]["l"] in kn:
                tgt = view.variant_target(info, kn[info["place"]["l"]])
                if tgt is not None:
                    work.append((tgt, frozenset(kn.items()), frozenset(tn)))
                    continue
            if info["kind"] == "bool":
                d_ = t["discr"]
                if d_["k"] in ("move", "copy") and not d_["place"]["p"] and kn.get(d_["place"]["l"]) in ("#T", "#F"):
                    tgt = view.edge_target(info, kn[d_["place"]["l"]] == "#T")
                    if tgt is not None:
                        work.append((tgt, frozenset(kn.items()), frozenset(tn)))
                        continue
            for y in view.succ[bb]:
                work.append((y, frozenset(kn.items()), frozenset(tn)))
            continue
        for y in view.succ[bb]:
            work.append((y, frozenset(kn.items()), frozenset(tn)))
    if not reached_return and not out:
        out.append(finding(rule, view, "%s: no return is reached" % what_prefix, start))
    return out


def c03_rules(view, bs):
    """C03.BREAK + C03.STOP for one body. Returns (findings, obligations)"""
    out = []
    obligations = 0
    for s in bs.sites:
        if s.handling == "switched":
            obligations += 1
            if s.brk is None:
                out.append(finding("C03.BREAK", view, "%s has no Break edge" % site_desc(view, s), s.bb))
                continue
            # what is switched on holds the stopped error on the Break edge (it may be a variable that several report sites
            # assign: `let answer = match .. { .. => E::merge(..), .. => E::error(..) }; match answer { .. }`)
            subj = []
            if s.sw_bb is not None:
                i_ = view.switch_info(s.sw_bb)
                if i_ and i_["kind"] == "discr" and i_["place"] is not None and not i_["place"]["p"]:
                    subj = [i_["place"]["l"]]
            out += check_stop_region(view, bs, s.brk, s, "C03.BREAK",
                                     "after a Break answer of the %s" % site_desc(view, s),
                                     subj, break_payload_pred(view, s))
        elif s.handling == "collapsed":
            obligations += 1
            tgt = view.blocks[s.collapse_bb]["term"].get("target")

            def pred(t, cb=s.collapse_bb):
                return t[0] == "call" and t[1] == cb
            if tgt is None:
                continue
            cd = view.blocks[s.collapse_bb]["term"]["dest"]
            out += check_stop_region(view, bs, tgt, s, "C03.STOP",
                                     "after the unconditional %s" % site_desc(view, s),
                                     [cd["l"]] if not cd["p"] else [], pred)
        elif s.handling == "returned":
            obligations += 1  # the closure's caller handles the answer; checked at the call site
        else:
            obligations += 1
            out.append(finding("C03.ANSWER", view,
                               "answer of the %s is neither switched on, collapsed nor returned (%s)" % (site_desc(view, s), s.handling), s.bb))
    return out, obligations


def gprime_succ(view, bs):
    """successor map of G': Break edges of switched sites removed - and with them the edges that only a flag set on a Break
    path can take (`let stop = matches!(answer, Break(_)); .. if stop { return .. }`): a bool local whose every definition
    reachable in G' assigns the same constant decides its switches"""
    succ = [list(x) for x in view.succ]
    for s in bs.sites:
        if s.handling == "switched" and s.brk is not None and s.sw_bb is not None:
            succ[s.sw_bb] = [x for x in succ[s.sw_bb] if x != s.brk or x == s.cont]
    for _round in range(4):
        reach = set()
        st = [0]
        while st:
            x = st.pop()
            if x in reach or x in view.unreach:
                continue
            reach.add(x)
            st.extend(succ[x])
        changed = False
        for bb in sorted(reach):
            tm = view.blocks[bb]["term"]
            if tm["k"] != "switch" or len(set(succ[bb])) < 2:
                continue
            info = view.switch_info(bb)
            if not info or info["kind"] != "bool":
                continue
            d = tm["discr"]
            if d["k"] not in ("copy", "move") or d["place"]["p"]:
                continue
            l = d["place"]["l"]
            neg = False
            # `!flag` computed into a temporary right before the switch
            wd = view.whole_defs(l)
            if len(wd) == 1 and wd[0][0] == "stmt" and wd[0][3]["rv"]["k"] == "unop" and wd[0][3]["rv"]["op"] == "Not" and \
                    wd[0][3]["rv"]["a"]["k"] in ("copy", "move") and not wd[0][3]["rv"]["a"]["place"]["p"]:
                l = wd[0][3]["rv"]["a"]["place"]["l"]
                neg = True
                wd = view.whole_defs(l)
            elif len(wd) == 1 and wd[0][0] == "stmt" and wd[0][3]["rv"]["k"] == "use" and wd[0][3]["rv"]["op"]["k"] in ("copy", "move") and \
                    not wd[0][3]["rv"]["op"]["place"]["p"]:
                l = wd[0][3]["rv"]["op"]["place"]["l"]
                wd = view.whole_defs(l)
            vals = set()
            ok = bool(wd)
            for df in wd:
                if df[0] != "stmt":
                    ok = False
                    break
                if df[1] not in reach:
                    continue       # a definition that only a Break path executes
                rv = df[3]["rv"]
                if rv["k"] == "use" and rv["op"]["k"] == "const" and "bool" in rv["op"]:
                    vals.add(rv["op"]["bool"])
                elif rv["k"] == "use" and rv["op"]["k"] in ("copy", "move") and len(rv["op"]["place"]["p"]) == 1 and rv["op"]["place"]["p"][0]["k"] == "field":
                    # `let (x, flag) = match answer { Continue(e) => (e, false), Break(e) => (e, true) }`
                    tl = rv["op"]["place"]["l"]
                    fi = rv["op"]["place"]["p"][0].get("i")
                    for d2 in view.whole_defs(tl):
                        if d2[0] != "stmt":
                            ok = False
                            break
                        if d2[1] not in reach:
                            continue
                        r2 = d2[3]["rv"]
                        if r2["k"] == "agg" and r2.get("ak") == "tuple" and fi is not None and fi < len(r2["ops"]) and r2["ops"][fi]["k"] == "const" and "bool" in r2["ops"][fi]:
                            vals.add(r2["ops"][fi]["bool"])
                        else:
                            ok = False
                            break
                    if not ok:
                        break
                else:
                    ok = False
                    break
            if ok and len(vals) == 1:
                val = next(iter(vals)) != neg
                keep = view.edge_target(info, val)
                if keep is not None and set(succ[bb]) != {keep}:
                    succ[bb] = [keep]
                    changed = True
        if not changed:
            break
    return succ


def ipdom_in(view, succ, start):
    """immediate post-dominator of `start` in the graph `succ` (None = virtual exit)"""
    from analysis import _dominators
    n = view.n
    pred = [[] for _ in range(n)]
    nodes = set()
    st = [0]
    while st:
        x = st.pop()
        if x in nodes:
            continue
        nodes.add(x)
        for s in succ[x]:
            if s not in view.unreach:
                st.append(s)
    succ2 = [[s for s in succ[x] if s in nodes] for x in range(n)]
    for x in nodes:
        for s in succ2[x]:
            pred[s].append(x)
    exits = [x for x in nodes if not succ2[x]]
    pd = _dominators(n, pred, succ2, exits, nodes)
    cands = pd.get(start, frozenset()) - {start}
    # exits other than returns (diverging blocks) are not real joins
    if not cands:
        return None, pd
    # the immediate one is the candidate post-dominated by no... = the one with the largest pdom set
    best = max(cands, key=lambda x: len(pd.get(x, ())))
    return best, pd


def region_between(succ, start, stop, unreach=()):
    seen = set()
    st = [start]
    while st:
        x = st.pop()
        if x in seen or x == stop or x in unreach:
            continue
        seen.add(x)
        st.extend(succ[x])
    return seen


def result_source(view, place_term):
    """classify the origin of a switched Result/ControlFlow: ('child', bb) | ('fromstr', bb) | ('user', bb) | None"""
    t = place_term
    # see through `?`: Try::branch(x)
    n = 0
    while t[0] == "call" and t[2] is not None and "std::ops::Try>::branch" in t[2] and n < 3:
        t = t[3][0]
        n += 1
    if t[0] != "call":
        return None
    c = view.callee(t[1])
    if c is None or c.fn is None:
        return None
    tr = c.deserr_trait()
    if tr == "Deserr" and c.name == "deserialize_from_value":
        return ("child", t[1])
    if c.name == "from_str" or (c.name == "parse" and (c.path or "").startswith("core::str::")):
        return ("fromstr", t[1])
    if c.krate not in ("std", "core", "alloc", "deserr", None):
        return ("user", t[1])
    return None


def c02_rules(view, bs):
    """C02.LOOP, C02.REJOIN, C02.LATE, C02.STRUCT for one body. Returns (findings, obligations)"""
    out = []
    obligations = 0
    gsucc = gprime_succ(view, bs)
    next_bbs = {n["bb"]: n for n in bs.nexts}
    child_bbs = {c["bb"]: c for c in bs.children}
    site_bbs = {s.bb: s for s in bs.sites}
    accs = bs.accumulators()
    break_edges = set()
    for s in bs.sites:
        if s.handling == "switched" and s.brk is not None:
            break_edges.add((s.sw_bb, s.brk))

    missing_bbs = set()
    for bb, c in view.calls():
        if c.fn is not None and npath(erase_generics(c.path)) == "FieldState::is_missing":
            missing_bbs.add(bb)
    exam_all = set(next_bbs) | set(child_bbs) | set(site_bbs) | missing_bbs

    # ---- C02.LOOP: payload loops are left only on exhaustion or on a Break answer
    for header, body in view.loops():
        nx = [bb for bb in body if bb in next_bbs]
        if not nx:
            continue
        obligations += 1
        none_edges = set()
        for nb in nx:
            kind, sbb, info, cur = _follow_switch(view, nb)
            if kind == "switch":
                tgt = view.variant_target(info, "None")
                if tgt is not None:
                    none_edges.add((sbb, tgt))
        for x in sorted(body):
            for y in view.succ[x]:
                if y in body or y in view.unreach:
                    continue
                if (x, y) in none_edges or (x, y) in break_edges:
                    continue
                if y not in gsucc[x]:
                    continue    # an edge only a flag set on a Break path can take (pruned from the keep-going graph)
                f_ = finding("C02.LOOP", view,
                             "payload loop is left early by an edge that is neither exhaustion nor a Break answer", x)
                # the edge may be the `Err` of `child_result.or_else(|e| match E::merge(..) { .. Break(e) => Err(e) })?`: whether it is
                # only taken after a Break answer is decided inside that closure, which this rule does not follow
                info_ = view.switch_info(x)
                if info_ and info_["kind"] == "discr" and info_["place"] is not None:
                    subj_ = strip_refs(view.origin_place(info_["place"]))
                    for a_ in [subj_] + [strip_refs(z) for z in view.alts(subj_)]:
                        if a_[0] == "call" and "Try>::branch" in (a_[2] or "") and a_[3]:
                            a_ = strip_refs(a_[3][0])
                        if a_[0] == "call" and (a_[2] or "").split("::<")[0].split("::")[-1] in ("or_else", "map_err", "and_then") and \
                                any(strip_refs(q)[0] == "agg" and strip_refs(q)[1] == "closure" for q in a_[3]):
                            f_.what += ": the exit follows a combinator whose closure reports; whether it is only taken on a Break answer was not read: not recognised (undecided)"
                            f_.undecided = True
                            break
                out.append(f_)

    # ---- C02.REJOIN: a fault in one item does not skip the examination of its siblings
    for bb in sorted(view.reach):
        info = view.switch_info(bb)
        if not info or info["kind"] != "discr" or info["place"] is None:
            continue
        src = result_source(view, view.origin_place(info["place"]))
        if src is None:
            continue
        kind, cbb = src
        if kind == "child" and child_bbs.get(cbb, {}).get("delegating"):
            continue
        obligations += 1
        okname = "Ok" if info.get("adt") == "std::result::Result" else "Continue"
        ok_t = view.variant_target(info, okname)
        err_t = view.variant_target(info, "Err" if okname == "Ok" else "Break")
        j, pd = ipdom_in(view, gsucc, bb)
        if ok_t is None or err_t is None:
            continue
        own = region_between(gsucc, ok_t, j, view.unreach) if j is not None else set()
        for r in sorted(own):
            if r in next_bbs:
                out.append(finding("C02.REJOIN", view,
                                   "work on further payload items happens only when this %s succeeded" % _srcname(kind), r))
            if r in missing_bbs:
                out.append(finding("C02.REJOIN", view,
                                   "missing-field checks happen only when this %s succeeded" % _srcname(kind), r))
        ok_exam = exam_all & region_between(gsucc, ok_t, None, view.unreach)
        err_exam = exam_all & region_between(gsucc, err_t, None, view.unreach)
        skipped = (ok_exam - own) - err_exam
        if skipped:
            out.append(finding("C02.REJOIN", view,
                               "a failing %s skips examination that a succeeding one reaches (later siblings are never examined)" % _srcname(kind), bb,
                               detail="skipped blocks %s" % sorted(skipped)))

    # ---- C02.ALL: every missing-field test is made whenever the map loop has been left normally
    if missing_bbs:
        for header, body in view.loops():
            nx = [bb for bb in body if bb in next_bbs]
            if not nx:
                continue
            kind, sbb, info, cur = _follow_switch(view, nx[0])
            exit_t = view.variant_target(info, "None") if kind == "switch" else None
            if exit_t is None:
                continue
            _, pd = ipdom_in(view, gsucc, exit_t)
            for m in sorted(missing_bbs):
                if m in body or not view.dominates(exit_t, m):
                    continue
                obligations += 1
                if m not in pd.get(exit_t, frozenset()):
                    out.append(finding("C02.ALL", view, "a missing-field check is skipped on some path after the members were visited (an absent field can go unreported)", m))

    # ---- C02.LATE: nothing is examined after an accumulator has been inspected
    for acc, ss in sorted(accs.items()):
        for bb in sorted(view.reach):
            info = view.switch_info(bb)
            if not info or info["kind"] != "discr" or info["place"] is None:
                continue
            if info["place"]["l"] != acc or info["place"]["p"]:
                continue
            obligations += 1
            after = view.reachable(bb)
            for r in sorted(after):
                if r in next_bbs or r in child_bbs or r in missing_bbs or (r in site_bbs and site_bbs[r].handling == "switched"):
                    out.append(finding("C02.LATE", view,
                                       "the accumulated error is inspected before all examination is done", bb))
                    break

    # any other look at an accumulator (borrow, e.g. `error.is_none()`) while examination remains
    for acc, ss in sorted(accs.items()):
        for bb in sorted(view.reach):
            looked = False
            for st in view.blocks[bb]["stmts"]:
                if st["k"] == "assign" and st["rv"]["k"] in ("ref", "rawptr") and st["rv"]["place"]["l"] == acc:
                    looked = True
            if not looked:
                continue
            if borrow_only_moves(view, acc):
                continue    # `error.take()` into the report / `*error = Some(answer)` through a `&mut`: moved, not looked at
            obligations += 1
            after = view.reachable(bb)
            if any(r in next_bbs or r in child_bbs or r in missing_bbs or (r in site_bbs and site_bbs[r].handling == "switched") for r in after):
                out.append(finding("C02.LATE", view, "the accumulated error is looked at (borrowed) before all examination is done", bb))

    # ---- C02.ACC: what a Continue answer returns replaces the accumulator, so the accumulator must have been handed in
    for s in bs.sites:
        if s.handling != "switched" or s.cont is None:
            continue
        # does the Continue payload end up in an accumulator?
        target_acc = None
        for acc in accs:
            for d in view.whole_defs(acc):
                if d[0] != "stmt":
                    continue
                tm = view.origin_rv(d[3]["rv"], d[1])

                def from_site(x, sb=s.bb):
                    return x[0] == "field" and x[2] == "Continue" and isinstance(x[1], tuple) and x[1][0] == "call" and x[1][1] == sb
                direct = tm
                if direct[0] == "agg" and direct[1] == "adt" and direct[4] == "Some" and direct[2]:
                    direct = direct[2][0]
                if from_site(direct):
                    target_acc = acc
        if target_acc is None:
            continue
        obligations += 1
        if s.acc != target_acc:
            out.append(finding("C02.ACC", view, "the %s starts from %s although its answer replaces the accumulator: reports accumulated so far are forgotten" % (
                site_desc(view, s), "None" if s.self_none else "another value"), s.bb))

    # ---- C02.KEEP: once examination has begun the accumulator is only ever replaced by the answer it was handed to
    k_out, k_ob = acc_keep(view, bs, "C02.KEEP")
    out.extend(k_out)
    obligations += k_ob
    k_out, k_ob = fold_keep(view.b.crate, view, "C02.KEEP")
    out.extend(k_out)
    obligations += k_ob

    # ---- C02.STRUCT: unconditional stops (outside Break paths) hide nothing
    exam = set(next_bbs) | set(b for b, c in child_bbs.items() if not c["delegating"]) | \
        set(s.bb for s in bs.sites if s.handling == "switched")
    # blocks that can only be reached through a Break edge
    break_region = set(view.reach) - region_between(gsucc, 0, None, view.unreach)
    for s in bs.sites:
        if s.handling != "collapsed":
            continue
        obligations += 1
        if s.bb in break_region:
            continue  # part of a stop path: C03's business
        before = [e for e in exam if s.bb in view.reachable(e)]
        if not before:
            continue  # structural failure found before any examination
        # after some examination: allowed only when nothing remains to be examined from the
        # point where the decision to stop is taken
        d = None
        doms = view.dom().get(s.bb, frozenset())
        cands = [x for x in doms if x != s.bb and view.blocks[x]["term"]["k"] == "switch"]
        if cands:
            d = max(cands, key=lambda x: len(view.dom().get(x, ())))
        start = d if d is not None else s.bb
        rest = region_between(gsucc, start, None, view.unreach) & exam
        if rest:
            out.append(finding("C02.STRUCT", view,
                               "an unconditional stop (%s) sits in the middle of the examination and hides later faults" % site_desc(view, s), s.bb))
    return out, obligations


def _srcname(kind):
    return {"child": "child", "fromstr": "key parse", "user": "conversion"}[kind]


def _is_join(view, succ, bb, j):
    return True


def _follow_switch(view, call_bb):
    from sites import follow_local_use
    d = view.blocks[call_bb]["term"]["dest"]["l"]
    return follow_local_use(view, call_bb, d)


def _acc_may_hold(view, bs, at_bb):
    """accumulators that may be Some at block at_bb (via the linearity typestate)"""
    import lin
    X = lin.error_types(view)
    carry = lin.Carry(view.b.crate, X)
    accs = bs.accumulators()
    if not accs:
        return []
    # cheap path-sensitive approximation: an accumulator may hold at `at_bb` if some Continue
    # assignment to it reaches at_bb without passing the None edge of a switch on it
    res = []
    for acc in accs:
        barrier = set()
        none_targets = set()
        for bb in view.reach:
            info = view.switch_info(bb)
            if info and info["kind"] == "discr" and info["place"] is not None and info["place"]["l"] == acc and not info["place"]["p"]:
                some_t = view.variant_target(info, "Some")
                none_t = view.variant_target(info, "None")
                if some_t is not None and some_t != none_t:
                    barrier.add((bb, none_t))
        # reach from each assignment `acc = Some(..)`
        for d in view.whole_defs(acc):
            if d[0] != "stmt":
                continue
            rv = d[3]["rv"]
            if rv["k"] == "agg" and rv.get("variant") == "None":
                continue
            if rv["k"] == "use" and rv["op"]["k"] == "const":
                continue
            start = d[1]
            seen = set()
            st = [start]
            hit = False
            while st:
                x = st.pop()
                if x in seen:
                    continue
                seen.add(x)
                if x == at_bb and x != start:
                    hit = True
                    break
                for y in view.succ[x]:
                    if (x, y) in barrier:
                        continue
                    st.append(y)
            if hit:
                res.append(acc)
                break
    return res


def acc_keep(view, bs, rule):
    """Every assignment to an accumulator that can execute after some examination (child call, report
    site, iterator step) gives it either the Continue payload of a site the accumulator itself was
    handed to (wrapped in Some), or its own previous value.  Anything else (None, a fresh error, the
    payload of a site that started from None) forgets what was accumulated: an earlier fault no longer
    makes the call fail."""
    out = []
    ob = 0
    accs = bs.accumulators()
    if not accs:
        return out, ob
    exam = set(n["bb"] for n in bs.nexts) | set(c["bb"] for c in bs.children) | set(s.bb for s in bs.sites)
    after_exam = set()
    for e in exam:
        after_exam |= view.reachable(e)
    sites_by_bb = {s.bb: s for s in bs.sites}

    def leaves(term, depth, seen):
        """terms an assigned value may come from, expanding multi-definition temporaries"""
        if term[0] == "multi" and depth < 5 and term[1] not in seen:
            res = []
            for d in view.whole_defs(term[1]):
                if d[0] == "stmt":
                    res.extend(leaves(view.origin_rv(d[3]["rv"], d[1]), depth + 1, seen | {term[1]}))
                elif d[0] == "call":
                    res.append(view.origin_call(d[1]))
                else:
                    res.append(("?",))
            return res
        return [term]

    for acc in accs:
        for d in view.whole_defs(acc):
            if d[0] != "stmt":
                continue
            bb = d[1]
            if bb not in after_exam:
                continue   # initialisation before anything was examined
            ob += 1
            tm = view.origin_rv(d[3]["rv"], bb)
            for lf in leaves(tm, 0, frozenset([acc])):
                if lf == ("multi", acc):
                    continue
                inner = lf
                if inner[0] == "agg" and inner[1] == "adt" and inner[4] == "Some" and inner[2]:
                    inner = inner[2][0]
                    subs = []
                    for sub0 in leaves(inner, 1, frozenset([acc])):
                        # (through a helper's `Ok(e)` taken apart by `?`, a re-wrapped answer, ..: every alternative counts)
                        subs.extend([strip_refs(a) for a in view.alts(sub0)] or [sub0])
                    for sub in subs:
                        ok = False
                        undecided = False
                        if sub[0] == "field" and sub[2] in ("Continue", "Break") and isinstance(sub[1], tuple) and sub[1][0] == "call" and sub[1][1] in sites_by_bb:
                            s = sites_by_bb[sub[1][1]]
                            ok = s.acc == acc or sub[2] == "Break"
                            # (a Break payload stored into the accumulator is C03's business, not a loss)
                            if not ok and rule == "C02.KEEP":
                                ok = True   # reported by C02.ACC with a better message
                            if not ok and s.acc is None and not s.self_none:
                                # the site was handed something this rule did not trace back to the accumulator (moved through a
                                # helper's parameter): neither kept nor lost was read
                                al_self = [strip_refs(a) for a in view.alts(s.self_term)] if s.self_term is not None else []
                                if al_self and all(a == ("multi", acc) or (a[0] == "call" and view.callee(a[1]) is not None and view.callee(a[1]).name == "take") for a in al_self):
                                    ok = True
                                else:
                                    undecided = True
                        elif sub[0] != "agg" and not (sub[0] == "field" and sub[2] in ("Continue", "Break")):
                            undecided = True     # a value whose origin was not read
                        if not ok:
                            f_ = finding(rule, view, "the accumulated error is replaced by a value that does not contain it: earlier reports are forgotten", bb, _short(sub))
                            if undecided:
                                f_.what = "the accumulated error is replaced by a value whose origin was not read: not recognised (undecided)"
                                f_.undecided = True
                            out.append(f_)
                    continue
                if inner[0] == "agg" and inner[1] == "adt" and inner[4] == "None":
                    out.append(finding(rule, view, "the accumulated error is reset to None after examination has begun: earlier reports are forgotten", bb))
                    continue
                if inner[0] == "field" and inner[2] == "Continue" and isinstance(inner[1], tuple) and inner[1][0] == "call" and inner[1][1] in sites_by_bb:
                    continue   # e.g. acc: E (not Option) replaced by the payload directly
                if inner[0] == "call" and inner[1] in sites_by_bb:
                    continue
                # a value computed by a local helper / closure: not decided here (C01 tracks the ownership)
    return out, ob


def borrow_only_moves(view, acc):
    """every `&mut acc` only ever reaches `Option::take` / `mem::take` / `mem::replace` (and writes through it): the content
    is moved out to be handed to a report and the answer written back - nobody looks at it"""
    import coll
    try:
        cons = coll.mut_borrow_consumers(view, acc)
    except Exception:
        return False
    if not cons:
        return False
    shared = any(st["k"] == "assign" and st["rv"]["k"] == "ref" and st["rv"].get("bk") == "shared" and st["rv"]["place"]["l"] == acc and not st["rv"]["place"]["p"]
                 for bb in view.reach for st in view.blocks[bb]["stmts"])
    if shared:
        return False
    for bb, c, i in cons:
        nm = (c.base() or "") if c is not None and c.fn is not None else ""
        if nm not in ("std::option::Option::take", "std::mem::take", "std::mem::replace"):
            return False
    return True


def fold_keep(crate, view, rule):
    """The same for an accumulator that is threaded through `try_fold` / `fold`: the closure receives what was accumulated
    so far as its first argument and answers with the next state.  An answer that can follow an examination and is `None`
    (or a report that started from nothing) forgets the earlier reports."""
    from analysis import View, strip_refs
    from sites import BodySites
    out = []
    ob = 0
    for bb, c in view.calls():
        if c.fn is None or not c.trait or erase_generics(c.trait) != "std::iter::Iterator" or c.name not in ("try_fold", "fold"):
            continue
        t = view.origin_call(bb)
        clo = None
        for a in t[3]:
            a = strip_refs(a)
            if a and a[0] == "agg" and a[1] == "closure" and len(a) > 3:
                clo = a[3]
        cb = None
        for b2 in crate.bodies:
            if b2.path == clo:
                cb = b2
        if cb is None:
            continue
        cv = View(cb)
        cbs = BodySites(cv)
        if not any(s_.acc == 2 and s_.self_term[0] == "param" for s_ in cbs.sites):
            continue     # the first argument is not an accumulated error
        ob += 1
        sites_by_bb = {s_.bb: s_ for s_ in cbs.sites}
        exam = set(ch["bb"] for ch in cbs.children) | set(sites_by_bb)
        for rb in sorted(cv.reach):
            for st in cv.blocks[rb]["stmts"]:
                if st["k"] != "assign" or st["place"]["l"] != 0 or st["place"]["p"]:
                    continue
                tm = cv.origin_rv(st["rv"], rb)
                for lf in cv.alts(tm) or [tm]:
                    inner = lf
                    # the next state: payload of Continue / Ok, or the value itself (`fold`)
                    if inner[0] == "agg" and inner[1] == "adt" and inner[4] in ("Continue", "Ok") and inner[2]:
                        inner = inner[2][0]
                    elif inner[0] == "agg" and inner[1] == "adt" and inner[4] in ("Break", "Err"):
                        continue
                    for sub in cv.alts(inner) or [inner]:
                        if sub[0] == "agg" and sub[1] == "adt" and sub[3] == "std::option::Option" and sub[4] == "None":
                            if any(rb in cv.reachable(e) for e in exam):
                                out.append(finding(rule, cv, "the error accumulated so far (first argument of the %s closure) is answered with None after an item was examined: "
                                                   "earlier reports are forgotten" % c.name, rb))
                        elif sub[0] == "agg" and sub[1] == "adt" and sub[4] == "Some" and sub[2]:
                            for s2 in cv.alts(sub[2][0]) or [sub[2][0]]:
                                if s2[0] == "field" and s2[2] == "Continue" and isinstance(s2[1], tuple) and s2[1][0] == "call" and s2[1][1] in sites_by_bb:
                                    s_ = sites_by_bb[s2[1][1]]
                                    if s_.self_none:
                                        out.append(finding(rule, cv, "the error accumulated so far is replaced by a report that started from nothing: earlier reports are forgotten", rb))
    return out, ob


def _short(t):
    s = repr(t)
    return s if len(s) < 120 else s[:117] + "..."
