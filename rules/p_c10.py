"""C10 — see derive_prop.TEXT and DESIGN §5."""
import derive_prop


def run(ctx):
    res = derive_prop.run_for(ctx, "C10")
    extra(ctx, res)
    return res


def extra(ctx, res):
    pass
