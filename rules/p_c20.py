"""C20 — HTTP extractors add nothing and lose nothing: each extractor *is* "framework extractor,
then deserr::deserialize, then wrap" with no other branch, filter or conversion (composition shape).
Analysed with the actix-web and axum features enabled."""
from analysis import View, strip_refs, erase_generics, term_mentions
from check import PropResult
from lin import Finding
from loc import canon, fmt, call_name
from sites import npath, follow_local_use
import skeleton

PLUMBING = {"std::ops::Try::branch", "std::ops::FromResidual::from_residual", "std::pin::Pin::get_mut", "std::pin::Pin::new",
            "std::pin::Pin::new_unchecked", "std::future::get_context", "std::future::IntoFuture::into_future", "std::future::Future::poll",
            "futures::Future::poll"}


def fnd(rule, v, what, bb=None, detail=""):
    at = v.blocks[bb]["term"].get("at", "") if bb is not None else v.b.span
    return Finding(rule, v.b.path, what, at, detail)


def find(crate, sub, name=None, kind=None):
    for b in crate.bodies:
        if sub in b.path and (name is None or b.path.endswith(name)) and (kind is None or b.kind == kind):
            return b
    return None


def cname(v, bb):
    c = v.callee(bb)
    if c is None or c.fn is None:
        return None
    if c.trait is not None:
        return npath(erase_generics(c.trait)) + "::" + (c.name or "")
    return npath(erase_generics(c.path))


def shape(v, allowed, rule):
    """callee allow-list + every branch switches on the result of one of the calls (or of `?`/poll plumbing)"""
    out = []
    ob = 0
    for bb, c in v.calls():
        ob += 1
        nm = cname(v, bb)
        if c.fn is None:
            out.append(fnd(rule, v, "indirect call in an extractor", bb))
        elif nm not in allowed and nm not in PLUMBING:
            out.append(fnd(rule, v, "the extractor does something besides extracting, deserialising and wrapping: call of %s" % nm, bb))
    for bb in sorted(v.reach):
        info = v.switch_info(bb)
        if not info:
            continue
        ob += 1
        ok = False
        if info["kind"] == "discr" and info["place"] is not None:
            t = canon(v, v.origin_place(info["place"]))
            # result of a call, or a payload of such a result
            base = t
            while base[0] in ("field", "downcast"):
                base = base[1]
            if base[0] == "call" or base[0] == "multi":
                ok = True
            if base[0] == "multi":
                # a local assigned once from a call payload (e.g. `let res = ready!(..)`)
                wd = v.whole_defs(base[1])
                ok = all(d[0] in ("stmt", "call") for d in wd)
        if not ok:
            out.append(fnd(rule, v, "the extractor branches on something other than the outcome of the framework extractor / of deserialize", bb))
    return out, ob


def agg_results(v, path_suffix=None):
    out = []
    for bb in sorted(v.reach):
        for st in v.blocks[bb]["stmts"]:
            if st["k"] == "assign" and st["rv"]["k"] == "agg" and st["rv"].get("ak") == "adt":
                out.append((bb, st["rv"]["path"], st["rv"]["variant"], [canon(v, v.origin(o)) for o in st["rv"]["ops"]], st))
    return out


def call_blocks(v, name):
    return [bb for bb, c in v.calls() if cname(v, bb) == name]


def payload_from(t, call_bb, variants):
    """t is the payload of `variants` (outermost last) of the result of call_bb, through moves"""
    cur = t
    for var in variants:
        if not (cur[0] == "field" and cur[2] == var):
            return False
        cur = cur[1]
    while cur[0] == "call" and cur[1] != call_bb and cur[3]:
        # see through Try::branch
        cur = cur[3][0]
    return cur[0] == "call" and cur[1] == call_bb


def see_through(v, t, depth=0):
    """follow single-assignment user locals"""
    if t[0] == "multi" and depth < 5:
        wd = v.whole_defs(t[1])
        if len(wd) == 1 and wd[0][0] == "stmt":
            return see_through(v, canon(v, v.origin_rv(wd[0][3]["rv"], wd[0][1])), depth + 1)
    return t


def mentions_call(t, bb):
    return term_mentions(t, lambda x: x[0] == "call" and x[1] == bb)



# ---------------------------------------------------------------------------------------------------------------
# Composition analysis shared by the three extractors: "framework extraction F, then deserr::deserialize D on exactly
# F's document, then wrap; errors of F and D handed on unchanged" - stated on value flow (View.alts), not on a call chain,
# so that `?` vs `match`, helper functions (expanded), `ready!` vs an explicit match on Poll all read the same.
STD_OK = ("std::ops::Try::branch", "std::ops::FromResidual::from_residual", "std::pin::Pin::get_mut", "std::pin::Pin::new", "std::pin::Pin::new_unchecked",
          "std::pin::Pin::as_mut", "std::future::get_context", "std::future::IntoFuture::into_future", "std::convert::From::from", "std::convert::Into::into",
          "std::result::Result::map", "std::result::Result::map_err", "std::result::Result::and_then", "std::ops::Deref::deref", "std::ops::DerefMut::deref_mut",
          "std::task::Poll::map", "std::task::Poll::map_ok", "std::task::Poll::map_err", "std::ops::FnOnce::call_once", "std::result::Result::unwrap_or_else",
          "std::marker::PhantomData", "std::result::Result::ok", "std::result::Result::or_else", "std::mem::drop")


def und(rule, v, what, bb=None, detail=""):
    f = fnd(rule, v, what, bb, detail)
    f.undecided = True
    return f


def composition(crate, v, rule, is_F, wrapper_suffix, extra_ok=(), f_is_poll=False):
    """returns (findings, obligations).  is_F(view, bb) recognises the framework extraction call."""
    fs = []
    ob = 6
    views = [v]
    # closures created here (map / map_err arguments) belong to the extractor
    for cb in crate.bodies:
        if cb.kind == "Closure" and cb.root == v.b.root and cb.path != v.b.path and cb.path.startswith(v.b.path):
            views.append(View(cb))
    F = [bb for bb, c in v.calls() if is_F(v, bb)]
    D = [bb for bb, c in v.calls() if cname(v, bb) == "deserialize"]
    foreign = []
    unknown = []
    for x in views:
        for bb, c in x.calls():
            nm = cname(x, bb)
            if c.fn is None:
                continue   # calling a closure / function value handed around (e.g. Result::map(Self::new))
            if (x is v and (bb in F or bb in D)) or nm in STD_OK or nm in extra_ok or (nm or "").endswith(wrapper_suffix + "::new") or nm in PLUMBING:
                continue
            if (nm or "").endswith("::into_inner") and c.krate not in ("deserr",):
                continue   # taking the document out of the framework's wrapper (`Json(v)` / `.into_inner()` / `.0`) is part of extracting it
            if c.krate in ("std", "core", "alloc", "futures", "futures_core", "futures_util"):
                unknown.append((x, bb, nm))
            elif c.krate == "deserr":
                unknown.append((x, bb, nm))
            else:
                foreign.append((x, bb, nm))
    # functions handed to combinators as values (`.map_err(actix_web::error::ErrorBadRequest)`) are called just the same
    for x in views:
        for bb in sorted(x.reach):
            tm = x.blocks[bb]["term"]
            if tm["k"] != "call":
                continue
            for a in tm["args"]:
                if a["k"] == "const" and isinstance(a.get("fn"), dict):
                    fd = a["fn"]
                    nm = erase_generics(fd.get("path") or fd.get("full") or "")
                    if fd.get("krate") in ("std", "core", "alloc", "deserr", crate.name) or nm in STD_OK or nm in extra_ok or nm in PLUMBING or nm.endswith("::into_inner"):
                        continue
                    foreign.append((x, bb, nm + " (as a function value)"))
    for x, bb, nm in foreign:
        fs.append(fnd(rule, x, "the extractor does something besides extracting, deserialising and wrapping: call of %s" % nm, bb))
    if len(F) != 1 or len(D) != 1:
        if not fs:
            fs.append(und(rule, v, "expected one framework extraction and one deserr::deserialize (found %d / %d): composition not read (undecided)" % (len(F), len(D))))
        return fs, ob
    f, d = F[0], D[0]
    ga = v.callee(d).gargs
    if len(ga) >= 2 and isinstance(ga[1], int) and crate.types[ga[1]]["s"] != "serde_json::Value":
        fs.append(fnd(rule, v, "deserialize is not run on serde_json::Value", d))

    def rooted(term, root_bbs, depth=0):
        """'ok' when term is built from the results of root calls by projections / allowed wrappers only; 'fabricated' when it
        contains a constant or a value from elsewhere; 'unknown' otherwise"""
        t_ = strip_refs(term)
        if depth > 40:
            return "unknown"
        k = t_[0]
        if k == "call":
            if t_[1] in root_bbs:
                return "ok"
            nm = cname(v, t_[1]) if t_[1] < len(v.blocks) and v.blocks[t_[1]]["term"]["k"] == "call" else None
            if nm in STD_OK or nm in PLUMBING or nm in extra_ok or nm == "actix_web::web::Json::into_inner" or (nm or "").endswith("::into_inner") or \
                    (nm or "").endswith(wrapper_suffix + "::new"):
                rs = [rooted(a, root_bbs, depth + 1) for a in t_[3] if a[0] not in ("fnconst",) and not (a[0] == "agg" and a[1] == "closure")]
                rs = [r for r in rs if r != "ctx"]
                if not rs:
                    return "unknown"
                return "fabricated" if "fabricated" in rs else "unknown" if "unknown" in rs else "ok"
            return "unknown"
        if k in ("field", "downcast", "deref", "ref", "cast"):
            return rooted(t_[1] if k != "cast" else t_[2], root_bbs, depth + 1)
        if k == "agg" and t_[1] == "adt":
            if t_[3].endswith("PhantomData"):
                return "ctx"
            rs = [rooted(a, root_bbs, depth + 1) for a in t_[2]]
            rs = [r for r in rs if r != "ctx"]
            if not rs:
                return "fabricated"
            return "fabricated" if "fabricated" in rs else "unknown" if "unknown" in rs else "ok"
        if k == "agg" and t_[1] == "tuple":
            rs = [rooted(a, root_bbs, depth + 1) for a in t_[2]]
            return "fabricated" if "fabricated" in rs or not rs else "unknown" if "unknown" in rs else "ok"
        if k == "const":
            return "fabricated"
        if k == "param":
            return "unknown"
        return "unknown"

    # D's document comes from F and nothing else
    arg = v.origin(v.blocks[d]["term"]["args"][0])
    verdicts = set(rooted(a, {f}) for a in v.alts(arg))
    if "fabricated" in verdicts:
        fs.append(fnd(rule, v, "deserr::deserialize does not receive exactly the document the framework extracted", d, fmt(canon(v, arg))))
    elif verdicts != {"ok"}:
        fs.append(und(rule, v, "where deserialize's document comes from was not read (undecided)", d, fmt(canon(v, arg))))
    # successes wrap D's value; errors are F's or D's
    for bb2, path, var, ops, st in agg_results(v):
        if path == "std::result::Result" and var == "Ok" and ops:
            vs = set(rooted(a, {d}) for a in v.alts(v.origin(st["rv"]["ops"][0])))
            if "fabricated" in vs:
                fs.append(fnd(rule, v, "success is produced by something other than wrapping deserr's value", bb2))
            elif vs != {"ok"}:
                fs.append(und(rule, v, "what a success wraps was not read (undecided)", bb2))
        if path == "std::result::Result" and var == "Err" and ops:
            vs = set(rooted(a, {f, d}) for a in v.alts(v.origin(st["rv"]["ops"][0])))
            if "fabricated" in vs:
                fs.append(fnd(rule, v, "an error is fabricated or altered by the extractor", bb2, fmt(ops[0])))
            elif vs != {"ok"}:
                fs.append(und(rule, v, "where an error comes from was not read (undecided)", bb2))
    for x, bb, nm in unknown[:3]:
        fs.append(und(rule, x, "call of %s is not part of the composition the rule reads (undecided)" % nm, bb))
    return fs, ob


def actix_rules(crate, res):
    # ---- AwebJson::from_request
    b = find(crate, "AwebJson<T, E> as actix_web::FromRequest>::from_request")
    fs = []
    if b is None:
        fs.append(Finding("C20.AWEB", "AwebJson::from_request", "not found", ""))
    else:
        v = View(b)
        f2, ob = shape(v, {"actix_web::FromRequest::from_request"}, "C20.AWEB")
        fs += f2
        fr = call_blocks(v, "actix_web::FromRequest::from_request")
        if len(fr) != 1 or "Json<serde_json::Value>" not in v.callee(fr[0]).full:
            fs.append(fnd("C20.AWEB", v, "the future is not built from the framework's Json<serde_json::Value> extractor"))
        else:
            a = [canon(v, v.origin(x)) for x in v.blocks[fr[0]]["term"]["args"]]
            if [strip_refs(x) for x in a] != [("param", 1), ("param", 2)]:
                fs.append(fnd("C20.AWEB", v, "the framework extractor does not receive the request and payload unchanged", fr[0]))
    res.add("C20.AWEB", 4, fs)
    # ---- poll
    import inline
    b = None
    for x in crate.bodies:
        if "AwebJsonExtractFut" in x.path and x.path.endswith("::poll") and x.path == x.root:
            b = x
    fs = []
    ob = 8
    if b is None:
        fs.append(Finding("C20.AWEB", "AwebJsonExtractFut::poll", "not found (undecided)", "", undecided=True))
    else:
        v = View(inline.expand_local_helpers(crate, b))

        def is_poll(view, bb):
            return cname(view, bb) in ("futures::Future::poll", "std::future::Future::poll")
        f2, o2 = composition(crate, v, "C20.AWEB", is_poll, "AwebJson", extra_ok=("actix_web::web::Json::into_inner",))
        fs += f2
        ob += o2
        polls = [bb for bb, c in v.calls() if is_poll(v, bb)]
        if len(polls) == 1:
            p = polls[0]
            fut = strip_refs(canon(v, v.origin(v.blocks[p]["term"]["args"][0])))
            if not term_mentions(fut, lambda x: x[0] == "field" and strip_refs(x[1])[0] in ("param", "deref", "call", "field")):
                fs.append(und("C20.AWEB", v, "what is polled was not read (undecided)", p))
            # Pending propagated
            k, sbb, info, cur = follow_local_use(v, p, v.blocks[p]["term"]["dest"]["l"])
            pend = v.variant_target(info, "Pending") if k == "switch" else None
            if pend is None:
                for sb in sorted(v.reach):
                    i2 = v.switch_info(sb)
                    if i2 and i2["kind"] == "discr" and (i2.get("adt") or "").endswith("task::Poll") and i2["place"] is not None and \
                            mentions_call(canon(v, v.origin_place(i2["place"])), p):
                        pend = v.variant_target(i2, "Pending")
            # a future taken *out of* the extractor's state (`self.fut.take()`) lives in a local of this call: unless it is put
            # back on the Pending path it is dropped there, and the next poll has nothing to resume
            taken = term_mentions(fut, lambda x: x[0] == "call" and (call_name(v, x) or "") in ("std::option::Option::take", "std::mem::take", "std::mem::replace"))
            if taken and pend is not None:
                region = skeleton.dominated(v, pend)
                put_back = any(st["k"] == "assign" and st["place"]["p"] and any(pp["k"] == "deref" for pp in st["place"]["p"])
                               for x in region for st in v.blocks[x]["stmts"])
                if not put_back:
                    fs.append(fnd("C20.AWEB", v, "the framework future is taken out of the extractor's state before it is polled and not put back when it answers Pending: "
                                  "it is dropped with the request payload, and the next poll cannot resume it", p))
            okp = False
            if pend is not None:
                for bb2, path, var, ops, st in agg_results(v):
                    if path == "std::task::Poll" and var == "Pending" and st["place"]["l"] == 0 and bb2 in skeleton.dominated(v, pend):
                        okp = True
                if not okp:
                    fs.append(fnd("C20.AWEB", v, "Pending of the framework future is not propagated as Pending"))
            else:
                fs.append(und("C20.AWEB", v, "how Pending is handled was not read (undecided)"))
    res.add("C20.AWEB", ob, fs)
    # ---- query parameters
    b = find(crate, "AwebQueryParameter::<T, E>::from_query")
    fs = []
    ob = 6
    if b is None:
        fs.append(Finding("C20.AQUERY", "from_query", "not found (undecided)", "", undecided=True))
    else:
        v = View(inline.expand_local_helpers(crate, b))

        def is_q(view, bb):
            return cname(view, bb) == "actix_web::web::Query::from_query"
        f2, o2 = composition(crate, v, "C20.AQUERY", is_q, "AwebQueryParameter")
        fs += f2
        ob += o2
        q = [bb for bb, c in v.calls() if is_q(v, bb)]
        if len(q) == 1:
            if "serde_json::Value" not in v.callee(q[0]).full:
                fs.append(fnd("C20.AQUERY", v, "the query string is not decoded into serde_json::Value", q[0]))
            if strip_refs(canon(v, v.origin(v.blocks[q[0]]["term"]["args"][0]))) != ("param", 1):
                fs.append(fnd("C20.AQUERY", v, "the query string is altered before it is decoded", q[0]))
    res.add("C20.AQUERY", ob, fs)
    b = find(crate, "AwebQueryParameter<T, E> as actix_web::FromRequest>::from_request")
    fs = []
    if b is None:
        fs.append(Finding("C20.AQUERY", "AwebQueryParameter::from_request", "not found (undecided)", "", undecided=True))
    else:
        v = View(inline.expand_local_helpers(crate, b, keep=("actix_web::query_parameters::AwebQueryParameter::<T, E>::from_query",)))
        READY = ("actix_utils::future::ok", "actix_utils::future::err", "std::future::ready", "actix_utils::future::ready", "futures::future::ready", "futures::future::ok", "futures::future::err")
        f2, o2 = shape(v, {"actix_web::HttpRequest::query_string", "actix_web::query_parameters::AwebQueryParameter::from_query", "std::result::Result::map",
                           "std::result::Result::unwrap_or_else", "std::result::Result::map_or_else"} | set(READY), "C20.AQUERY")
        fs += f2
        fq = call_blocks(v, "actix_web::query_parameters::AwebQueryParameter::from_query")
        if len(fq) != 1:
            fs.append(und("C20.AQUERY", v, "from_query is not called exactly once: composition not read (undecided)"))
        else:
            a = canon(v, v.origin(v.blocks[fq[0]]["term"]["args"][0]))
            if not (a[0] == "call" and call_name(v, a) == "actix_web::HttpRequest::query_string" and strip_refs(a[3][0]) == ("param", 1)):
                fs.append(fnd("C20.AQUERY", v, "from_query does not receive the request's own query string", fq[0], fmt(a)))
            # what is returned: ready(Ok(v)) / ready(Err(e)) of from_query's own result, unchanged
            rets = [bb for bb in v.reach if v.blocks[bb]["term"]["k"] == "call" and v.blocks[bb]["term"]["dest"]["l"] == 0]
            okr = bool(rets)
            undec = False
            for r in rets:
                tm = canon(v, v.origin_call(r))
                nm = call_name(v, tm)
                if nm == "std::result::Result::unwrap_or_else" and tm[3][0][0] == "call" and call_name(v, tm[3][0]) == "std::result::Result::map" \
                        and tm[3][0][3][0][0] == "call" and tm[3][0][3][0][1] == fq[0]:
                    f_ok = tm[3][0][3][1]
                    f_err = tm[3][1]
                    if not (f_ok[0] == "fnconst" and f_ok[1].endswith("::ok") and f_err[0] == "fnconst" and f_err[1].endswith("::err")):
                        okr = False
                elif nm in READY and tm[3]:
                    want_var = "Ok" if nm.endswith("::ok") else "Err" if nm.endswith("::err") else None
                    for alt in v.alts(tm[3][0]):
                        alt = strip_refs(canon(v, alt))
                        if alt[0] == "field" and alt[1][0] == "call" and alt[1][1] == fq[0] and (want_var is None or alt[2] == want_var):
                            continue
                        if alt[0] == "call" and alt[1] == fq[0] and want_var is None:
                            continue
                        okr = False
                else:
                    undec = True
            if not okr:
                fs.append(fnd("C20.AQUERY", v, "the result of from_query is not returned as ready(Ok) / ready(Err) unchanged"))
            elif undec:
                fs.append(und("C20.AQUERY", v, "how the result of from_query is returned was not read (undecided)"))
    res.add("C20.AQUERY", 4, fs)
    # ---- ResponseError for JsonError
    fs = []
    b = find(crate, "impl actix_web::ResponseError for errors::json::JsonError>::status_code")
    if b is None:
        fs.append(Finding("C20.JSONERR", "status_code", "not found", ""))
    else:
        v = View(b)
        txt = v.b.dump()
        ok = False
        for bb in v.reach:
            for st in v.blocks[bb]["stmts"]:
                if st["k"] == "assign" and st["place"]["l"] == 0 and st["rv"]["k"] == "use" and st["rv"]["op"]["k"] == "const":
                    ok = st["rv"]["op"].get("int") == 400 or ("int" not in st["rv"]["op"] and "BAD_REQUEST" in st["rv"]["op"].get("s", ""))
        if not ok or any(v.blocks[x]["term"]["k"] == "switch" for x in v.reach):
            fs.append(fnd("C20.JSONERR", v, "the status of a JsonError is not the constant 400 BAD_REQUEST"))
    b = find(crate, "impl actix_web::ResponseError for errors::json::JsonError>::error_response")
    if b is None:
        fs.append(Finding("C20.JSONERR", "error_response", "not found", ""))
    else:
        v = View(b)
        rets = [bb for bb in v.reach if v.blocks[bb]["term"]["k"] == "call" and v.blocks[bb]["term"]["dest"]["l"] == 0]
        ok = False
        for r in rets:
            t = canon(v, v.origin_call(r))
            body_is_msg = term_mentions(t, lambda x: x[0] == "call" and call_name(v, x) == "std::string::ToString::to_string" and strip_refs(x[3][0]) == ("param", 1))
            status_is_own = term_mentions(t, lambda x: x[0] == "call" and (call_name(v, x) or "").endswith("ResponseError::status_code") and strip_refs(x[3][0]) == ("param", 1))
            ok = body_is_msg and status_is_own and call_name(v, t).endswith("body")
        if not ok or any(v.blocks[x]["term"]["k"] == "switch" for x in v.reach):
            fs.append(fnd("C20.JSONERR", v, "the response of a JsonError is not built from its own status and its message as body"))
    res.add("C20.JSONERR", 2, fs)


def axum_rules(crate, res):
    fs = []
    ob = 8
    import inline
    b = find(crate, "AxumJson<T, E> as axum::extract::FromRequest<S>>::from_request::{closure#0}")
    outer = find(crate, "AxumJson<T, E> as axum::extract::FromRequest<S>>::from_request", kind="AssocFn")
    if b is None or outer is None:
        fs.append(Finding("C20.AXUM", "AxumJson::from_request", "not found (undecided)", "", undecided=True))
    else:
        v = View(inline.expand_local_helpers(crate, b))

        def is_await(view, bb):
            return cname(view, bb) == "std::future::Future::poll"
        f2, o2 = composition(crate, v, "C20.AXUM", is_await, "AxumJson", extra_ok=("axum::extract::FromRequest::from_request",))
        fs += f2
        ob += o2
        fr = call_blocks(v, "axum::extract::FromRequest::from_request")
        if len(fr) != 1 or "axum::Json<serde_json::Value>" not in v.callee(fr[0]).full:
            fs.append(fnd("C20.AXUM", v, "the request is not extracted with axum's own Json<serde_json::Value>"))
        else:
            a = [strip_refs(canon(v, v.origin(x))) for x in v.blocks[fr[0]]["term"]["args"]]
            if not (a[0][0] == "field" and a[0][1] == ("param", 1) and a[0][3] == "req" and a[1][0] == "field" and a[1][1] == ("param", 1) and a[1][3] == "state"):
                fs.append(fnd("C20.AXUM", v, "the framework extractor does not receive the request and state unchanged", fr[0], fmt(a[0])))
            polls = call_blocks(v, "std::future::Future::poll")
            if len(polls) == 1 and not mentions_call(canon(v, v.origin(v.blocks[polls[0]]["term"]["args"][0])), fr[0]):
                fs.append(fnd("C20.AXUM", v, "what is awaited is not the framework extractor's future"))
        # a success wraps deserr's value in AxumJson
        for bb2, path, var, ops, st in agg_results(v):
            if path.endswith("AxumJson") and ops:
                d_ = call_blocks(v, "deserialize")
                vs = v.alts(v.origin(st["rv"]["ops"][0]))
                if d_ and not all(term_mentions(canon(v, a_), lambda y: y[0] == "call" and y[1] == d_[0]) for a_ in vs):
                    fs.append(fnd("C20.AXUM", v, "success is not exactly the wrapped value deserr produced", bb2))
    res.add("C20.AXUM", ob, fs)
    # ---- From impls and IntoResponse of the rejection
    fs = []
    for sub, variant in (("AxumJsonRejection<E> as std::convert::From<E>>::from", "DeserrError"),
                         ("AxumJsonRejection<E> as std::convert::From<axum::extract::rejection::JsonRejection>>::from", "JsonRejection")):
        b = find(crate, sub)
        if b is None:
            fs.append(Finding("C20.AXUM", sub, "not found", ""))
            continue
        v = View(b)
        aggs = [x for x in agg_results(v) if x[1].endswith("AxumJsonRejection")]
        if not (len(aggs) == 1 and aggs[0][2] == variant and strip_refs(aggs[0][3][0]) == ("param", 1)) or any(v.blocks[x]["term"]["k"] in ("switch", "call") for x in v.reach):
            fs.append(fnd("C20.AXUM", v, "the conversion does not simply wrap its argument in %s" % variant))
    b = find(crate, "AxumJsonRejection<E> as axum::response::IntoResponse>::into_response")
    if b is None:
        fs.append(Finding("C20.AXUM", "AxumJsonRejection::into_response", "not found", ""))
    else:
        v = View(b)
        info = None
        for bb in sorted(v.reach):
            i2 = v.switch_info(bb)
            if i2 and i2["kind"] == "discr" and (i2.get("adt") or "").endswith("AxumJsonRejection"):
                info = i2
        ok = info is not None
        if ok:
            for var in ("DeserrError", "JsonRejection"):
                t = v.variant_target(info, var)
                reg = skeleton.dominated(v, t) if t is not None else set()
                calls = [x for x in reg if v.callee(x) is not None and cname(v, x) == "axum::response::IntoResponse::into_response"]
                if len(calls) != 1:
                    ok = False
                    continue
                a = strip_refs(canon(v, v.origin(v.blocks[calls[0]]["term"]["args"][0])))
                if not (a[0] == "field" and a[2] == var and strip_refs(a[1]) == ("param", 1)) or v.blocks[calls[0]]["term"]["dest"]["l"] != 0:
                    ok = False
        if not ok:
            fs.append(fnd("C20.AXUM", v, "a rejection's response is not exactly the response of the error it wraps"))
    res.add("C20.AXUM", 3, fs)
    # ---- IntoResponse for JsonError
    fs = []
    b = find(crate, "impl axum::response::IntoResponse for errors::json::JsonError>::into_response")
    if b is None:
        fs.append(Finding("C20.JSONERR", "JsonError::into_response", "not found", ""))
    else:
        v = View(b)
        rets = [bb for bb in v.reach if v.blocks[bb]["term"]["k"] == "call" and v.blocks[bb]["term"]["dest"]["l"] == 0]
        ok = False
        for r in rets:
            t = canon(v, v.origin_call(r))
            if call_name(v, t) == "axum::response::IntoResponse::into_response" and t[3] and t[3][0][0] == "agg" and t[3][0][1] == "tuple" and len(t[3][0][2]) == 2:
                st_, body_ = t[3][0][2]
                ok = st_[0] == "const" and (st_[2] == 400 or "BAD_REQUEST" in str(st_[2])) and body_[0] == "call" and call_name(v, body_) == "std::string::ToString::to_string" and strip_refs(body_[3][0]) == ("param", 1)
        if not ok or any(v.blocks[x]["term"]["k"] == "switch" for x in v.reach):
            f_ = fnd("C20.JSONERR", v, "a JsonError is not answered with (400 BAD_REQUEST, its message)")
            # built another way (body's response first, then `*status_mut() = BAD_REQUEST`): the message is still taken from
            # the error and the only status mentioned is 400 - how they are put together was not read
            import json as _json
            blob = _json.dumps([v.blocks[x] for x in sorted(v.reach)])
            says_400 = "BAD_REQUEST" in blob or "(400" in blob or " 400" in blob
            other_status = any(k_ in blob for k_ in ("INTERNAL_SERVER_ERROR", "UNPROCESSABLE_ENTITY", "NOT_FOUND", "StatusCode::OK", "FORBIDDEN", "CONFLICT"))
            msg_from_self = any(c2.fn is not None and c2.name == "to_string" and strip_refs(canon(v, v.origin(v.blocks[b2]["term"]["args"][0]))) == ("param", 1) for b2, c2 in v.calls())
            if not ok and says_400 and not other_status and msg_from_self and not any(v.blocks[x]["term"]["k"] == "switch" for x in v.reach):
                f_.what += ": the response is not the `(status, body)` tuple form; 400 and the error's own message are used, how was not read: not recognised (undecided)"
                f_.undecided = True
            fs.append(f_)
    res.add("C20.JSONERR", 1, fs)


def run(ctx):
    res = PropResult("C20")
    res.level = "proof"
    a = ctx.lib("actix")["deserr"]
    x = ctx.lib("axum")["deserr"]
    actix_rules(a, res)
    axum_rules(x, res)
    res.samples = [{"extractor": "AwebJsonExtractFut::poll", "shape": "poll(fut) -> Pending | Ready(Err(e)) => Err(e) | Ready(Ok(j)) => deserialize(j.into_inner()) -> Ok(AwebJson::new(d)) | Err(e)?"},
                   {"extractor": "AwebQueryParameter::from_query", "shape": "Query::<Value>::from_query(q)? -> deserialize(value.0) -> Ok(wrap) | Err(e)?"},
                   {"extractor": "AxumJson::from_request", "shape": "Json::<Value>::from_request(req, state).await? -> deserialize(value)? -> Ok(AxumJson(data, PhantomData))"}]
    res.analysed = {"configs": ["lib/actix", "lib/axum"], "bodies": 11}
    res.trusted_base = ["rustc nightly MIR construction (async bodies before state-machine lowering)", "mirfacts extractor", "rules/p_c20.py",
                        "actix-web / axum: their own JSON and query extractors, `?`/From conversions into actix_web::Error, IntoResponse of tuples"]
    res.assumptions = ["the frameworks' own behaviour (content-type handling, limits, decoding) is not analysed"]
    res.explanation = ("Each extractor body may only call the framework extractor, deserr::deserialize::<T, serde_json::Value, E>, its wrapper constructor and ?/poll plumbing, and may only branch on the outcome of those calls. "
                       "Provenance: the framework extractor gets the request unchanged, deserialize gets exactly the extracted document, Ok is exactly the wrapped deserr value, every error is the framework's or deserr's own value passed on by `?` / From. "
                       "JsonError answers 400 with its message in both frameworks; the axum rejection wraps and delegates per variant.")
    return res
