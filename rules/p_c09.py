"""C09 — see derive_prop.TEXT and DESIGN §5."""
import derive_prop


def run(ctx):
    res = derive_prop.run_for(ctx, "C09")
    extra(ctx, res)
    return res


def extra(ctx, res):
    """C09.G1 (for all derive inputs): the fields are put 'non-skipped first' with the *stable* sort_by_key, so that the
    accepted-keys list handed to UnknownKey / the user's function keeps the declaration order for any number of fields."""
    from analysis import View
    from lin import Finding
    crate = ctx.libcrate("deserr_internal")
    nf = None
    for b in crate.bodies:
        if b.path == "parse_type::NamedFieldsInfo::parse":
            nf = b
    fs = []
    if nf is None:
        fs.append(Finding("C09.G1", "NamedFieldsInfo::parse", "not found (undecided)", "", undecided=True))
    else:
        v = View(nf)
        sorts = [(bb, c) for bb, c in v.calls() if c.fn is not None and c.name and c.name.startswith("sort")]
        for bb, c in sorts:
            if c.name not in ("sort_by_key", "sort_by", "sort", "sort_by_cached_key"):
                fs.append(Finding("C09.G1", nf.path, "fields are reordered with %s, which does not keep the declaration order of the non-skipped fields (accepted list of unknown-key reports)" % c.name,
                                  v.blocks[bb]["term"].get("at", "")))
    res.add("C09.G1", 1, fs)
