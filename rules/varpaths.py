"""Path-sensitive variant tracking for loop-free code: is the Option / Result handed to `unwrap` at a given block
`Some` / `Ok` on every path that reaches it?

The state per path is non-relational and finite: for every local the enum variant it is known to hold, and for every
reference local the local it points to (`r = &mut x`, moves and reborrows of r).  Relations such as "a is None only when
the accumulator is Some" need no relational domain because paths are never merged: the path on which the child failed
has error = Some and leaves through the Err edge of the final `if let Some(e) = error` before any unwrap.

always_variant(view, bb, want=("Some","Ok")) -> True | False | None (None: loops / too many paths / not understood)"""
from analysis import erase_generics

LIMIT = 40000
BRANCH = {"Ok": "Continue", "Some": "Continue", "Err": "Break", "None": "Break"}


def _whole(op):
    return op["k"] in ("move", "copy") and not op["place"]["p"]


def _agg_value(rv, var):
    child = None
    if rv["ops"] and _whole(rv["ops"][0]):
        child = var.get(rv["ops"][0]["place"]["l"])
    elif rv["ops"] and rv["ops"][0]["k"] in ("move", "copy") and _payload_proj(rv["ops"][0]["place"]) is not None:
        src_l, vname = _payload_proj(rv["ops"][0]["place"])
        sv = var.get(src_l)
        if sv is not None and sv[0] == vname:
            child = sv[1]
    return (rv["variant"], child)


def _field_proj(place):
    """(local, i) for a place `local.i` (one plain field projection: tuple / closure environment)"""
    p = place["p"]
    if len(p) == 1 and p[0]["k"] == "field":
        return place["l"], p[0].get("i")
    return None


def _operand_value(op, var):
    """abstract value of an operand: a whole local, the payload `(x as V).0`, or a field `x.i` of a known tuple / environment"""
    if op["k"] not in ("move", "copy"):
        return None
    if _whole(op):
        return var.get(op["place"]["l"])
    pp = _payload_proj(op["place"])
    if pp is not None:
        sv = var.get(pp[0])
        if sv is not None and sv[0] == pp[1]:
            return sv[1]
        return None
    fp = _field_proj(op["place"])
    if fp is not None:
        sv = var.get(fp[0])
        if sv is not None and sv[0] == "<tuple>" and fp[1] is not None and fp[1] < len(sv[1]):
            return sv[1][fp[1]]
    return None


def _payload_proj(place):
    """(local, variant) for a place `(local as Variant).0`"""
    p = place["p"]
    if len(p) == 2 and p[0]["k"] == "downcast" and p[1]["k"] == "field" and p[1].get("i") == 0:
        return place["l"], p[0]["variant"]
    return None


def always_variant(view, target_bb, want=("Some", "Ok")):
    blocks = view.blocks
    steps = [0]
    verdict = {"reached": False, "bad": False, "gave_up": False}
    loop_headers = set(h for h, _ in view.loops())
    if loop_headers:
        # only loop-free prefixes are explored: give up when the target sits in or after a loop
        for h, body in view.loops():
            if target_bb in body or target_bb in view.reachable(h):
                return None

    def run(bb, var, ref, seen):
        while True:
            steps[0] += 1
            if steps[0] > LIMIT:
                verdict["gave_up"] = True
                return
            if bb in seen:
                verdict["gave_up"] = True
                return
            seen = seen | {bb}
            blk = blocks[bb]
            for st in blk["stmts"]:
                if st["k"] != "assign":
                    continue
                pl = st["place"]
                rv = st["rv"]
                if pl["p"]:
                    # write through a reference / into a field
                    if len(pl["p"]) == 1 and pl["p"][0]["k"] == "deref" and pl["l"] in ref:
                        tgt = ref[pl["l"]]
                        if rv["k"] == "agg" and rv.get("ak") == "adt" and rv.get("variant"):
                            var[tgt] = _agg_value(rv, var)
                        elif rv["k"] == "use" and _whole(rv["op"]) and rv["op"]["place"]["l"] in var:
                            var[tgt] = var[rv["op"]["place"]["l"]]
                        else:
                            var.pop(tgt, None)
                    continue
                l = pl["l"]
                if rv["k"] == "agg" and rv.get("ak") == "adt" and rv.get("variant"):
                    var[l] = _agg_value(rv, var)
                    ref.pop(l, None)
                elif rv["k"] == "agg" and rv.get("ak") in ("tuple", "closure"):
                    var[l] = ("<tuple>", tuple(_operand_value(o, var) for o in rv["ops"]))
                    ref.pop(l, None)
                elif rv["k"] == "use" and rv["op"]["k"] in ("move", "copy") and _field_proj(rv["op"]["place"]) is not None:
                    val = _operand_value(rv["op"], var)
                    if val is not None:
                        var[l] = val
                    else:
                        var.pop(l, None)
                    ref.pop(l, None)
                elif rv["k"] == "use" and rv["op"]["k"] in ("move", "copy") and _payload_proj(rv["op"]["place"]) is not None:
                    # `x = move (y as V).0`
                    src_l, vname = _payload_proj(rv["op"]["place"])
                    sv = var.get(src_l)
                    if sv is not None and sv[0] == vname and sv[1] is not None:
                        var[l] = sv[1]
                    else:
                        var.pop(l, None)
                    ref.pop(l, None)
                elif rv["k"] == "use" and _whole(rv["op"]):
                    s = rv["op"]["place"]["l"]
                    if s in var:
                        var[l] = var[s]
                    else:
                        var.pop(l, None)
                    if s in ref:
                        ref[l] = ref[s]
                    else:
                        ref.pop(l, None)
                elif rv["k"] == "ref":
                    rp = rv["place"]
                    var.pop(l, None)
                    if not rp["p"]:
                        ref[l] = rp["l"]
                    elif len(rp["p"]) == 1 and rp["p"][0]["k"] == "deref" and rp["l"] in ref:
                        ref[l] = ref[rp["l"]]
                    else:
                        ref.pop(l, None)
                elif rv["k"] == "discr":
                    var.pop(l, None)
                    ref.pop(l, None)
                else:
                    var.pop(l, None)
                    ref.pop(l, None)
            t = blk["term"]
            k = t["k"]
            if bb == target_bb:
                verdict["reached"] = True
                a = t["args"][0] if k == "call" and t["args"] else None
                ok = False
                if a is not None:
                    ok = (_operand_value(a, var) or (None,))[0] in want
                if not ok:
                    verdict["bad"] = True
                return
            if k in ("return", "unreachable", "resume"):
                return
            if k == "goto":
                bb = t["target"]
                continue
            if k in ("drop", "assert"):
                bb = t["target"]
                continue
            if k == "call":
                c = view.callee(bb)
                dest = t["dest"]
                base = erase_generics(c.path) if c is not None and c.fn is not None and c.path else ""
                newv = None
                if c is not None and c.fn is not None and c.name == "take" and "Option" in (c.full or "") and t["args"] and _whole(t["args"][0]) and t["args"][0]["place"]["l"] in ref:
                    tgt = ref[t["args"][0]["place"]["l"]]
                    newv = var.get(tgt)
                    var[tgt] = ("None", None)
                elif c is not None and c.fn is not None and c.name == "branch" and "Try" in (c.full or "") and t["args"] and _whole(t["args"][0]):
                    av = var.get(t["args"][0]["place"]["l"])
                    if av is not None and av[0] in ("Ok", "Some"):
                        newv = ("Continue", av[1])
                    elif av is not None and av[0] in ("Err", "None"):
                        newv = ("Break", av)
                else:
                    # anything handed a reference to a tracked local may change it
                    for a in t["args"]:
                        if _whole(a) and a["place"]["l"] in ref:
                            var.pop(ref[a["place"]["l"]], None)
                if not dest["p"]:
                    if newv is not None:
                        var[dest["l"]] = newv
                    else:
                        var.pop(dest["l"], None)
                    ref.pop(dest["l"], None)
                if t.get("target") is None:
                    return
                bb = t["target"]
                continue
            if k == "switch":
                info = view.switch_info(bb)
                if info["kind"] == "discr" and info["place"] is not None:
                    p = info["place"]
                    subj = None
                    if not p["p"]:
                        subj = p["l"]
                    elif len(p["p"]) == 1 and p["p"][0]["k"] == "deref" and p["l"] in ref:
                        subj = ref[p["l"]]
                    if subj is not None and subj in var:
                        tgt = view.variant_target(info, var[subj][0])
                        if tgt is None:
                            return
                        bb = tgt
                        continue
                    for lb, tgt in info["edges"]:
                        if tgt in view.unreach:
                            continue
                        v2 = dict(var)
                        if subj is not None:
                            if lb is not None:
                                v2[subj] = (lb, None)
                            else:
                                others = info.get("others") or []
                                if len(others) == 1:
                                    v2[subj] = (others[0], None)
                                else:
                                    v2.pop(subj, None)
                        run(tgt, v2, dict(ref), seen)
                        if verdict["gave_up"]:
                            return
                    return
                for s in set(view.succ[bb]):
                    run(s, dict(var), dict(ref), seen)
                    if verdict["gave_up"]:
                        return
                return
            # yield etc.
            verdict["gave_up"] = True
            return

    run(0, {}, {}, frozenset())
    if verdict["gave_up"]:
        return None
    if not verdict["reached"]:
        return None
    return not verdict["bad"]
