"""C01.LIN — linearity of error-carrying values.

Error values of a generic `E` (no Clone/Copy bound) can only be moved.  A value that
may hold an error ("HOLD") must end in the function's return place, in the `self_`/`other`
argument of a report site, or in a call whose result carries it on.  Dropping, overwriting
or leaking a HOLD value loses a report; this is a forward typestate over `mir_built`.
"""
from analysis import View, erase_generics, norm_path

# external functions that pass an error-carrying argument on into their result
# (or into the closure they are given) without dropping it
LINEAR_EXTERNAL = {
    "std::result::Result::map",
    "std::result::Result::map_err",
    "std::result::Result::or_else",
    "std::result::Result::and_then",
    "std::ops::Try::branch",
    "std::ops::FromResidual::from_residual",
    "std::convert::From::from",
    "std::convert::Into::into",
    "std::ops::FnOnce::call_once",
    "std::ops::FnMut::call_mut",
    "std::ops::Fn::call",
    "std::option::Option::map",
    "std::option::Option::ok_or_else",
    "std::option::Option::ok_or",
    # the content goes to the function given (as for `map`) or the default is returned when there is none
    "std::option::Option::map_or",
    "std::option::Option::map_or_else",
    "std::option::Option::and_then",
    "std::result::Result::map_or_else",
    "std::result::Result::unwrap_or_else",
    "std::future::IntoFuture::into_future",
    "std::task::Poll::Ready",
    "std::hint::must_use",
    "std::convert::identity",
}
# functions that take `&mut Option<X>` and move the content out: (resets the referent)
TAKERS = {"std::option::Option::take", "std::mem::take", "std::mem::replace"}

KNOWN_VARIANT_ARGS = {
    # adt path -> {variant: [indices of generic args that make up the payload]}
    "std::option::Option": {"None": [], "Some": [0]},
    "std::result::Result": {"Ok": [0], "Err": [1]},
    "std::ops::ControlFlow": {"Continue": [1], "Break": [0]},
    "std::task::Poll": {"Ready": [0], "Pending": []},
}


class Carry:
    """which types can own an error value of one of the types X (type indices)"""

    def __init__(self, crate, X):
        self.crate = crate
        self.X = set(X)
        self.memo = {}

    def carries(self, ti):
        if ti in self.memo:
            return self.memo[ti]
        self.memo[ti] = False
        t = self.crate.types[ti]
        r = False
        if ti in self.X:
            r = True
        else:
            k = t["k"]
            if k == "adt":
                if t["path"] == "std::marker::PhantomData":
                    r = False
                else:
                    r = any(isinstance(a, int) and self.carries(a) for a in t["args"])
            elif k == "tuple":
                r = any(self.carries(a) for a in t["ts"])
            elif k in ("array", "slice"):
                r = self.carries(t["t"])
            elif k == "closure":
                r = any(self.carries(a) for a in t.get("upvars", []))
            else:
                r = False  # refs, pointers, params, aliases, fn items do not own an error
        self.memo[ti] = r
        return r

    def variant_carries(self, ti, variant):
        t = self.crate.types[ti]
        if t["k"] != "adt":
            return True
        kv = KNOWN_VARIANT_ARGS.get(t["path"])
        if kv is None or variant not in kv:
            return True
        args = [a for a in t["args"] if isinstance(a, int)]
        return any(self.carries(args[i]) for i in kv[variant] if i < len(args))


def error_types(view):
    """type indices of the error types of this body"""
    b = view.b
    crate = b.crate
    X = set()
    rt = crate.types[b.locals[0]["ty"]]
    if rt["k"] == "adt" and rt["path"] == "std::result::Result":
        args = [a for a in rt["args"] if isinstance(a, int)]
        if len(args) == 2:
            X.add(args[1])
    for l in b.locals:
        t = crate.types[l["ty"]]
        if t["k"] == "adt" and t["path"] == "std::ops::ControlFlow":
            args = [a for a in t["args"] if isinstance(a, int)]
            if len(args) == 2 and args[0] == args[1]:
                X.add(args[0])
    for bb, c in view.calls():
        tr = c.deserr_trait()
        if tr in ("DeserializeError", "MergeWithError") and c.name in ("error", "merge"):
            if c.self_ty is not None:
                X.add(c.self_ty)
            if tr == "MergeWithError":
                term = view.blocks[bb]["term"]
                if len(term["args"]) >= 2:
                    a = term["args"][1]
                    if a["k"] in ("copy", "move"):
                        X.add(a["place"]["ty"])
    # never treat () / Infallible as error types
    X = {x for x in X if crate.types[x]["s"] not in ("()", "!", "std::convert::Infallible")}
    return X


class Finding:
    """`undecided=True`: the rule did not find the construct it reasons about (the code was restructured into a shape
    its recogniser does not know).  That is no verdict either way: it is reported as UNDECIDED and recorded in the
    evidence, but it is not a violation - a violation is only ever a recognised construct that breaks the rule."""

    def __init__(self, rule, body, what, at, detail="", undecided=False):
        self.rule = rule
        self.body = body
        self.what = what
        self.at = at
        self.detail = detail
        self.undecided = undecided

    def key(self):
        return "%s | %s | %s" % (self.rule, self.body, self.what)

    def __repr__(self):
        return "%s @ %s %s" % (self.key(), self.at, self.detail)


def local_desc(b, l):
    nm = b.lname(l)
    return "%s:%s" % (nm if nm else "tmp", b.ltys(l))


def analyse(view, local_crates, X=None, allow_extra=()):
    """Run the linearity typestate. Returns (findings, stats)."""
    b = view.b
    crate = b.crate
    if X is None:
        X = error_types(view)
    carry = Carry(crate, X)
    tracked = [i for i, l in enumerate(b.locals) if carry.carries(l["ty"])]
    tracked_set = set(tracked)
    findings = {}
    stats = {"tracked_locals": len(tracked), "consumptions": 0, "drops_checked": 0, "returns": 0,
             "refinements": 0}
    if not tracked:
        return [], stats

    def report(rule, what, bb, detail=""):
        at = view.blocks[bb]["term"].get("at", "")
        f = Finding(rule, b.path, what, at, detail)
        findings.setdefault(f.key(), f)

    def place_carries(p):
        return carry.carries(p["ty"])

    def consume(state, op, bb):
        """operand is moved/copied: returns whether a HOLD value flows out"""
        if op["k"] not in ("move", "copy"):
            return False
        p = op["place"]
        l = p["l"]
        if l not in tracked_set or not place_carries(p):
            return False
        # reading through a reference is not a move of the owner
        if any(e["k"] == "deref" for e in p["p"]):
            return False
        was = l in state
        if was:
            stats["consumptions"] += 1
        state.discard(l)
        return was

    def assign_dest(state, place, hold, bb):
        l = place["l"]
        if l not in tracked_set:
            if hold and not any(e["k"] == "deref" for e in place["p"]):
                report("C01.LIN", "error value stored into non-carrying local %s" % local_desc(b, l), bb)
            return
        if any(e["k"] == "deref" for e in place["p"]):
            return
        if not place["p"]:
            if l in state and l != 0:
                report("C01.LIN", "local %s overwritten while it may hold an error" % local_desc(b, l), bb)
            if hold:
                state.add(l)
            else:
                state.discard(l)
        else:
            if hold:
                state.add(l)

    def rv_transfer(state, st, bb):
        rv = st["rv"]
        k = rv["k"]
        hold = False
        if k == "use":
            hold = consume(state, rv["op"], bb)
        elif k == "agg":
            for o in rv["ops"]:
                if consume(state, o, bb):
                    hold = True
        elif k == "cast":
            hold = consume(state, rv["op"], bb)
        elif k == "repeat":
            hold = consume(state, rv["op"], bb)
        elif k in ("binop",):
            consume(state, rv["a"], bb)
            consume(state, rv["b"], bb)
        elif k == "unop":
            consume(state, rv["a"], bb)
        assign_dest(state, st["place"], hold, bb)

    def ref_target_local(view_, op):
        """if operand is `&mut local` (through temporaries), return that local"""
        t = view_.origin(op)
        n = 0
        while t[0] == "ref" and n < 4:
            t = t[1]
            n += 1
        if t[0] == "multi" or t[0] == "param":
            return t[1]
        return None

    # ---- dataflow
    n = view.n
    IN = {0: frozenset(l for l in tracked if 1 <= l <= b.arg_count)}
    work = [0]
    edge_out = {}

    def flow_block(bb, st_in):
        state = set(st_in)
        blk = view.blocks[bb]
        for st in blk["stmts"]:
            if st["k"] == "assign":
                rv_transfer(state, st, bb)
            elif st["k"] == "dead":
                l = st["l"]
                if l in state and l != 0:
                    stats["drops_checked"] += 1
                    report("C01.LIN", "local %s goes out of scope while it may hold an error" % local_desc(b, l), bb)
                    state.discard(l)
        t = blk["term"]
        k = t["k"]
        outs = {}
        if k == "call":
            c = view.callee(bb)
            held_args = []
            for i, a in enumerate(t["args"]):
                if consume(state, a, bb):
                    held_args.append(i)
            dest = t["dest"]
            dest_c = place_carries(dest)
            if held_args:
                tr = c.deserr_trait()
                base = c.base() or ""
                if c.fn is None:
                    ok = True  # indirect call through a closure value / fn pointer: the closure body is analysed
                elif tr in ("DeserializeError", "MergeWithError") and c.name in ("error", "merge"):
                    ok = True
                elif c.krate in local_crates:
                    ok = True  # analysed on its own
                elif base in LINEAR_EXTERNAL or base in allow_extra:
                    ok = True
                elif c.trait is not None and erase_generics(c.trait) + "::" + (c.name or "") in LINEAR_EXTERNAL:
                    ok = True
                else:
                    ok = False
                if ok and not dest_c and not (c.fn is None):
                    report("C01.LIN", "error value passed to %s whose result cannot carry it" % base, bb)
                elif not ok:
                    report("C01.LIN", "error value consumed by %s (not a known error-preserving function)" % base, bb)
            # &mut takers
            if c.fn is not None and (c.base() in TAKERS) and t["args"]:
                tl = ref_target_local(view, t["args"][0])
                if tl is not None and tl in tracked_set:
                    state.discard(tl)
            if c.fn is not None and c.base() in ("std::mem::drop", "std::mem::forget") and held_args:
                pass  # already reported above (result cannot carry)
            # a carrying result may hold an error
            assign_hold = dest_c
            # Clone of an error-carrying value
            if c.fn is not None and (c.name in ("clone", "to_owned", "cloned", "clone_from")) and dest_c:
                report("C01.LIN", "error-carrying value duplicated by %s" % (c.base()), bb)
            l = dest["l"]
            if l in tracked_set and not any(e["k"] == "deref" for e in dest["p"]):
                if not dest["p"]:
                    if l in state and l != 0:
                        report("C01.LIN", "local %s overwritten while it may hold an error" % local_desc(b, l), bb)
                    if assign_hold:
                        state.add(l)
                    else:
                        state.discard(l)
                elif assign_hold:
                    state.add(l)
            if t["target"] is not None:
                outs[t["target"]] = frozenset(state)
        elif k == "drop":
            p = t["place"]
            l = p["l"]
            if l in tracked_set and not p["p"]:
                stats["drops_checked"] += 1
                if l in state and l != 0:
                    report("C01.LIN", "local %s dropped while it may hold an error" % local_desc(b, l), bb)
                    lt = b.lty(l)
                    if lt["k"] == "adt" and not lt["path"].startswith(("std::", "core::", "alloc::")):
                        # a struct of the library itself that keeps the accumulated error in a field: the typestate is not
                        # field-sensitive (the error may have been moved out of the field before the rest is dropped)
                        for f_ in findings.values():
                            if f_.at == view.blocks[bb]["term"].get("at", "") and "dropped while" in f_.what:
                                f_.undecided = True
                                if "not recognised" not in f_.what:
                                    f_.what += " - a struct of the library with the error in a field; field-wise moves are not read: not recognised (undecided)"
                state.discard(l)
            outs[t["target"]] = frozenset(state)
        elif k == "switch":
            info = view.switch_info(bb)
            refined = False
            if info["kind"] == "discr" and info["place"] is not None and not info["place"]["p"] \
                    and info["place"]["l"] in tracked_set:
                l = info["place"]["l"]
                ti = b.locals[l]["ty"]
                for lb, tgt in info["edges"]:
                    s2 = set(state)
                    if lb is not None:
                        if not carry.variant_carries(ti, lb):
                            s2.discard(l)
                            stats["refinements"] += 1
                    else:
                        others = info["others"] or []
                        if others and all(not carry.variant_carries(ti, o) for o in others):
                            s2.discard(l)
                            stats["refinements"] += 1
                    prev = outs.get(tgt)
                    outs[tgt] = frozenset(s2) if prev is None else (prev | frozenset(s2))
                refined = True
            elif info["kind"] == "discr" and info["place"] is not None and info["place"]["l"] in tracked_set and len(info["place"]["p"]) == 2 \
                    and info["place"]["p"][0]["k"] == "downcast" and info["place"]["p"][1]["k"] == "field" and info["place"].get("ty") is not None:
                # `match x { Continue(None) => .., Continue(Some(e)) | Break(e) => .. }`: the discriminant of `(x as V).0` is only
                # read where x is V; on the edge where that payload is a variant without an error (None), x holds none either
                l = info["place"]["l"]
                outer_v = info["place"]["p"][0].get("variant")
                fields_of_v = None
                lt_ = b.lty(l)
                adt_ = crate.adts.get(lt_.get("path")) if lt_["k"] == "adt" else None
                if adt_:
                    for vv in adt_["variants"]:
                        if vv["name"] == outer_v:
                            fields_of_v = len(vv["fields"])
                ti = info["place"]["ty"]
                for lb, tgt in info["edges"]:
                    s2 = set(state)
                    if fields_of_v == 1:
                        if lb is not None and not carry.variant_carries(ti, lb):
                            s2.discard(l)
                            stats["refinements"] += 1
                        elif lb is None and (info["others"] or []) and all(not carry.variant_carries(ti, o) for o in info["others"]):
                            s2.discard(l)
                            stats["refinements"] += 1
                    prev = outs.get(tgt)
                    outs[tgt] = frozenset(s2) if prev is None else (prev | frozenset(s2))
                refined = True
            if not refined:
                for s in view.succ[bb]:
                    outs[s] = frozenset(state)
        elif k == "return":
            stats["returns"] += 1
            for l in sorted(state):
                if l != 0:
                    report("C01.LIN", "local %s may still hold an error at return" % local_desc(b, l), bb)
        elif k in ("goto", "assert", "yield"):
            if k == "yield":
                consume(state, t["value"], bb)
            for s in view.succ[bb]:
                outs[s] = frozenset(state)
        return outs

    iters = 0
    while work:
        bb = work.pop()
        iters += 1
        if iters > 20000:
            report("C01.LIN", "dataflow did not converge", bb)
            break
        outs = flow_block(bb, IN[bb])
        for tgt, st in outs.items():
            if tgt in view.unreach:
                continue
            old = IN.get(tgt)
            new = st if old is None else (old | st)
            if new != old:
                IN[tgt] = new
                if tgt not in work:
                    work.append(tgt)
    stats["blocks"] = len(IN)
    return list(findings.values()), stats
