#!/usr/bin/env python3
"""Regenerates /verif/MANIFEST.json from the table below (one place to edit)."""
import json
import os
import sys
sys.path.insert(0, os.path.dirname(os.path.abspath(__file__)))

VERIF = os.path.dirname(os.path.dirname(os.path.abspath(__file__)))

TB = "trusted: rustc nightly MIR construction, the mirfacts extractor, the Python rule engine; a rule that does not recognise the construct it reasons about (code restructured beyond its recogniser) reports UNDECIDED in the evidence instead of a verdict; private helpers and closure arguments are expanded at their call sites before the rules run"

CHECKS = {
    "C01": ("proof", "linearity typestate (ownership dataflow) of error-carrying values over type-checked MIR",
            "For every Deserr impl of the library (generic MIR: all V, E, payloads, answer sequences) and every derive-catalogue entry, no value that may hold an error is dropped, overwritten, duplicated or leaked: it reaches the return place, a report site's self_/other, or an error-preserving call. Hence Ok implies no report and Err carries every report once.",
            TB + "; std Result/Try adaptors pass errors on; the error type keeps what it is handed; derived code per catalogue entry; unwinding ignored", "§5 C01"),
    "C02": ("proof", "CFG rules on MIR: loop exits, fault-branch rejoin, late accumulator test, placement of unconditional stops",
            "Decides the control-structure clause for all inputs: in the keep-going graph (Break edges removed) payload loops end only on exhaustion, a failing child/key/conversion never skips examination its success reaches, the accumulator is inspected only after all examination and is only ever replaced by the answer it was handed to (never reset), unconditional stops sit before or after the examination.",
            TB + "; which positions are faults is C05/C06; derived code per catalogue entry", "§5 C02"),
    "C03": ("proof", "path-sensitive stop-region walk from every Break edge / collapsed report site over MIR",
            "From every Break edge and after every take_cf_content-collapsed site all feasible paths return Err(that error) without loop, child call, iterator step, payload access, user call or new report (merges only as hand-over); no report is made inside the function of an iterator consumer that always runs to the end (fold / for_each); a closure driving try_fold does not answer Continue on a stop path. Built-in error types answer Break only.",
            TB + "; holds together with C02's rules; derived code per catalogue entry", "§5 C03"),
}

CHECKS["C04"] = ("proof", "provenance terms over MIR: each location is tied to the iterator step / input its value came from",
                 "For all inputs: every child call's location is push_key/push_index of the container's own location with the key/index of the very iterator step that produced the child's value (enumerate counter; constant ordinal in unrolled code), hand-overs are located where the error came from, reports about the container are at its own location (tag kind error at push_key(tag)), and ErrorKind payload fields are the values found there; push_key/push_index build the right pointer variant.",
                 TB + "; derived code per catalogue entry", "§5 C04")

CHECKS["C06"] = ("proof", "structural rules over the MIR of each container impl: collection build-up, iterator chain, arity guard, Option/Box delegation",
                 "For all inputs: result collections are fresh, receive exactly the Ok payload of the same iteration's child by push/insert once per iteration, the loop runs over the input's own iterator (enumerate only) and the collection reaches Ok untouched; arrays/tuples compare len with their arity by != before any element work and report the whole sequence with that arity; tuple step k ↔ component k ↔ field k; Option gives None only on Null and otherwise delegates; maps key each entry by from_str of its own key and report an unparsable key by name; CS delegates to CS::from_str.",
                 TB + "; std collection semantics (push/insert/try_into order, set collapse, key equality); Sequence::len agrees with the iterator", "§5 C06")

DERIVE_NOTE = TB + "; catgen.py reference semantics; verdict per catalogue entry (hand-written base covering every template branch + VERIF_SEED-generated combinations); user functions opaque"
for _p, _t in (("C07", "derive skeleton recovered from expanded, type-checked MIR compared with an independent spec of the documented key renaming"),
               ("C08", "derive skeleton vs spec: initial field states, arm states, missing-field phase, FieldState helper summaries"),
               ("C09", "derive skeleton vs spec: contents and effects of the all-comparisons-false arm, tag removal before iteration"),
               ("C10", "derive skeleton vs spec: tag removal, tag/variant string dispatch tables, fall-through edges; every non-string kind of the tag value reaches the kind report (CFG reachability per discriminant edge)"),
               ("C11", "derive skeleton vs spec: call sites of user functions, their dominators and argument provenance")):
    import derive_prop as _dp
    CHECKS[_p] = ("other", _t, _dp.TEXT[_p], DERIVE_NOTE, "§5 " + _p)

CHECKS["C12"] = ("other", "panic-site census over MIR (Assert terminators, panic entry points, curated panicking std APIs) with per-site guard rules incl. relational typestate",
                 "Every panic-capable site reachable from deserialize_from_value in the library, in the derive output of the catalogue, in the serde_json value source and in the built-in error types is discharged by a named guard rule (ARITY, TUPLEOPT, FIELDSTATE, ARRAY, JSONNUM, INFALLIBLE, SERIALIZE, CHARCOUNT, COUNTER); any other site - in particular a new unwrap, index or arithmetic on a deserialisation path - is reported.",
                 TB + "; curated table of panicking std APIs, other std functions assumed total; Sequence::len agrees with the iterator; serde_json Number without arbitrary_precision; stack depth, allocation failure and user code out of scope", "§5 C12")
CHECKS["C15"] = ("proof", "effect-commutativity of map loops over MIR: allowed iterator operations, loop-carried state, read/write sets of field states",
                 "For payload objects without duplicate keys, all member orders and all value sources: object iterators are only created and stepped, map loops exit only on exhaustion or Break, the only state carried across iterations is the accumulator, the per-field state locals (written, never read in the loop), the iterator and the result collection (insert only), and the tag is removed by key before iteration; hence value and report set do not depend on member order.",
                 TB + "; the order of reports inside an accumulated error may differ (statement says set); derived code per catalogue entry", "§5 C15")

CHECKS["C16"] = ("proof", "generator-level rules over the MIR of the proc-macro crate (merge guards, parser routing, reader loops, shape dispatch, panic census) + compile-fail witnesses with compiling twins",
                 "For all derive inputs: single-valued attributes are only set under a dominating 'already set => Err' test on a witness that merge maintains, parsers write attributes only through merge, every #[deserr] attribute is parsed and merged with `?`, unknown names / rename_all values / trailing tokens return Err, validate_container_attributes rejects the listed combinations and dominates all use, unsupported shapes lead only to compile errors, the macro's panic sites are discharged. About 210 (quick) / 650 (thorough) poisoned derive inputs (every cross-attribute cause also beside each legal companion attribute, in both orders) must be rejected by a derive-issued diagnostic while their twins compile; the witnesses are the part of the verdict that does not depend on how the parsers are written: while all of them are rejected, a complaint of a generator-level rule is recorded as UNDECIDED (parsers restructured), when one is accepted the rule findings say where.",
                 TB + "; rustc's verdict on the witness programs; syn invariants (named fields have identifiers, parse_quote! of fixed templates); decides the listed causes, not every conceivable unsupported input", "§5 C16")

CHECKS["C05"] = ("other", "dispatch/table agreement, cast and callee allow-lists, provenance of Ok payloads and of format arguments over the MIR of the 30 scalar impls",
                 "Decides three structural clauses for every scalar impl: the Value kinds with an arm equal the accepted list of the single kind report on the fall-through arm; no lossy conversion exists and every integer/NonZero Ok value comes out of a checked conversion (TryFrom / NonZero::new) applied to the matched payload itself, no hand-made Ok value exists on those arms (bool/String unchanged, () only on null, char only when the second next() is None, floats only cast the payload); the domain report of each arm (in a closure of that arm or on the arm itself) has the payload and the rustc-evaluated constant <Self>::MAX / MIN among its format arguments, NonZero zero payloads are rejected by a report of their own (== 0 guard or literal-0 pattern). Numeric exactness is then core's TryFrom (trusted).",
                 TB + "; core TryFrom/`as` semantics; message wording not decided; 64-bit usize", "§5 C05")

CHECKS["C19"] = ("other", "decision tables of the six pointer functions extracted from MIR and compared with the only tables satisfying the statement (structural induction)",
                 "push_key/push_index add exactly one Key/Index node with prev = self and the given key/index; to_owned walks from self in a loop over the variant, adds exactly one matching component per Key / Index node (both kinds with the same method on the same collection), follows prev, stops at Origin and reverses exactly once (never when prepending); is_origin is the Origin discriminant test; last_field = {Origin: None, Key: Some(key), Index: recurse}; first_field = {Origin: None, Index: recurse, Key: recurse.or(Some(key))}; a first_field / last_field without loop, recursion or call into the library looks at a bounded prefix only and is reported; loop or iterator formulations of them are UNDECIDED.",
                 TB + "; std Vec::push / rev+collect / Option::or semantics; other formulations of these functions are reported as UNDECIDED, not as violations", "§5 C19")

CHECKS["C17"] = ("other", "dataflow of the `kinds` parameter through copy/sort/dedup, injectivity of the rank table, purity of the helpers, strict-suffix recursion, symbolic extraction of the slice-pattern decision table — over MIR",
                 "Decides clause 1 and the fallback: the kinds list is only copied, the copy is sorted with sort_by_key(order) where `order` maps the eight kinds to eight distinct ranks, deduplicated, tested for emptiness (fallback constant) and handed to description_rec; the helpers read no statics; single_description has eight distinct phrases with Float = 'a number'; every recursive call passes a strict suffix. Hence the phrase is a function of the set of kinds. The decision table of description_rec (which prefixes become 'a number' / 'an integer' / a single name, and how many kinds each step consumes) is extracted by a symbolic walk and compared with the statement's table on all 256 canonical lists; the joiner table ('a', 'a or b', 'a, b, or c') is extracted over (rest empty?, items written in {0, 1, >= 2}) and compared (C17.JOIN).",
                 TB + "; std stable sort / dedup semantics; a sort key computed by a closure with arithmetic, or a description that is not recursive over slice patterns, is UNDECIDED", "§5 C17")
CHECKS["C18"] = ("other", "symbolic interval walk of the length dispatch + callee identity / argument provenance of the iterator chain and its three closures — over MIR",
                 "The budget table extracted from the comparison tree on received.len() equals {0-3: none, 4-7: 1, 8-12: 2, 13-17: 3, 18-24: 4, 25+: 5}; candidates are accepted.iter() unfiltered and in order, the metric is strsim::damerau_levenshtein(received, candidate), kept iff distance <= that budget, chosen by min_by(d1.cmp(d2)) (first minimum); None gives the empty string and Some names exactly that candidate. For other formulations: the only metric is strsim::damerau_levenshtein, nothing selects a last / maximum, no filter ignores the distance, an explicit loop replaces its best candidate only on a strictly smaller distance; the rest is UNDECIDED.",
                 TB + "; strsim's metric and std's min_by tie rule are trusted; len is bytes", "§5 C18")

CHECKS["C13"] = ("other", "variant tables of the four sibling bridge functions extracted from MIR and cross-checked (sibling agreement), incl. the ordered number ladder",
                 "kind(j) names the same variant as into_value(j) for all six JSON variants, with the number ladder u64 -> Integer, i64 -> NegativativeInteger, f64 -> Float in that order and each payload being the value just obtained; Value::kind is the identity table; both Value -> serde_json::Value maps invert into_value on variant names and move payloads unchanged (integers via Number::from, floats via Number::from_f64); arrays/objects are rebuilt element by element in order; the Deserr impl can only fail by itself on from_f64 == None.".replace("Negativative", "Negative"),
                 TB + "; serde_json::Number semantics (from / as_* are lossless inverses, parsed documents hold finite floats) - document equality follows only under these; -0.0 and precision not decided", "§5 C13")

CHECKS["C20"] = ("proof", "value-flow composition analysis (which call results can reach deserialize's argument, the wrapped success, every error), foreign-callee rule and branch-source rule over the MIR of the extractor bodies (features actix-web and axum enabled; async body before lowering)",
                 "For all requests: each extractor only calls the framework's own extractor, deserr::deserialize::<T, serde_json::Value, E>, its wrapper constructor and ?/poll plumbing, and only branches on their outcomes; the framework extractor receives the request / query string unchanged, deserialize receives exactly the extracted document, Ok is exactly the wrapped deserr value, every error is the framework's or deserr's own value passed on through `?`/From; JsonError answers 400 with its message as body in both frameworks; the axum rejection wraps and delegates per variant.",
                 TB + "; the frameworks' own extractors, conversions and IntoResponse impls are trusted (content-type handling, limits not analysed)", "§5 C20")

CHECKS["C14"] = ("other", "dependence (taint through format arguments and helper calls) and decision-table rules over the MIR of the two built-in error types and their helpers",
                 "Decides dependence and structure, not wording: per ErrorKind arm of JsonError::error and QueryParamError::error the message's format arguments depend on every field the arm binds and on the location description of this call's location; unknown key/value messages call did_you_mean(key|value, accepted) and list all of accepted; arity messages state the length and quote the whole sequence; the text rendered per step is extracted by path enumeration over the renderer (returned string or appended buffer alike) and must be {Origin: nothing, Key: ancestors . key, Index: ancestors [ index ]} with the query variant omitting the separator exactly under the origin; kind and quoted text come from the same value, and the value's string payload is never written with Display/Debug in place of the serialiser; foreign errors become Unexpected{their text} at the merge location; all answers are Break.",
                 TB + "; std formatting prints every argument; wording/punctuation and re-parseability of the rendered path are not decided; 'first report of the keep-going run' follows from C03 + C04", "§5 C14")

NOT_YET = {p: 'check not yet built in this revision of /verif (construction order in DESIGN.md §8); will be claimed when its rule set is armed' for p in []}


def main():
    checks = []
    for pid in sorted(CHECKS):
        cat, technique, text, note, ref = CHECKS[pid]
        checks.append({
            "property_id": pid,
            "quick_cmd": "bin/check %s --tier quick" % pid,
            "thorough_cmd": "bin/check %s --tier thorough" % pid,
            "evidence_file": "/verif/evidence/%s.json" % pid,
            "replay_cmd_template": "bin/check %s --replay {path}" % pid,
            "engine": "mirfacts+rules",
            "level_claimed": {"category": cat, "text": text, "design_ref": "DESIGN.md " + ref},
            "level_note": note,
            "technique": "static analysis: " + technique,
        })
    na = [{"property_id": k, "reason": v} for k, v in sorted(NOT_YET.items())]
    m = {
        "version": 1,
        "setup_cmd": "bin/setup",
        "hooks": {
            "guard": "deserr_verif",
            "enable": "none needed: the analysis reads rustc's MIR of the unmodified source (cargo +nightly check under the mirfacts RUSTC_WRAPPER)",
            "baseline_off_cmd": "cd /repo && cargo test --workspace --no-fail-fast --offline",
            "source_commits": [],
            "add_only": True,
        },
        "engines": [
            {"name": "mirfacts", "path": "driver/", "serves_properties": sorted(CHECKS),
             "kind_free_text": "rustc_private driver exporting mir_built of deserr, deserr_internal and the corpus crates as JSON facts"},
            {"name": "rules", "path": "rules/", "serves_properties": sorted(CHECKS),
             "kind_free_text": "Python rule engine: CFG/dominators, provenance terms, typestate, per-property rules; derive catalogue generator with spec sidecar"},
        ],
        "checks": checks,
        "not_applicable": na,
        "notes": "Static analysis only: no check executes deserr code. Repairs of genuine defects are the `fix:` commits in /repo, listed in known_findings.txt.",
    }
    json.dump(m, open(os.path.join(VERIF, "MANIFEST.json"), "w"), indent=1)
    print("MANIFEST.json written: %d checks, %d not_applicable" % (len(checks), len(na)))


if __name__ == "__main__":
    main()
