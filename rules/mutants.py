"""Mutant corpus for the checker self-test: each entry is a small edit of /repo that breaks a property
while still compiling and passing the 45 baseline tests (kind 'mutant'), or that keeps behaviour
(kind 'preserving': every check must stay silent). `edits` are (file, old text, new text);
`occurrence` selects which match of the old text is replaced (default: first)."""

IMPLS = "src/impls.rs"
NF = "derive/src/derive_named_fields.rs"
PT = "derive/src/parse_type.rs"
DE = "derive/src/derive_enum.rs"
AP = "derive/src/attribute_parser.rs"

VEC_MERGE = """                            error = match E::merge(error, e, location.push_index(index)) {
                                ControlFlow::Continue(e) => Some(e),
                                ControlFlow::Break(e) => return Err(e),
                            };"""

MUTANTS = [
    # ------------------------------------------------------------------ C01
    {"id": "c01-map-ok-again", "props": ["C01"], "edits": [(IMPLS, """                if let Some(e) = error {
                    Err(e)
                } else {
                    Ok(res)
                }""", "                Ok(res)")]},
    {"id": "c01-vec-drop-acc", "props": ["C01"], "edits": [(IMPLS, """                if let Some(e) = error {
                    Err(e)
                } else {
                    Ok(vec)
                }""", "                Ok(vec)")]},
    {"id": "c01-option-ok", "props": ["C01"], "edits": [(IMPLS, "value => T::deserialize_from_value(value, location).map(Some),",
                                                         "value => Ok(T::deserialize_from_value(value, location).ok()),")]},
    {"id": "c01-derive-ok-first", "props": ["C01"], "edits": [(NF, """        if let Some(deserr_error__) = deserr_error__ {
            ::std::result::Result::Err(deserr_error__)
        } else {""", """        if false {
            ::std::result::Result::Err(deserr_error__.unwrap())
        } else {""")]},
    {"id": "c01-let-underscore", "props": ["C01"], "edits": [(IMPLS, """                        Err(e) => {
""" + VEC_MERGE, """                        Err(e) => {
                            let _ = E::merge(None, e, location.push_index(index));""")]},
    # ------------------------------------------------------------------ C02
    {"id": "c02-vec-break", "props": ["C02"], "edits": [(IMPLS, VEC_MERGE, VEC_MERGE + "\n                            break;")]},
    {"id": "c02-tuple-return-continue", "props": ["C02"], "edits": [(IMPLS, """                        error = match E::merge(error, e, location.push_index(0)) {
                            ControlFlow::Continue(e) => Some(e),""", """                        error = match E::merge(error, e, location.push_index(0)) {
                            ControlFlow::Continue(e) => return Err(e),""")]},
    {"id": "c02-derive-skip-missing", "props": ["C02"], "edits": [(NF, """        #(
            if #field_names .is_missing() {
                #missing_field_errors
            }
        )*""", """        if deserr_error__.is_none() {
        #(
            if #field_names .is_missing() {
                #missing_field_errors
            }
        )*
        }""")]},
    # ------------------------------------------------------------------ C03
    {"id": "c03-hashset-swallow-break", "props": ["C03"], "occurrence": 1, "edits": [(IMPLS, VEC_MERGE, """                            error = match E::merge(error, e, location.push_index(index)) {
                                ControlFlow::Continue(e) => Some(e),
                                ControlFlow::Break(e) => Some(e),
                            };""")]},
    {"id": "c03-derive-break-continues", "props": ["C03"], "edits": [(PT, """                            ::std::ops::ControlFlow::Continue(e) => ::std::option::Option::Some(e),
                            ::std::ops::ControlFlow::Break(e) => {
                                return ::std::result::Result::Err(e)
                            }
                        };
                    }
                }
            };""", """                            ::std::ops::ControlFlow::Continue(e) => ::std::option::Option::Some(e),
                            ::std::ops::ControlFlow::Break(e) => ::std::option::Option::Some(e),
                        };
                    }
                }
            };""")]},
    {"id": "c03-builtin-continue", "props": ["C03"], "edits": [("src/errors/json.rs", "        ControlFlow::Break(JsonError::new(message))", "        ControlFlow::Continue(JsonError::new(message))")]},
    # ------------------------------------------------------------------ C04
    {"id": "c04-array-index0", "props": ["C04"], "edits": [(IMPLS, """                for (index, elem) in iter.enumerate() {
                    let a =
                        T::deserialize_from_value(elem.into_value(), location.push_index(index));""", """                for (_index, elem) in iter.enumerate() {
                    let index = 0;
                    let a =
                        T::deserialize_from_value(elem.into_value(), location.push_index(index));""")]},
    {"id": "c04-vec-index-plus1", "props": ["C04"], "edits": [(IMPLS, "T::deserialize_from_value(value.into_value(), location.push_index(index));",
                                                                "T::deserialize_from_value(value.into_value(), location.push_index(index + 1));")]},
    {"id": "c04-vec-merge-at-parent", "props": ["C04"], "edits": [(IMPLS, "error = match E::merge(error, e, location.push_index(index)) {", "error = match E::merge(error, e, location) {")]},
    {"id": "c04-tuple-swapped-index", "props": ["C04"], "edits": [(IMPLS, """                let b = B::deserialize_from_value(
                    iter.next().unwrap().into_value(),
                    location.push_index(1),""", """                let b = B::deserialize_from_value(
                    iter.next().unwrap().into_value(),
                    location.push_index(0),""")]},
    {"id": "c04-tag-error-at-enum", "props": ["C04"], "edits": [(DE, "                                        deserr_location__.push_key(#tag)", "                                        deserr_location__")]},
    {"id": "c04-missing-at-key", "props": ["C04"], "edits": [(PT, """                            ::deserr::ErrorKind::MissingField {
                                field: #key_name,
                            },
                            deserr_location__""", """                            ::deserr::ErrorKind::MissingField {
                                field: #key_name,
                            },
                            deserr_location__.push_key(#key_name)""")]},
    {"id": "c04-actual-null", "props": ["C04"], "edits": [(IMPLS, """            v => Err(take_cf_content(E::error(
                None,
                ErrorKind::IncorrectValueKind {
                    actual: v,
                    accepted: &[ValueKind::Sequence],""", """            _v => Err(take_cf_content(E::error(
                None,
                ErrorKind::IncorrectValueKind {
                    actual: Value::<V>::Null,
                    accepted: &[ValueKind::Sequence],""")]},
    {"id": "c04-derive-child-at-parent", "props": ["C04"], "edits": [(NF, """                                ::deserr::IntoValue::into_value(deserr_value__),
                                deserr_location__.push_key(deserr_key__.as_str())""", """                                ::deserr::IntoValue::into_value(deserr_value__),
                                deserr_location__""")]},
    {"id": "c04-push-key-prev", "props": ["C04"], "edits": [("src/value.rs", "        Self::Index { index, prev: self }", "        Self::Index { index: index + 0 * 1 + 1, prev: self }")]},
    # ------------------------------------------------------------------ C06
    {"id": "c06-tuple-len-lt", "props": ["C06"], "edits": [(IMPLS, "                if len != 2 {", "                if len < 2 {")]},
    {"id": "c06-vec-insert-front", "props": ["C06"], "edits": [(IMPLS, "                            vec.push(value);", "                            vec.insert(0, value);")]},
    {"id": "c06-vec-rev", "props": ["C06"], "edits": [(IMPLS, "                for (index, value) in seq.into_iter().enumerate() {\n                    let result =\n                        T::deserialize_from_value(value.into_value(), location.push_index(index));\n                    match result {\n                        Ok(value) => {\n                            vec.push(value);",
                                                     "                for (index, value) in seq.into_iter().enumerate().collect::<Vec<_>>().into_iter().rev() {\n                    let result =\n                        T::deserialize_from_value(value.into_value(), location.push_index(index));\n                    match result {\n                        Ok(value) => {\n                            vec.push(value);")]},
    {"id": "c06-array-expected-plus1", "props": ["C06"], "edits": [(IMPLS, "                            actual: seq,\n                            expected: N,", "                            actual: seq,\n                            expected: N + 1,")]},
    {"id": "c06-option-empty-string-none", "props": ["C06"], "edits": [(IMPLS, "            Value::Null => Ok(None),\n            value => T::deserialize_from_value(value, location).map(Some),",
                                                                       "            Value::Null => Ok(None),\n            Value::String(s) if s.is_empty() => Ok(None),\n            value => T::deserialize_from_value(value, location).map(Some),")]},
    {"id": "c06-vec-truncate", "props": ["C06"], "edits": [(IMPLS, "                if let Some(e) = error {\n                    Err(e)\n                } else {\n                    Ok(vec)\n                }", "                if let Some(e) = error {\n                    Err(e)\n                } else {\n                    vec.truncate(1000);\n                    Ok(vec)\n                }")]},
    {"id": "c06-map-key-msg-drops-key", "props": ["C06"], "edits": [(IMPLS, 'msg: format!("the key \\"{string_key}\\" could not be deserialized into the key type `{}`",\n                                    std::any::type_name::<Key>())',
                                                                     'msg: format!("a key could not be deserialized into the key type `{}`",\n                                    std::any::type_name::<Key>())')]},
    {"id": "c06-set-skip-first", "props": ["C06"], "occurrence": 1, "edits": [(IMPLS, "for (index, value) in seq.into_iter().enumerate() {", "for (index, value) in seq.into_iter().enumerate().skip(1) {")]},
    # ------------------------------------------------------------------ C07
    {"id": "c07-sort-skipped-first", "props": ["C07"], "edits": [(PT, "fields_extra.sort_by_key(|x| x.1.skipped);", "fields_extra.sort_by_key(|x| !x.1.skipped);")]},
    {"id": "c07-rename-all-beats-rename", "props": ["C07"], "edits": [(PT, """    match rename {
        Some(name) => name.to_string(),
        None => match rename_all {
            Some(RenameAll::CamelCase) => ident.to_case(Case::Camel),
            Some(RenameAll::LowerCase) => ident.to_lowercase(),
            None => ident,
        },
    }""", """    match rename_all {
        Some(RenameAll::CamelCase) => ident.to_case(Case::Camel),
        Some(RenameAll::LowerCase) => ident.to_lowercase(),
        None => match rename {
            Some(name) => name.to_string(),
            None => ident,
        },
    }""")]},
    {"id": "c07-merge-variant-or", "props": ["C07"], "edits": [(AP, "        self.rename_all = other.rename_all.clone();", "        self.rename_all = other.rename_all.clone().or(self.rename_all.clone());")]},
    {"id": "c07-pascal", "props": ["C07"], "edits": [(PT, "ident.to_case(Case::Camel)", "ident.to_case(Case::Pascal)")]},
    {"id": "c07-lowercase-is-identity", "props": ["C07"], "edits": [(PT, "Some(RenameAll::LowerCase) => ident.to_lowercase(),", "Some(RenameAll::LowerCase) => ident,")]},
    {"id": "c07-case-insensitive-keys", "props": ["C07"], "edits": [(NF, "            match deserr_key__.as_str() {", "            match deserr_key__.to_lowercase().as_str() {")]},
    # ------------------------------------------------------------------ C08
    {"id": "c08-missing-on-error-path", "props": ["C08"], "edits": [(NF, "                                    ::deserr::FieldState::Err\n                                }\n                            };", "                                    ::deserr::FieldState::Missing\n                                }\n                            };")]},
    {"id": "c08-skip-uses-missing", "props": ["C08"], "edits": [(PT, """            } else if attrs.skipped {
                quote! { ::deserr::FieldState::Some(::std::default::Default::default()) }""", """            } else if attrs.skipped && false {
                quote! { ::deserr::FieldState::Some(::std::default::Default::default()) }""")],
     "note": "skipped field without default starts Missing -> unwrap panics on every input"},
    {"id": "c08-missing-fn-gets-ident", "props": ["C08"], "edits": [(PT, "                        let deserr_e__ = #error_function ( #key_name, deserr_location__ ) ;", "                        let deserr_e__ = #error_function ( stringify!(#field_name), deserr_location__ ) ;")]},
    {"id": "c08-default-expr-ignored", "props": ["C08"], "edits": [(PT, "                        quote! { ::deserr::FieldState::Some(#expr) }", "                        quote! { { let _ = || #expr; ::deserr::FieldState::Some(::std::default::Default::default()) } }")]},
    {"id": "c08-missing-reports-ident", "props": ["C08"], "edits": [(PT, """                            ::deserr::ErrorKind::MissingField {
                                field: #key_name,
                            },""", """                            ::deserr::ErrorKind::MissingField {
                                field: stringify!(#field_name),
                            },""")]},
    # ------------------------------------------------------------------ C09
    {"id": "c09-accepted-sorted", "props": ["C09"], "edits": [(PT, """        let unknown_key = match &data_attrs.deny_unknown_fields {""", """        let key_names = { let mut k = key_names.clone(); k.sort(); k };
        let unknown_key = match &data_attrs.deny_unknown_fields {""")]},
    {"id": "c09-deny-ignored-in-variants", "props": ["C09"], "edits": [(AP, "        self.rename_all = other.rename_all.clone();", "        self.rename_all = other.rename_all.clone();\n        self.deny_unknown_fields = None;")]},
    {"id": "c09-unknown-once", "props": ["C09", "C02"], "edits": [(NF, """                deserr_key__ => {
                    #unknown_key
                }""", """                deserr_key__ => {
                    if deserr_error__.is_none() {
                        #unknown_key
                    }
                }""")]},
    {"id": "c09-ignored-key-sets-error", "props": ["C09"], "edits": [(PT, "            None => quote! {},\n        };\n\n        Ok(Self {", """            None => quote! { if deserr_key__.starts_with("__") { return ::std::result::Result::Err(::deserr::take_cf_content(<#err_ty as ::deserr::DeserializeError>::error::<V>(deserr_error__, ::deserr::ErrorKind::Unexpected { msg: ::std::string::String::new() }, deserr_location__))); } },
        };

        Ok(Self {""")]},
    # ------------------------------------------------------------------ C10
    {"id": "c10-tag-case-insensitive", "props": ["C10"], "edits": [(DE, "                        match tag_value_string.as_str() {", "                        match tag_value_string.to_lowercase().as_str() {")]},
    {"id": "c10-variant-name-before-rename", "props": ["C10"], "edits": [(PT, """                        let key_name = key_name_for_ident(
                            variant.ident.to_string(),
                            attrs.rename_all.as_ref(),
                            renamed.as_deref(),
                        );""", """                        let key_name = key_name_for_ident(
                            variant.ident.to_string(),
                            attrs.rename_all.as_ref(),
                            None,
                        );
                        let _ = &renamed;""")]},
    {"id": "c10-unknown-falls-to-first", "props": ["C10"], "edits": [(DE, """                            _ => {
                                ::std::result::Result::Err(
                                    ::deserr::take_cf_content(<#err_ty as ::deserr::DeserializeError>::error::<V>(
                                        None,
                                        // TODO""", """                            "" => {
                                ::std::result::Result::Err(
                                    ::deserr::take_cf_content(<#err_ty as ::deserr::DeserializeError>::error::<V>(
                                        None,
                                        // TODO""")],
     "note": "does not compile (non-exhaustive) unless a catch-all exists; kept out of the default run", "skip": True},
    {"id": "c10-unit-accepted-idents", "props": ["C10"], "edits": [(DE, "        .map(|v| &v.key_name)\n        .map(|v| quote!(#v, ))", "        .map(|v| v.ident.to_string())\n        .map(|v| quote!(#v, ))")]},
    # ------------------------------------------------------------------ C11
    {"id": "c11-validate-merge-at-key", "props": ["C11", "C04"], "edits": [(PT, """                            None,
                            validate_error__,
                            deserr_location__
                        )""", """                            None,
                            validate_error__,
                            deserr_location__.push_key("validate")
                        )""")]},
    {"id": "c11-tryfrom-only-field-error", "props": ["C11", "C01"], "edits": [(PT, """                                deserr_error__ = match <#err_ty as ::deserr::MergeWithError<_>>::merge(
                                    deserr_error__,
                                    tmp_deserr_error__,
                                    deserr_location__.push_key(deserr_key__.as_str())
                                ) {
                                    ::std::ops::ControlFlow::Continue(e) => ::std::option::Option::Some(e),
                                    ::std::ops::ControlFlow::Break(e) => return ::std::result::Result::Err(e),
                                };
                                ::deserr::FieldState::Err""", """                                let _ = tmp_deserr_error__;
                                ::deserr::FieldState::Err""")]},
    {"id": "c11-byref-ignored", "props": ["C11"], "edits": [(PT, """                    let fun_call = if from.is_ref {
                        quote! { |val: #field_ty | #fun(&val) }
                    } else {
                        quote! { #fun }
                    };

                    quote!(::deserr::FieldState::Some((#fun_call)(x)))""", """                    let fun_call = if from.is_ref {
                        quote! { |val: #field_ty | #fun(&val.clone()) }
                    } else {
                        quote! { #fun }
                    };

                    quote!(::deserr::FieldState::Some((#fun_call)(x)))""")],
     "skip": True, "note": "clone() needs Clone on the intermediate type; behaviour-preserving anyway"},
    {"id": "c11-map-identity", "props": ["C11"], "edits": [(PT, """                Some(func) => {
                    quote! {
                        #func
                    }
                }""", """                Some(func) => {
                    let _ = func;
                    quote! { ::std::convert::identity }
                }""")]},
    {"id": "c11-validate-skipped", "props": ["C11"], "edits": [(PT, """        let validate = if let Some(validate_func) = attrs.validate {""", """        let validate = if let (Some(validate_func), false) = (attrs.validate, attrs.deny_unknown_fields.is_some()) {""")]},
    {"id": "c11-container-from-wrong-type", "props": ["C11"], "edits": [("derive/src/derive_user_provided_function.rs", """                let deserr_from__ = <#from_ty as ::deserr::Deserr<#err_ty>>::deserialize_from_value(deserr_value__, deserr_location__)?;
                // then apply the function to it
                let deserr_final__ = #function_call;""", """                let deserr_from__ = <#from_ty as ::deserr::Deserr<#err_ty>>::deserialize_from_value(deserr_value__, deserr_location__.push_index(0))?;
                // then apply the function to it
                let deserr_final__ = #function_call;""")]},
    # ------------------------------------------------------------------ C12
    {"id": "c12-tuple-len-check-removed", "props": ["C12"], "edits": [(IMPLS, "                if len != 2 {", "                if len != 2 && false {")]},
    {"id": "c12-tuple-len-lt", "props": ["C12"], "edits": [(IMPLS, "                if len != 3 {", "                if len > 3 {")]},
    {"id": "c12-derive-err-without-acc", "props": ["C12"], "edits": [(NF, """                                    deserr_error__ = match <#err_ty as ::deserr::MergeWithError<_>>::merge(
                                        deserr_error__,
                                        e,
                                        deserr_location__.push_key(deserr_key__.as_str())
                                    ) {
                                        ::std::ops::ControlFlow::Continue(e) => ::std::option::Option::Some(e),
                                        ::std::ops::ControlFlow::Break(e) => return ::std::result::Result::Err(e),
                                    };
                                    ::deserr::FieldState::Err""", """                                    if deserr_key__.len() < 4096 {
                                    deserr_error__ = match <#err_ty as ::deserr::MergeWithError<_>>::merge(
                                        deserr_error__,
                                        e,
                                        deserr_location__.push_key(deserr_key__.as_str())
                                    ) {
                                        ::std::ops::ControlFlow::Continue(e) => ::std::option::Option::Some(e),
                                        ::std::ops::ControlFlow::Break(e) => return ::std::result::Result::Err(e),
                                    };
                                    } else { drop(e); }
                                    ::deserr::FieldState::Err""")]},
    {"id": "c12-vec-index", "props": ["C12"], "edits": [(IMPLS, "                            vec.push(value);", "                            vec.push(value);\n                            let _ = &vec[index];")]},
    {"id": "c12-unwrap-fromstr", "props": ["C12"], "edits": [("src/serde_cs.rs", """            Value::String(s) => match CS::from_str(&s) {
                Ok(ret) => Ok(ret),""", """            Value::String(s) if s.len() > 100_000 => Ok(CS::from_str(&s).ok().unwrap()),
            Value::String(s) => match CS::from_str(&s) {
                Ok(ret) => Ok(ret),""")]},
    {"id": "c12-arith-index", "props": ["C12"], "edits": [(IMPLS, "T::deserialize_from_value(value.into_value(), location.push_index(index));\n                    match result {\n                        Ok(value) => {\n                            set.insert(value);", "T::deserialize_from_value(value.into_value(), location.push_index(index));\n                    let _ = index - seq_len_hint;\n                    match result {\n                        Ok(value) => {\n                            set.insert(value);"),
                                                         (IMPLS, "                let mut set = HashSet::with_capacity(seq.len());", "                let seq_len_hint = seq.len() / 2;\n                let mut set = HashSet::with_capacity(seq.len());")]},
    {"id": "c12-missing-check-dropped", "props": ["C12", "C08"], "edits": [(NF, """        #(
            if #field_names .is_missing() {
                #missing_field_errors
            }
        )*""", """        #(
            if #field_names .is_missing() && deserr_location__.is_origin() {
                #missing_field_errors
            }
        )*""")]},
    # ------------------------------------------------------------------ C15
    {"id": "c15-stop-after-all-fields-seen", "props": ["C15"], "edits": [(NF, """        for (deserr_key__, deserr_value__) in ::deserr::Map::into_iter(deserr_map__) {""", """        let mut deserr_seen__ = 0usize;
        for (deserr_key__, deserr_value__) in ::deserr::Map::into_iter(deserr_map__) {
            deserr_seen__ += 1;
            if deserr_seen__ > 64 { continue; }""")]},
    {"id": "c15-tag-must-be-first", "props": ["C15"], "edits": [(DE, """                        let tag_value = ::deserr::Map::remove(&mut deserr_map__, #tag).ok_or_else(|| {""", """                        let mut deserr_iter__ = ::deserr::Map::into_iter(deserr_map__);
                        let tag_value = deserr_iter__.next().filter(|(k, _)| k == #tag).map(|(_, v)| v).ok_or_else(|| {"""),
                                                           (DE, """                    let mut deserr_error__ = None;
                    #fields_impl""", """                    let mut deserr_error__ = None;
                    let deserr_map__ = deserr_iter__;
                    #fields_impl""")],
     "skip": True, "note": "does not type-check without more surgery (Map::into_iter of an iterator)"},
    {"id": "c15-field-depends-on-other", "props": ["C15"], "edits": [(NF, """                    #key_names => {
                        #field_names = match""", """                    #key_names if !(#field_names .is_missing() && deserr_key__.len() > 100) => {
                        #field_names = match""")]},
    {"id": "c15-map-enumerate", "props": ["C15"], "edits": [(IMPLS, "                for (string_key, value) in map.into_iter() {\n                    match Key::from_str(&string_key) {\n                        Ok(key) => {\n                            match T::deserialize_from_value(\n                                value.into_value(),\n                                location.push_key(&string_key),\n                            ) {\n                                Ok(value) => {\n                                    res.insert(key, value);\n                                }\n                                Err(e) => {\n                                    error = match E::merge(error, e, location.push_key(&string_key))\n                                    {\n                                        ControlFlow::Continue(e) => Some(e),\n                                        ControlFlow::Break(e) => return Err(e),\n                                    };\n                                }\n                            }\n                        }\n                        Err(_) => {\n                            error = match E::error::<V>(\n                                error,\n                                ErrorKind::Unexpected {\n                                    msg: format!(\"the key",
        "                for (string_key, value) in map.into_iter().take(1_000_000) {\n                    match Key::from_str(&string_key) {\n                        Ok(key) => {\n                            match T::deserialize_from_value(\n                                value.into_value(),\n                                location.push_key(&string_key),\n                            ) {\n                                Ok(value) => {\n                                    res.insert(key, value);\n                                }\n                                Err(e) => {\n                                    error = match E::merge(error, e, location.push_key(&string_key))\n                                    {\n                                        ControlFlow::Continue(e) => Some(e),\n                                        ControlFlow::Break(e) => return Err(e),\n                                    };\n                                }\n                            }\n                        }\n                        Err(_) => {\n                            error = match E::error::<V>(\n                                error,\n                                ErrorKind::Unexpected {\n                                    msg: format!(\"the key")]},
    {"id": "c15-map-first-wins", "props": ["C15"], "edits": [(IMPLS, """                                Ok(value) => {
                                    res.insert(key, value);
                                }
                                Err(e) => {
                                    error = match E::merge(error, e, location.push_key(&string_key))
                                    {
                                        ControlFlow::Continue(e) => Some(e),
                                        ControlFlow::Break(e) => return Err(e),
                                    };
                                }
                            }
                        }
                        Err(_) => {
                            error = match E::error::<V>(
                                error,
                                ErrorKind::Unexpected {
                                    msg: format!("the key""", """                                Ok(value) => {
                                    if res.len() < 100_000 { res.insert(key, value); }
                                }
                                Err(e) => {
                                    error = match E::merge(error, e, location.push_key(&string_key))
                                    {
                                        ControlFlow::Continue(e) => Some(e),
                                        ControlFlow::Break(e) => return Err(e),
                                    };
                                }
                            }
                        }
                        Err(_) => {
                            error = match E::error::<V>(
                                error,
                                ErrorKind::Unexpected {
                                    msg: format!("the key""")]},
    # ------------------------------------------------------------------ C16
    {"id": "c16-d4-default-span-not-stored", "props": ["C16"], "edits": [(AP, "            self.default_span = other.default_span;\n", "")]},
    {"id": "c16-d3-rename-all-span-not-stored", "props": ["C16"], "edits": [(AP, "            self.rename_all_span = other.rename_all_span;\n", "")]},
    {"id": "c16-d3-tag-span-not-stored", "props": ["C16"], "edits": [(AP, "            self.tag_span = other.tag_span;\n", "")]},
    {"id": "c16-d3-validate-direct-write", "props": ["C16"], "edits": [(AP, "                    other.validate = Some(validate_func);\n                    other.validate_span = Some(attr_name.span());", "                    this.validate = Some(validate_func);")]},
    {"id": "c16-d3-variant-rename-direct", "props": ["C16"], "edits": [(AP, "                    other.rename = Some(parse_rename(input)?);\n                }\n                \"rename_all\" => {", "                    this.rename = Some(parse_rename(input)?);\n                }\n                \"rename_all\" => {")]},
    {"id": "c16-validate-call-removed", "props": ["C16"], "edits": [(PT, "        validate_container_attributes(&attrs, &input)?;", "        let _ = validate_container_attributes(&attrs, &input);")]},
    {"id": "c16-unknown-field-attr-ignored", "props": ["C16"], "edits": [(AP, """                _ => {
                    let message = format!("Unknown deserr field attribute: {}", attr_name);
                    return Result::Err(syn::Error::new_spanned(attr_name, message));
                }""", """                _ => {
                    let _ = input.parse::<proc_macro2::TokenTree>();
                }""")]},
    {"id": "c16-from-tryfrom-prefers-tryfrom", "props": ["C16"], "edits": [(AP, """            } else if let Some(self_try_from) = &self.try_from {
                return Err(syn::Error::new(
                    self_try_from.span,
                    "The `from` and `try_from` attributes can't be used together.",
                ));
            }
            self.from = Some(from)""", """            } else if let Some(_self_try_from) = &self.try_from {
                return Ok(());
            }
            self.from = Some(from)""")]},
    {"id": "c16-union-empty-impl", "props": ["C16"], "edits": [(PT, """                Data::Union(u) => {
                    return Err(syn::Error::new(
                        u.union_token.span,
                        "Unions aren't supported by the Deserr derive macro",
                    ))
                }""", """                Data::Union(_u) => {
                    TraitImplementationInfo::Enum { tag: TagType::External, variants: vec![] }
                }""")]},
    {"id": "c16-second-attr-not-deserr-skipped", "props": ["C16"], "edits": [(AP, """    let mut this = FieldAttributesInfo::default();
    for attribute in attributes {
        if let Some(ident) = attribute.path().get_ident() {
            if ident != "deserr" {
                continue;
            }""", """    let mut this = FieldAttributesInfo::default();
    for attribute in attributes {
        if let Some(ident) = attribute.path().get_ident() {
            if ident != "deserr" || this.skipped {
                continue;
            }""")]},
    {"id": "c16-trailing-tokens-ignored", "props": ["C16"], "occurrence": 2, "edits": [(AP, """            } else {
                return Result::Err(syn::Error::new(input.span(), "Expected end of attribute"));
            }""", """            } else {
                let _ = input.parse::<proc_macro2::TokenStream>();
                break;
            }""")]},
    {"id": "c16-untagged-guard-any", "props": ["C16"], "edits": [("derive/src/lib.rs", """                        .iter()
                        .all(|variant| matches!(variant.data, VariantData::Unit)) =>""", """                        .iter()
                        .any(|variant| matches!(variant.data, VariantData::Unit)) =>""")]},
    {"id": "c16-tag-on-struct-allowed", "props": ["C16"], "edits": [(AP, "    if matches!(container.data, syn::Data::Struct(..)) {", "    if matches!(container.data, syn::Data::Union(..)) {")]},
    # ------------------------------------------------------------------ C05
    {"id": "c05-signed-drops-negative-kind", "props": ["C05"], "occurrence": 0, "edits": [(IMPLS, "                            accepted: &[ValueKind::Integer, ValueKind::NegativeInteger],", "                            accepted: &[ValueKind::Integer],")]},
    {"id": "c05-unsigned-accepts-float", "props": ["C05"], "edits": [(IMPLS, """                match value {
                    Value::Integer(x) => <$t>::try_from(x).or_else(|_| {
                        Err(take_cf_content(E::error::<V>(
                            None,
                            ErrorKind::Unexpected {
                                msg: format!(
                                    "value: `{x}` is too large to be deserialized, maximum value authorized is `{}`",
                                    <$t>::MAX
                                ),
                            },
                            location,
                        )))
                    }),
                    v => Err(take_cf_content(err(v))),""", """                match value {
                    Value::Float(x) if x.fract() == 0.0 && x >= 0.0 && x < 200.0 => Ok(x as $t),
                    Value::Integer(x) => <$t>::try_from(x).or_else(|_| {
                        Err(take_cf_content(E::error::<V>(
                            None,
                            ErrorKind::Unexpected {
                                msg: format!(
                                    "value: `{x}` is too large to be deserialized, maximum value authorized is `{}`",
                                    <$t>::MAX
                                ),
                            },
                            location,
                        )))
                    }),
                    v => Err(take_cf_content(err(v))),""")]},
    {"id": "c05-min-in-too-large-message", "props": ["C05"], "occurrence": 0, "edits": [(IMPLS, """                                    "value: `{x}` is too large to be deserialized, maximum value authorized is `{}`",
                                    <$t>::MAX
                                ),
                            },
                            location,
                        )))
                    }),
                    Value::NegativeInteger(x) => <$t>::try_from(x).or_else(|_| {""", """                                    "value: `{x}` is too large to be deserialized, maximum value authorized is `{}`",
                                    <$t>::MIN
                                ),
                            },
                            location,
                        )))
                    }),
                    Value::NegativeInteger(x) => <$t>::try_from(x).or_else(|_| {""")]},
    {"id": "c05-wrapping-cast", "props": ["C05"], "edits": [(IMPLS, "                    Value::NegativeInteger(x) => <$t>::try_from(x).or_else(|_| {", "                    Value::NegativeInteger(x) if x < -1_000_000_000_000 => Ok(x as $t),\n                    Value::NegativeInteger(x) => <$t>::try_from(x).or_else(|_| {")]},
    {"id": "c05-nonzero-neg-zero-unchecked", "props": ["C05"], "edits": [(IMPLS, """                    Value::NegativeInteger(x) if x == 0 => {
                      Err(take_cf_content(E::error::<V>(
                          None,
                          ErrorKind::Unexpected {
                              msg: format!(
                                  "a non-zero integer value higher than `{}` was expected, but found a zero",
                                  <$t>::MIN
                              ),
                          },
                          location,
                      )))
                    },
""", "")]},
    {"id": "c05-char-first-of-longer", "props": ["C05"], "edits": [(IMPLS, "                    if iter.next().is_none() {\n                        Ok(value)", "                    if iter.next().is_none() || s.len() > 1000 {\n                        Ok(value)")]},
    {"id": "c05-float-via-f32", "props": ["C05"], "edits": [(IMPLS, "                    Value::Float(x) => Ok(x as $t),", "                    Value::Float(x) => Ok((x as f32) as $t),")]},
    {"id": "c05-payload-not-in-message", "props": ["C05"], "occurrence": 0, "edits": [(IMPLS, """                                msg: format!(
                                    "value: `{x}` is too large to be deserialized, maximum value authorized is `{}`",
                                    <$t>::MAX
                                ),""", """                                msg: format!(
                                    "value is too large to be deserialized, maximum value authorized is `{}`",
                                    <$t>::MAX
                                ),""")]},
    # ------------------------------------------------------------------ C19
    {"id": "c19-no-reversal", "props": ["C19"], "edits": [("src/value.rs", "        let components = components.into_iter().rev().collect();", "        let components = components.into_iter().collect();")]},
    {"id": "c19-double-reversal", "props": ["C19"], "edits": [("src/value.rs", "        let components = components.into_iter().rev().collect();", "        components.reverse();\n        let components = components.into_iter().rev().collect();")]},
    {"id": "c19-index-as-key", "props": ["C19"], "edits": [("src/value.rs", "                    components.push(ValuePointerComponent::Index(*index));", "                    components.push(ValuePointerComponent::Key(index.to_string()));")]},
    {"id": "c19-first-field-nearest", "props": ["C19"], "edits": [("src/value.rs", "ValuePointerRef::Key { key, prev } => prev.first_field().or(Some(key)),", "ValuePointerRef::Key { key, prev } => Some(*key).or(prev.first_field()),")]},
    {"id": "c19-last-field-recurses", "props": ["C19"], "edits": [("src/value.rs", "            ValuePointerRef::Key { key, .. } => Some(key),", "            ValuePointerRef::Key { key, prev } => prev.last_field().or(Some(key)),")]},
    {"id": "c19-is-origin-index0", "props": ["C19"], "edits": [("src/value.rs", "        matches!(self, ValuePointerRef::Origin)", "        matches!(self, ValuePointerRef::Origin | ValuePointerRef::Index { index: 0, .. })")]},
    {"id": "c19-to-owned-skips-index-under-key", "props": ["C19"], "edits": [("src/value.rs", """                ValuePointerRef::Index { index, prev } => {
                    components.push(ValuePointerComponent::Index(*index));
                    cur = prev;""", """                ValuePointerRef::Index { index, prev } => {
                    if components.len() < 64 { components.push(ValuePointerComponent::Index(*index)); }
                    cur = prev;""")]},
    # ------------------------------------------------------------------ C18
    {"id": "c18-lt-instead-of-le", "props": ["C18"], "edits": [("src/errors/helpers.rs", ".filter(|(_, distance)| distance <= &typo_allowed)", ".filter(|(_, distance)| distance < &typo_allowed)")]},
    {"id": "c18-max-by", "props": ["C18"], "edits": [("src/errors/helpers.rs", ".min_by(|(_, d1), (_, d2)| d1.cmp(d2))", ".max_by(|(_, d1), (_, d2)| d2.cmp(d1))")]},
    {"id": "c18-levenshtein", "props": ["C18"], "edits": [("src/errors/helpers.rs", "use strsim::damerau_levenshtein;", "use strsim::levenshtein as damerau_levenshtein;")]},
    {"id": "c18-threshold-4-7-is-2", "props": ["C18"], "edits": [("src/errors/helpers.rs", "        4..=7 => 1,", "        4..=6 => 1,\n        7 => 2,")]},
    {"id": "c18-budget-from-accepted-len", "props": ["C18"], "edits": [("src/errors/helpers.rs", "    let typo_allowed = match received.len() {", "    let typo_allowed = match accepted.first().map(|a| a.len()).unwrap_or(received.len()) {")]},
    {"id": "c18-last-minimum", "props": ["C18"], "edits": [("src/errors/helpers.rs", ".min_by(|(_, d1), (_, d2)| d1.cmp(d2))", ".min_by(|(_, d1), (_, d2)| d1.cmp(d2).then(std::cmp::Ordering::Greater))")]},
    {"id": "c18-swapped-args", "props": ["C18"], "edits": [("src/errors/helpers.rs", ".min_by(|(_, d1), (_, d2)| d1.cmp(d2))", ".min_by(|(_, d1), (_, d2)| d2.cmp(d1))")]},
    {"id": "c18-skip-first-candidate", "props": ["C18"], "edits": [("src/errors/helpers.rs", "    match accepted\n        .iter()\n        .map(", "    match accepted\n        .iter()\n        .filter(|a| a.len() < 4096)\n        .map(")]},
    # ------------------------------------------------------------------ C17
    {"id": "c17-dedup-removed", "props": ["C17"], "edits": [("src/errors/json.rs", "    kinds.dedup();\n", "")]},
    {"id": "c17-sort-removed", "props": ["C17"], "edits": [("src/errors/json.rs", "    kinds.sort_by_key(order);\n", "")]},
    {"id": "c17-order-not-injective", "props": ["C17"], "edits": [("src/errors/json.rs", "            ValueKind::NegativeInteger => 3,", "            ValueKind::NegativeInteger => 2,")]},
    {"id": "c17-first-special-case", "props": ["C17"], "edits": [("src/errors/json.rs", "    let mut kinds = kinds.to_owned();", "    if kinds.first() == Some(&ValueKind::Map) && kinds.len() == 2 { return \"an object or something\".to_owned(); }\n    let mut kinds = kinds.to_owned();")]},
    {"id": "c17-float-is-float", "props": ["C17"], "edits": [("src/errors/json.rs", "            ValueKind::Float => \"a number\",", "            ValueKind::Float => \"a float\",")]},
    {"id": "c17-unstable-sort-by-dup-key", "props": ["C17"], "skip": True, "note": "a key computed by a closure with arithmetic is not read by C17.CANON: undecided by design (DESIGN §14)", "edits": [("src/errors/json.rs", "    kinds.sort_by_key(order);", "    kinds.sort_by_key(|k| order(k) / 2);")]},
    # ------------------------------------------------------------------ C13
    {"id": "c13-kind-i64-first", "props": ["C13"], "edits": [("src/serde_json.rs", """                if n.is_u64() {
                    ValueKind::Integer
                } else if n.is_i64() {
                    ValueKind::NegativeInteger""", """                if n.is_i64() {
                    ValueKind::NegativeInteger
                } else if n.is_u64() {
                    ValueKind::Integer""")]},
    {"id": "c13-as-i64-to-integer", "props": ["C13"], "edits": [("src/serde_json.rs", """                } else if let Some(n) = n.as_i64() {
                    Value::NegativeInteger(n)""", """                } else if let Some(n) = n.as_i64() {
                    Value::Integer(n as u64)""")]},
    {"id": "c13-from-drops-null-entries", "props": ["C13"], "edits": [("src/serde_json.rs", """            Value::Map(m) => m
                .into_iter()
                .map(|(k, v)| (k, JValue::from(v.into_value())))""", """            Value::Map(m) => m
                .into_iter()
                .map(|(k, v)| (k, JValue::from(v.into_value())))
                .filter(|(_, v)| !v.is_null())""")]},
    {"id": "c13-deserr-integer-as-i64", "props": ["C13"], "edits": [("src/serde_json.rs", "            Value::Integer(x) => JValue::Number(Number::from(x)),\n            Value::NegativeInteger(x) => JValue::Number(Number::from(x)),\n            Value::Float(f) => match", "            Value::Integer(x) => JValue::Number(Number::from(x as i64)),\n            Value::NegativeInteger(x) => JValue::Number(Number::from(x)),\n            Value::Float(f) => match")]},
    {"id": "c13-kind-number-is-float", "props": ["C13"], "edits": [("src/serde_json.rs", """                if n.is_u64() {
                    ValueKind::Integer
                } else if n.is_i64() {
                    ValueKind::NegativeInteger
                } else if n.is_f64() {
                    ValueKind::Float
                } else {
                    panic!();
                }""", """                let _ = n;
                ValueKind::Float""")]},
    {"id": "c13-kind-always-float", "props": ["C13"], "skip": True, "note": "dead `&& false` guards: the ladder is not read (undecided by design)", "edits": [("src/serde_json.rs", """                if n.is_u64() {
                    ValueKind::Integer
                } else if n.is_i64() {
                    ValueKind::NegativeInteger
                } else if n.is_f64() {""", """                if n.is_u64() && false {
                    ValueKind::Integer
                } else if n.is_i64() && false {
                    ValueKind::NegativeInteger
                } else if n.is_f64() || true {""")]},
    {"id": "c13-bool-to-string", "props": ["C13"], "edits": [("src/serde_json.rs", "            Value::Boolean(b) => JValue::Bool(b),\n            Value::Integer(n) => JValue::Number(Number::from(n)),", "            Value::Boolean(b) => JValue::String(b.to_string()),\n            Value::Integer(n) => JValue::Number(Number::from(n)),")]},
    {"id": "c13-from-array-rev", "props": ["C13"], "edits": [("src/serde_json.rs", "                s.into_iter()\n                    .map(IntoValue::into_value)", "                s.into_iter()\n                    .skip(0).step_by(1)\n                    .map(IntoValue::into_value)")]},
    {"id": "c13-deserr-rejects-empty-string", "props": ["C13"], "edits": [("src/serde_json.rs", "            Value::String(s) => JValue::String(s),\n            Value::Sequence(seq) => {", "            Value::String(s) if s.len() > 1_000_000 => return Err(take_cf_content(E::error::<V>(error, ErrorKind::Unexpected { msg: String::new() }, location))),\n            Value::String(s) => JValue::String(s),\n            Value::Sequence(seq) => {")]},
    {"id": "c13-value-kind-swapped", "props": ["C13"], "edits": [("src/value.rs", "            Value::Integer(_) => ValueKind::Integer,\n            Value::NegativeInteger(_) => ValueKind::NegativeInteger,", "            Value::Integer(_) => ValueKind::NegativeInteger,\n            Value::NegativeInteger(_) => ValueKind::Integer,")]},
    # ------------------------------------------------------------------ C20
    {"id": "c20-actix-422", "props": ["C20"], "edits": [("src/actix_web/serde_json.rs", "        actix_web::http::StatusCode::BAD_REQUEST", "        actix_web::http::StatusCode::UNPROCESSABLE_ENTITY")]},
    {"id": "c20-actix-framework-error-replaced", "props": ["C20"], "edits": [("src/actix_web/serde_json.rs", "            Err(err) => Err(err),", "            Err(err) => Err(actix_web::error::ErrorBadRequest(err.to_string())),")]},
    {"id": "c20-actix-default-on-null", "props": ["C20"], "edits": [("src/actix_web/serde_json.rs", "            Ok(data) => match deserr::deserialize::<_, _, E>(data.into_inner()) {", "            Ok(data) => match deserr::deserialize::<_, _, E>({ let v = data.into_inner(); if v.is_null() { serde_json::Value::Object(Default::default()) } else { v } }) {")]},
    {"id": "c20-query-lowercased", "props": ["C20"], "edits": [("src/actix_web/query_parameters.rs", "        let value = Query::<serde_json::Value>::from_query(query_str)?;", "        let lowered = query_str.to_lowercase();\n        let value = Query::<serde_json::Value>::from_query(&lowered)?;")]},
    {"id": "c20-axum-rejection-always-deserr", "props": ["C20"], "edits": [("src/axum/serde_json.rs", "            AxumJsonRejection::JsonRejection(e) => e.into_response(),\n        }\n    }\n}\n\nimpl IntoResponse for JsonError", "            AxumJsonRejection::JsonRejection(e) => (StatusCode::BAD_REQUEST, e.body_text()).into_response(),\n        }\n    }\n}\n\nimpl IntoResponse for JsonError")]},
    {"id": "c20-axum-body-empty", "props": ["C20"], "edits": [("src/axum/serde_json.rs", "        (StatusCode::BAD_REQUEST, self.to_string()).into_response()", "        (StatusCode::BAD_REQUEST, String::new()).into_response()")]},
    {"id": "c20-axum-null-is-ok", "props": ["C20"], "edits": [("src/axum/serde_json.rs", "        let data = deserr::deserialize::<_, _, _>(value)?;", "        let value = if value.is_null() { serde_json::json!({}) } else { value };\n        let data = deserr::deserialize::<_, _, _>(value)?;")]},
    {"id": "c20-query-error-swallowed", "props": ["C20"], "edits": [("src/actix_web/query_parameters.rs", "            .map(ok)\n            .unwrap_or_else(err)", "            .map(ok)\n            .unwrap_or_else(|e| err(actix_web::error::ErrorBadRequest(e.to_string())))")]},
    # ------------------------------------------------------------------ C14
    {"id": "c14-missing-field-no-location", "props": ["C14"], "edits": [("src/errors/json.rs", '                format!("Missing field `{field}`{location}")', '                let _ = &location;\n                format!("Missing field `{field}`")')]},
    {"id": "c14-unexpected-no-location", "props": ["C14"], "edits": [("src/errors/json.rs", '                format!("Invalid value{location}: {msg}")', '                let _ = &location;\n                format!("Invalid value: {msg}")')]},
    {"id": "c14-did-you-mean-empty-list", "props": ["C14"], "edits": [("src/errors/json.rs", "                    did_you_mean(key, accepted),", "                    did_you_mean(key, &[]),")]},
    {"id": "c14-accepted-take-3", "props": ["C14"], "edits": [("src/errors/json.rs", """                    key,
                    did_you_mean(key, accepted),
                    accepted
                        .iter()""", """                    key,
                    did_you_mean(key, accepted),
                    accepted
                        .iter()
                        .take(3)""")]},
    {"id": "c14-rec-key-before-prev", "props": ["C14"], "edits": [("src/errors/json.rs", '            ValuePointerRef::Key { key, prev } => rec(*prev) + "." + key,', '            ValuePointerRef::Key { key, prev } => String::from(".") + key + &rec(*prev),')]},
    {"id": "c14-index-from-prev", "props": ["C14"], "edits": [("src/errors/json.rs", '            ValuePointerRef::Index { index, prev } => format!("{}[{index}]", rec(*prev)),', '            ValuePointerRef::Index { index: _, prev } => format!("{}[{}]", rec(*prev), matches!(prev, ValuePointerRef::Origin) as usize),')]},
    {"id": "c14-badlen-expected-twice", "props": ["C14"], "edits": [("src/errors/json.rs", """                    location,
                    len,
                    expected,
                    serde_json::to_string""", """                    location,
                    expected,
                    expected,
                    serde_json::to_string""")]},
    {"id": "c14-query-always-dot", "props": ["C14"], "edits": [("src/errors/query_params.rs", "                if matches!(prev, ValuePointerRef::Origin) {", "                if matches!(prev, ValuePointerRef::Index { .. }) {")]},
    {"id": "c14-query-unknown-value-other-location", "props": ["C14"], "edits": [("src/errors/query_params.rs", """                let location = location_query_param_description(location, " for parameter");
                format!(
                    "Unknown value `{}`{location}: {}expected one of {}",""", """                let location = location_query_param_description(ValuePointerRef::Origin, " for parameter");
                format!(
                    "Unknown value `{}`{location}: {}expected one of {}",""")]},
    {"id": "c14-value-kind-of-other", "props": ["C14"], "edits": [("src/errors/json.rs", "                serde_json::to_string(v).unwrap()\n            )\n        }\n    }\n}", "                serde_json::to_string(&serde_json::Value::Null).unwrap()\n            )\n        }\n    }\n}")]},
    {"id": "c14-merge-at-origin", "props": ["C14"], "edits": [("src/errors/json.rs", """                msg: other.to_string(),
            },
            merge_location,""", """                msg: other.to_string(),
            },
            ValuePointerRef::Origin,""")]},
    # ------------------------------------------------------------------ behaviour-preserving variants (must stay silent)
    {"id": "unchanged-tree", "kind": "preserving", "decided": True, "props": [], "edits": [
        ("src/lib.rs", "#![doc = include_str!", "#![doc = include_str!")], "note": "the pinned tree: silent and nothing UNDECIDED"},
    {"id": "keep-comments-shift-lines", "kind": "preserving", "props": [], "edits": [
        (IMPLS, "use crate::{", "// a comment\n\n// another comment that shifts every line number\n\nuse crate::{"),
        ("src/errors/json.rs", "use super::helpers::did_you_mean;", "// shifted\n\n\nuse super::helpers::did_you_mean;"),
        (NF, "use crate::parse_type::NamedFieldsInfo;", "// shifted\n\nuse crate::parse_type::NamedFieldsInfo;")]},
    {"id": "keep-rename-locals-vec", "kind": "preserving", "props": [], "edits": [
        (IMPLS, """                let mut error = None;
                let mut vec = Vec::with_capacity(seq.len());
                for (index, value) in seq.into_iter().enumerate() {
                    let result =
                        T::deserialize_from_value(value.into_value(), location.push_index(index));
                    match result {
                        Ok(value) => {
                            vec.push(value);
                        }
                        Err(e) => {
                            error = match E::merge(error, e, location.push_index(index)) {
                                ControlFlow::Continue(e) => Some(e),
                                ControlFlow::Break(e) => return Err(e),
                            };
                        }
                    }
                }
                if let Some(e) = error {
                    Err(e)
                } else {
                    Ok(vec)
                }""", """                let mut accumulated = None;
                let mut out = Vec::with_capacity(seq.len());
                for (i, item) in seq.into_iter().enumerate() {
                    match T::deserialize_from_value(item.into_value(), location.push_index(i)) {
                        Ok(parsed) => out.push(parsed),
                        Err(child_error) => {
                            let here = location.push_index(i);
                            accumulated = match E::merge(accumulated, child_error, here) {
                                ControlFlow::Continue(merged) => Some(merged),
                                ControlFlow::Break(stop) => return Err(stop),
                            };
                        }
                    }
                }
                match accumulated {
                    Some(e) => Err(e),
                    None => Ok(out),
                }""")]},
    {"id": "keep-option-match-form", "kind": "preserving", "props": [], "edits": [
        (IMPLS, "            value => T::deserialize_from_value(value, location).map(Some),", """            value => match T::deserialize_from_value(value, location) {
                Ok(inner) => Ok(Some(inner)),
                Err(e) => Err(e),
            },""")]},
    {"id": "keep-map-parse-key", "kind": "preserving", "props": [], "occurrence": "all", "edits": [
        (IMPLS, "                    match Key::from_str(&string_key) {", "                    match string_key.parse::<Key>() {")]},
    {"id": "keep-tuple-question-free", "kind": "preserving", "props": [], "edits": [
        (IMPLS, """                if let Some(error) = error {
                    Err(error)
                } else {
                    Ok((a.unwrap(), b.unwrap()))
                }""", """                match error {
                    None => Ok((a.unwrap(), b.unwrap())),
                    Some(error) => Err(error),
                }""")]},
    {"id": "keep-to-owned-reverse-in-place", "kind": "preserving", "props": [], "edits": [
        ("src/value.rs", "        let components = components.into_iter().rev().collect();\n        ValuePointer { path: components }", "        components.reverse();\n        ValuePointer { path: components }")]},
    {"id": "keep-first-field-match", "kind": "preserving", "props": [], "edits": [
        ("src/value.rs", "            ValuePointerRef::Key { key, prev } => prev.first_field().or(Some(key)),", """            ValuePointerRef::Key { key, prev } => match prev.first_field() {
                Some(first) => Some(first),
                None => Some(key),
            },""")]},
    {"id": "keep-did-you-mean-if-chain", "kind": "preserving", "props": [], "edits": [
        ("src/errors/helpers.rs", """    let typo_allowed = match received.len() {
        // no typos are allowed, we can early return
        0..=3 => return String::new(),
        4..=7 => 1,
        8..=12 => 2,
        13..=17 => 3,
        18..=24 => 4,
        _ => 5,
    };""", """    let len = received.len();
    let typo_allowed = if len < 4 {
        return String::new();
    } else if len <= 7 {
        1
    } else if len < 13 {
        2
    } else if len <= 17 {
        3
    } else if len < 25 {
        4
    } else {
        5
    };""")]},
    {"id": "keep-derive-template-cosmetics", "kind": "preserving", "props": [], "edits": [
        (NF, "        for (deserr_key__, deserr_value__) in ::deserr::Map::into_iter(deserr_map__) {\n            match deserr_key__.as_str() {", "        let deserr_entries__ = ::deserr::Map::into_iter(deserr_map__);\n        for (deserr_key__, deserr_value__) in deserr_entries__ {\n            let deserr_key_str__: &str = deserr_key__.as_str();\n            match deserr_key_str__ {"),
        (NF, """        if let Some(deserr_error__) = deserr_error__ {
            ::std::result::Result::Err(deserr_error__)
        } else {""", """        if let ::std::option::Option::Some(deserr_final_error__) = deserr_error__ {
            ::std::result::Result::Err(deserr_final_error__)
        } else {""")]},
    {"id": "keep-json-error-arm-order", "kind": "preserving", "props": [], "edits": [
        ("src/errors/json.rs", """            ErrorKind::MissingField { field } => {
                let location = location_json_description(location, " inside");
                format!("Missing field `{field}`{location}")
            }
""", ""),
        ("src/errors/json.rs", """            ErrorKind::Unexpected { msg } => {
                let location = location_json_description(location, " at");
                format!("Invalid value{location}: {msg}")
            }
""", """            ErrorKind::Unexpected { msg } => {
                let location = location_json_description(location, " at");
                format!("Invalid value{location}: {msg}")
            }
            ErrorKind::MissingField { field } => {
                let where_ = location_json_description(location, " inside");
                format!("Missing field `{field}`{where_}")
            }
""")]},
    {"id": "keep-merge-rename-self-fields", "kind": "preserving", "props": [], "edits": [
        (AP, """        if let Some(rename) = other.rename {
            if let Some(self_rename) = &self.rename {
                return Err(syn::Error::new_spanned(
                    self_rename,
                    "The `rename` field attribute is defined twice.",
                ));
            }
            self.rename = Some(rename)
        }""", """        match (other.rename, &self.rename) {
            (Some(_), Some(already)) => {
                return Err(syn::Error::new_spanned(
                    already,
                    "The `rename` field attribute is defined twice.",
                ));
            }
            (Some(rename), None) => self.rename = Some(rename),
            (None, _) => {}
        }""")]},
    {"id": "keep-c17-or-pattern-merge", "kind": "preserving", "props": [], "edits": [
        ("src/errors/json.rs", """            [ValueKind::Integer | ValueKind::NegativeInteger, ValueKind::Float, rest @ ..] => {
                ("a number".to_owned(), rest)
            }
            [ValueKind::Integer, ValueKind::NegativeInteger, ValueKind::Float, rest @ ..] => {
                ("a number".to_owned(), rest)
            }""", """            [ValueKind::Integer | ValueKind::NegativeInteger, ValueKind::Float, rest @ ..]
            | [ValueKind::Integer, ValueKind::NegativeInteger, ValueKind::Float, rest @ ..] => {
                ("a number".to_owned(), rest)
            }""")]},
    {"id": "keep-vec-continue-style", "kind": "preserving", "props": [], "edits": [
        (IMPLS, """                    let result =
                        T::deserialize_from_value(value.into_value(), location.push_index(index));
                    match result {
                        Ok(value) => {
                            vec.push(value);
                        }
                        Err(e) => {
                            error = match E::merge(error, e, location.push_index(index)) {
                                ControlFlow::Continue(e) => Some(e),
                                ControlFlow::Break(e) => return Err(e),
                            };
                        }
                    }
                }
                if let Some(e) = error {
                    Err(e)
                } else {
                    Ok(vec)
                }""", """                    let value = match T::deserialize_from_value(value.into_value(), location.push_index(index)) {
                        Ok(value) => value,
                        Err(e) => {
                            error = match E::merge(error, e, location.push_index(index)) {
                                ControlFlow::Continue(e) => Some(e),
                                ControlFlow::Break(e) => return Err(e),
                            };
                            continue;
                        }
                    };
                    vec.push(value);
                }
                if let Some(e) = error {
                    Err(e)
                } else {
                    Ok(vec)
                }""")]},
    {"id": "keep-derive-field-location-let", "kind": "preserving", "props": [], "edits": [
        (NF, """                        #field_names = match
                            <#field_tys as ::deserr::Deserr<#field_errs>>::deserialize_from_value(
                                ::deserr::IntoValue::into_value(deserr_value__),
                                deserr_location__.push_key(deserr_key__.as_str())
                            ) {""", """                        let deserr_field_location__ = deserr_location__.push_key(deserr_key__.as_str());
                        #field_names = match
                            <#field_tys as ::deserr::Deserr<#field_errs>>::deserialize_from_value(
                                ::deserr::IntoValue::into_value(deserr_value__),
                                deserr_field_location__
                            ) {"""),
        (NF, """                                        deserr_error__,
                                        e,
                                        deserr_location__.push_key(deserr_key__.as_str())
                                    ) {""", """                                        deserr_error__,
                                        e,
                                        deserr_field_location__
                                    ) {""")]},
    {"id": "keep-take-cf-or-pattern", "kind": "preserving", "props": [], "edits": [
        ("src/lib.rs", """    match r {
        ControlFlow::Continue(x) => x,
        ControlFlow::Break(x) => x,
    }""", """    match r {
        ControlFlow::Continue(x) | ControlFlow::Break(x) => x,
    }""")]},
    {"id": "keep-deserialize-let", "kind": "preserving", "props": [], "edits": [
        ("src/lib.rs", "    Ret::deserialize_from_value(value.into_value(), ValuePointerRef::Origin)", "    let view = value.into_value();\n    let origin = ValuePointerRef::Origin;\n    Ret::deserialize_from_value(view, origin)")]},
    {"id": "keep-json-error-no-push-str", "kind": "preserving", "props": [], "edits": [
        ("src/errors/json.rs", """        let mut message = String::new();

        message.push_str(&match error {
            ErrorKind::IncorrectValueKind { actual, accepted } => {
                let expected = value_kinds_description_json(accepted);""", """        let message = match error {
            ErrorKind::IncorrectValueKind { actual, accepted } => {
                let expected = value_kinds_description_json(accepted);"""),
        ("src/errors/json.rs", """                format!("Invalid value{location}: {msg}")
            }
        });

        ControlFlow::Break(JsonError::new(message))""", """                format!("Invalid value{location}: {msg}")
            }
        };

        ControlFlow::Break(JsonError::new(message))""")]},
    {"id": "keep-is-missing-if-let", "kind": "preserving", "props": [], "edits": [
        ("src/lib.rs", "        matches!(self, FieldState::Missing)", "        if let FieldState::Missing = self {\n            true\n        } else {\n            false\n        }")]},
    {"id": "keep-array-manual-collect", "kind": "preserving", "props": [], "edits": [
        (IMPLS, """                } else if let Ok(ret) = ret.try_into() {
                    Ok(ret)
                } else {
                    panic!("Could not convert Vec<T> into [T; N]")
                }""", """                } else {
                    match <[T; N]>::try_from(ret) {
                        Ok(array) => Ok(array),
                        Err(_) => panic!("Could not convert Vec<T> into [T; N]"),
                    }
                }""")]},
    {"id": "keep-derive-build-lets", "kind": "preserving", "props": [], "edits": [
        (NF, """            ::std::result::Result::Ok(#create {
                #(
                    #field_names : #field_names.map(#field_maps).unwrap(),
                )*
            })""", """            #(
                let #field_names = #field_names.map(#field_maps).unwrap();
            )*
            ::std::result::Result::Ok(#create {
                #(
                    #field_names : #field_names,
                )*
            })""")]},
    {"id": "keep-derive-tag-match-form", "kind": "preserving", "props": [], "edits": [
        (DE, """                        let tag_value = ::deserr::Map::remove(&mut deserr_map__, #tag).ok_or_else(|| {
                            ::deserr::take_cf_content(<#err_ty as ::deserr::DeserializeError>::error::<V>(
                                None,
                                ::deserr::ErrorKind::MissingField {
                                    field: #tag,
                                },
                                deserr_location__
                            ))
                        })?;""", """                        let tag_value = match ::deserr::Map::remove(&mut deserr_map__, #tag) {
                            ::std::option::Option::Some(tag_value) => tag_value,
                            ::std::option::Option::None => {
                                return ::std::result::Result::Err(::deserr::take_cf_content(<#err_ty as ::deserr::DeserializeError>::error::<V>(
                                    None,
                                    ::deserr::ErrorKind::MissingField {
                                        field: #tag,
                                    },
                                    deserr_location__
                                )));
                            }
                        };""")]},
    {"id": "keep-vec-manual-counter", "kind": "preserving", "props": [], "occurrence": 1, "edits": [
        (IMPLS, """                for (index, value) in seq.into_iter().enumerate() {
                    let result =
                        T::deserialize_from_value(value.into_value(), location.push_index(index));
                    match result {
                        Ok(value) => {
                            set.insert(value);
                        }
                        Err(e) => {
                            error = match E::merge(error, e, location.push_index(index)) {
                                ControlFlow::Continue(e) => Some(e),
                                ControlFlow::Break(e) => return Err(e),
                            };
                        }
                    }
                }""", """                let mut index = 0;
                for value in seq.into_iter() {
                    let result =
                        T::deserialize_from_value(value.into_value(), location.push_index(index));
                    match result {
                        Ok(value) => {
                            set.insert(value);
                        }
                        Err(e) => {
                            error = match E::merge(error, e, location.push_index(index)) {
                                ControlFlow::Continue(e) => Some(e),
                                ControlFlow::Break(e) => return Err(e),
                            };
                        }
                    }
                    index += 1;
                }""")]},
    {"id": "c04-manual-counter-skips-on-error", "props": ["C04"], "occurrence": 1, "edits": [
        (IMPLS, """                for (index, value) in seq.into_iter().enumerate() {
                    let result =
                        T::deserialize_from_value(value.into_value(), location.push_index(index));
                    match result {
                        Ok(value) => {
                            set.insert(value);
                        }
                        Err(e) => {
                            error = match E::merge(error, e, location.push_index(index)) {
                                ControlFlow::Continue(e) => Some(e),
                                ControlFlow::Break(e) => return Err(e),
                            };
                        }
                    }
                }""", """                let mut index = 0;
                for value in seq.into_iter() {
                    let result =
                        T::deserialize_from_value(value.into_value(), location.push_index(index));
                    match result {
                        Ok(value) => {
                            set.insert(value);
                            index += 1;
                        }
                        Err(e) => {
                            error = match E::merge(error, e, location.push_index(index)) {
                                ControlFlow::Continue(e) => Some(e),
                                ControlFlow::Break(e) => return Err(e),
                            };
                        }
                    }
                }""")]},
    {"id": "keep-char-tuple-match", "kind": "preserving", "props": [], "edits": [
        (IMPLS, """                if let Some(value) = iter.next() {
                    if iter.next().is_none() {
                        Ok(value)
                    } else {
                        let len = 2 + iter.count();
                        Err(take_cf_content(E::error::<Infallible>(
                            None,
                            ErrorKind::Unexpected {
                                msg: format!("expected a string of one character, but found the following string of {} characters: `{}`", len, s),
                            },
                            location,
                        )))
                    }
                } else {
                    Err(take_cf_content(E::error::<Infallible>(
                        None,
                        ErrorKind::Unexpected {
                            msg: String::from(
                                "expected a string of one character, but found an empty string",
                            ),
                        },
                        location,
                    )))
                }""", """                match (iter.next(), iter.next()) {
                    (Some(value), None) => Ok(value),
                    (None, _) => Err(take_cf_content(E::error::<Infallible>(
                        None,
                        ErrorKind::Unexpected {
                            msg: String::from(
                                "expected a string of one character, but found an empty string",
                            ),
                        },
                        location,
                    ))),
                    (Some(_), Some(_)) => {
                        let len = 2 + iter.count();
                        Err(take_cf_content(E::error::<Infallible>(
                            None,
                            ErrorKind::Unexpected {
                                msg: format!("expected a string of one character, but found the following string of {} characters: `{}`", len, s),
                            },
                            location,
                        )))
                    }
                }""")]},
    # ---- round 2 of behaviour-preserving variants: private helpers renamed, string building restyled
    {"id": "keep-rename-private-helpers", "kind": "preserving", "props": [], "occurrence": "all", "edits": [
        ("src/errors/json.rs", "description_rec", "describe_rest"),
        ("src/errors/json.rs", "single_description", "describe_one"),
        ("src/errors/json.rs", "fn order(", "fn rank("),
        ("src/errors/json.rs", "sort_by_key(order)", "sort_by_key(rank)"),
        ("src/errors/json.rs", "rec(", "walk("),
        ("src/errors/query_params.rs", "rec(", "walk("),
    ]},
    {"id": "keep-loc-key-format", "kind": "preserving", "props": [], "edits": [
        ("src/errors/json.rs", 'ValuePointerRef::Key { key, prev } => rec(*prev) + "." + key,', 'ValuePointerRef::Key { key, prev } => format!("{}.{key}", rec(*prev)),'),
        ("src/errors/query_params.rs", 'rec(*prev) + "." + key', 'format!("{}.{}", rec(*prev), key)'),
    ]},
    {"id": "keep-loc-index-add", "kind": "preserving", "props": [], "edits": [
        ("src/errors/json.rs", 'ValuePointerRef::Index { index, prev } => format!("{}[{index}]", rec(*prev)),', 'ValuePointerRef::Index { index, prev } => rec(*prev) + "[" + &index.to_string() + "]",'),
    ]},
    {"id": "keep-query-origin-if-let", "kind": "preserving", "props": [], "edits": [
        ("src/errors/query_params.rs", "                if matches!(prev, ValuePointerRef::Origin) {\n                    key.to_owned()\n                } else {\n                    rec(*prev) + \".\" + key\n                }",
         "                match prev {\n                    ValuePointerRef::Origin => key.to_string(),\n                    _ => rec(*prev) + \".\" + key,\n                }"),
    ]},
    {"id": "keep-query-origin-is-origin", "kind": "preserving", "props": [], "edits": [
        ("src/errors/query_params.rs", "                if matches!(prev, ValuePointerRef::Origin) {", "                if prev.is_origin() {"),
    ]},
    {"id": "c14-index-wrong-brackets", "props": ["C14"], "edits": [("src/errors/json.rs", 'format!("{}[{index}]", rec(*prev))', 'format!("{}.{index}", rec(*prev))')]},
    {"id": "c14-key-no-separator-nested", "props": ["C14"], "edits": [("src/errors/json.rs", 'rec(*prev) + "." + key,', 'rec(*prev) + key,')]},
    {"id": "c17-join-two-items-comma", "props": ["C17"], "edits": [("src/errors/json.rs", '            } else if *count_items == 1 {\n                message.push_str(&format!(" or {msg_part}"));', '            } else if *count_items == 1 && false {\n                message.push_str(&format!(" or {msg_part}"));')]},
    {"id": "c17-join-no-increment", "props": ["C17"], "edits": [("src/errors/json.rs", "            *count_items += 1;\n", "            *count_items |= 1;\n")]},
    {"id": "c17-join-counter-starts-at-one", "props": ["C17"], "edits": [("src/errors/json.rs", "description_rec(kinds.as_slice(), &mut 0, &mut message);", "description_rec(kinds.as_slice(), &mut 1, &mut message);")]},
    {"id": "keep-c17-join-match-form", "kind": "preserving", "props": [], "edits": [("src/errors/json.rs", """            if *count_items == 0 {
                message.push_str(&msg_part);
            } else if *count_items == 1 {
                message.push_str(&format!(" or {msg_part}"));
            } else {
                message.push_str(&format!(", or {msg_part}"));
            }""", """            match *count_items {
                0 => {}
                1 => message.push_str(" or "),
                _ => message.push_str(", or "),
            }
            message.push_str(&msg_part);""")]},
    {"id": "keep-c17-join-add-assign", "kind": "preserving", "props": [], "edits": [("src/errors/json.rs", """            if *count_items == 0 {
                message.push_str(&msg_part);
            } else {
                message.push_str(&format!(", {msg_part}"));
            }
""", """            if *count_items > 0 {
                *message += ", ";
            }
            *message += &msg_part;
""")]},
    {"id": "keep-vec-merge-helper", "kind": "preserving", "props": [], "edits": [
        (IMPLS, """                        Err(e) => {
""" + VEC_MERGE + """
                        }
                    }
                }
                if let Some(e) = error {
                    Err(e)
                } else {
                    Ok(vec)
                }""", """                        Err(e) => {
                            error = fold_child_error(error, e, location.push_index(index))?;
                        }
                    }
                }
                if let Some(e) = error {
                    Err(e)
                } else {
                    Ok(vec)
                }"""),
        (IMPLS, "impl<T, E> Deserr<E> for Vec<T>\nwhere", """/// Hands a child's error to the accumulated one: `Ok(Some(merged))` to keep going, `Err(merged)` to stop.
fn fold_child_error<E>(acc: Option<E>, e: E, location: ValuePointerRef) -> Result<Option<E>, E>
where
    E: DeserializeError,
{
    match E::merge(acc, e, location) {
        ControlFlow::Continue(e) => Ok(Some(e)),
        ControlFlow::Break(e) => Err(e),
    }
}

impl<T, E> Deserr<E> for Vec<T>
where"""),
    ]},
    {"id": "keep-rename-impl-generics", "kind": "preserving", "props": [], "edits": [
        (IMPLS, """impl<T, E> Deserr<E> for Vec<T>
where
    T: Deserr<E>,
    E: DeserializeError,
{
    fn deserialize_from_value<V: IntoValue>(
        value: Value<V>,
        location: ValuePointerRef,
    ) -> Result<Self, E> {""", """impl<Item, Er> Deserr<Er> for Vec<Item>
where
    Item: Deserr<Er>,
    Er: DeserializeError,
{
    fn deserialize_from_value<Src: IntoValue>(
        value: Value<Src>,
        location: ValuePointerRef,
    ) -> Result<Self, Er> {"""),
        (IMPLS, """                    let result =
                        T::deserialize_from_value(value.into_value(), location.push_index(index));
                    match result {
                        Ok(value) => {
                            vec.push(value);
                        }
                        Err(e) => {
""" + VEC_MERGE, """                    let result =
                        Item::deserialize_from_value(value.into_value(), location.push_index(index));
                    match result {
                        Ok(value) => {
                            vec.push(value);
                        }
                        Err(e) => {
""" + VEC_MERGE.replace("E::merge", "Er::merge")),
        (IMPLS, """            v => Err(take_cf_content(E::error(
                None,
                ErrorKind::IncorrectValueKind {
                    actual: v,
                    accepted: &[ValueKind::Sequence],
                },
                location,
            ))),
        }
    }
}

impl<T, E> Deserr<E> for Option<T>""", """            v => Err(take_cf_content(Er::error(
                None,
                ErrorKind::IncorrectValueKind {
                    actual: v,
                    accepted: &[ValueKind::Sequence],
                },
                location,
            ))),
        }
    }
}

impl<T, E> Deserr<E> for Option<T>"""),
    ]},
]
