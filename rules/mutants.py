"""Mutant corpus for the checker self-test: each entry is a small edit of /repo that breaks a property
while still compiling and passing the 45 baseline tests (kind 'mutant'), or that keeps behaviour
(kind 'preserving': every check must stay silent). `edits` are (file, old text, new text);
`occurrence` selects which match of the old text is replaced (default: first)."""

IMPLS = "src/impls.rs"
NF = "derive/src/derive_named_fields.rs"
PT = "derive/src/parse_type.rs"
DE = "derive/src/derive_enum.rs"
AP = "derive/src/attribute_parser.rs"

VEC_MERGE = """                            error = match E::merge(error, e, location.push_index(index)) {
                                ControlFlow::Continue(e) => Some(e),
                                ControlFlow::Break(e) => return Err(e),
                            };"""

MUTANTS = [
    # ------------------------------------------------------------------ C01
    {"id": "c01-map-ok-again", "props": ["C01"], "edits": [(IMPLS, """                if let Some(e) = error {
                    Err(e)
                } else {
                    Ok(res)
                }""", "                Ok(res)")]},
    {"id": "c01-vec-drop-acc", "props": ["C01"], "edits": [(IMPLS, """                if let Some(e) = error {
                    Err(e)
                } else {
                    Ok(vec)
                }""", "                Ok(vec)")]},
    {"id": "c01-option-ok", "props": ["C01"], "edits": [(IMPLS, "value => T::deserialize_from_value(value, location).map(Some),",
                                                         "value => Ok(T::deserialize_from_value(value, location).ok()),")]},
    {"id": "c01-derive-ok-first", "props": ["C01"], "edits": [(NF, """        if let Some(deserr_error__) = deserr_error__ {
            ::std::result::Result::Err(deserr_error__)
        } else {""", """        if false {
            ::std::result::Result::Err(deserr_error__.unwrap())
        } else {""")]},
    {"id": "c01-let-underscore", "props": ["C01"], "edits": [(IMPLS, """                        Err(e) => {
""" + VEC_MERGE, """                        Err(e) => {
                            let _ = E::merge(None, e, location.push_index(index));""")]},
    # ------------------------------------------------------------------ C02
    {"id": "c02-vec-break", "props": ["C02"], "edits": [(IMPLS, VEC_MERGE, VEC_MERGE + "\n                            break;")]},
    {"id": "c02-tuple-return-continue", "props": ["C02"], "edits": [(IMPLS, """                        error = match E::merge(error, e, location.push_index(0)) {
                            ControlFlow::Continue(e) => Some(e),""", """                        error = match E::merge(error, e, location.push_index(0)) {
                            ControlFlow::Continue(e) => return Err(e),""")]},
    {"id": "c02-derive-skip-missing", "props": ["C02"], "edits": [(NF, """        #(
            if #field_names .is_missing() {
                #missing_field_errors
            }
        )*""", """        if deserr_error__.is_none() {
        #(
            if #field_names .is_missing() {
                #missing_field_errors
            }
        )*
        }""")]},
    # ------------------------------------------------------------------ C03
    {"id": "c03-hashset-swallow-break", "props": ["C03"], "occurrence": 1, "edits": [(IMPLS, VEC_MERGE, """                            error = match E::merge(error, e, location.push_index(index)) {
                                ControlFlow::Continue(e) => Some(e),
                                ControlFlow::Break(e) => Some(e),
                            };""")]},
    {"id": "c03-derive-break-continues", "props": ["C03"], "edits": [(PT, """                            ::std::ops::ControlFlow::Continue(e) => ::std::option::Option::Some(e),
                            ::std::ops::ControlFlow::Break(e) => {
                                return ::std::result::Result::Err(e)
                            }
                        };
                    }
                }
            };""", """                            ::std::ops::ControlFlow::Continue(e) => ::std::option::Option::Some(e),
                            ::std::ops::ControlFlow::Break(e) => ::std::option::Option::Some(e),
                        };
                    }
                }
            };""")]},
    {"id": "c03-builtin-continue", "props": ["C03"], "edits": [("src/errors/json.rs", "        ControlFlow::Break(JsonError::new(message))", "        ControlFlow::Continue(JsonError::new(message))")]},
    # ------------------------------------------------------------------ C04
    {"id": "c04-array-index0", "props": ["C04"], "edits": [(IMPLS, """                for (index, elem) in iter.enumerate() {
                    let a =
                        T::deserialize_from_value(elem.into_value(), location.push_index(index));""", """                for (_index, elem) in iter.enumerate() {
                    let index = 0;
                    let a =
                        T::deserialize_from_value(elem.into_value(), location.push_index(index));""")]},
    {"id": "c04-vec-index-plus1", "props": ["C04"], "edits": [(IMPLS, "T::deserialize_from_value(value.into_value(), location.push_index(index));",
                                                                "T::deserialize_from_value(value.into_value(), location.push_index(index + 1));")]},
    {"id": "c04-vec-merge-at-parent", "props": ["C04"], "edits": [(IMPLS, "error = match E::merge(error, e, location.push_index(index)) {", "error = match E::merge(error, e, location) {")]},
    {"id": "c04-tuple-swapped-index", "props": ["C04"], "edits": [(IMPLS, """                let b = B::deserialize_from_value(
                    iter.next().unwrap().into_value(),
                    location.push_index(1),""", """                let b = B::deserialize_from_value(
                    iter.next().unwrap().into_value(),
                    location.push_index(0),""")]},
    {"id": "c04-tag-error-at-enum", "props": ["C04"], "edits": [(DE, "                                        deserr_location__.push_key(#tag)", "                                        deserr_location__")]},
    {"id": "c04-missing-at-key", "props": ["C04"], "edits": [(PT, """                            ::deserr::ErrorKind::MissingField {
                                field: #key_name,
                            },
                            deserr_location__""", """                            ::deserr::ErrorKind::MissingField {
                                field: #key_name,
                            },
                            deserr_location__.push_key(#key_name)""")]},
    {"id": "c04-actual-null", "props": ["C04"], "edits": [(IMPLS, """            v => Err(take_cf_content(E::error(
                None,
                ErrorKind::IncorrectValueKind {
                    actual: v,
                    accepted: &[ValueKind::Sequence],""", """            _v => Err(take_cf_content(E::error(
                None,
                ErrorKind::IncorrectValueKind {
                    actual: Value::<V>::Null,
                    accepted: &[ValueKind::Sequence],""")]},
    {"id": "c04-derive-child-at-parent", "props": ["C04"], "edits": [(NF, """                                ::deserr::IntoValue::into_value(deserr_value__),
                                deserr_location__.push_key(deserr_key__.as_str())""", """                                ::deserr::IntoValue::into_value(deserr_value__),
                                deserr_location__""")]},
    {"id": "c04-push-key-prev", "props": ["C04"], "edits": [("src/value.rs", "        Self::Index { index, prev: self }", "        Self::Index { index: index + 0 * 1 + 1, prev: self }")]},
    # ------------------------------------------------------------------ C06
    {"id": "c06-tuple-len-lt", "props": ["C06"], "edits": [(IMPLS, "                if len != 2 {", "                if len < 2 {")]},
    {"id": "c06-vec-insert-front", "props": ["C06"], "edits": [(IMPLS, "                            vec.push(value);", "                            vec.insert(0, value);")]},
    {"id": "c06-vec-rev", "props": ["C06"], "edits": [(IMPLS, "                for (index, value) in seq.into_iter().enumerate() {\n                    let result =\n                        T::deserialize_from_value(value.into_value(), location.push_index(index));\n                    match result {\n                        Ok(value) => {\n                            vec.push(value);",
                                                     "                for (index, value) in seq.into_iter().enumerate().collect::<Vec<_>>().into_iter().rev() {\n                    let result =\n                        T::deserialize_from_value(value.into_value(), location.push_index(index));\n                    match result {\n                        Ok(value) => {\n                            vec.push(value);")]},
    {"id": "c06-array-expected-plus1", "props": ["C06"], "edits": [(IMPLS, "                            actual: seq,\n                            expected: N,", "                            actual: seq,\n                            expected: N + 1,")]},
    {"id": "c06-option-empty-string-none", "props": ["C06"], "edits": [(IMPLS, "            Value::Null => Ok(None),\n            value => T::deserialize_from_value(value, location).map(Some),",
                                                                       "            Value::Null => Ok(None),\n            Value::String(s) if s.is_empty() => Ok(None),\n            value => T::deserialize_from_value(value, location).map(Some),")]},
    {"id": "c06-vec-truncate", "props": ["C06"], "edits": [(IMPLS, "                if let Some(e) = error {\n                    Err(e)\n                } else {\n                    Ok(vec)\n                }", "                if let Some(e) = error {\n                    Err(e)\n                } else {\n                    vec.truncate(1000);\n                    Ok(vec)\n                }")]},
    {"id": "c06-map-key-msg-drops-key", "props": ["C06"], "edits": [(IMPLS, 'msg: format!("the key \\"{string_key}\\" could not be deserialized into the key type `{}`",\n                                    std::any::type_name::<Key>())',
                                                                     'msg: format!("a key could not be deserialized into the key type `{}`",\n                                    std::any::type_name::<Key>())')]},
    {"id": "c06-set-skip-first", "props": ["C06"], "occurrence": 1, "edits": [(IMPLS, "for (index, value) in seq.into_iter().enumerate() {", "for (index, value) in seq.into_iter().enumerate().skip(1) {")]},
]
