"""Helpers shared by the property modules."""
from scope import Scope
from sites import BodySites


def scopes(ctx, with_catalogue=True, configs=None):
    """yield (label, Scope, local crate names) for every fact set the tier covers"""
    out = []
    if with_catalogue:
        c = ctx.corpus("catalogue")
        out.append(("catalogue+lib/default", Scope([c["deserr"], c["deserr_catalogue"]]), {"deserr", "deserr_catalogue"}))
        done_default = True
    else:
        done_default = False
    for cfg in (configs if configs is not None else ctx.lib_configs()):
        if cfg == "default" and done_default:
            continue
        l = ctx.lib(cfg)
        out.append(("lib/" + cfg, Scope([l["deserr"]]), {"deserr"}))
    return out


def short(path):
    return path.replace("deserr::", "")
