"""Helpers shared by the property modules."""
import extract
from scope import Scope
from sites import BodySites


def scopes(ctx, with_catalogue=True, configs=None, inline=True):
    """yield (label, Scope, local crate names) for every fact set the tier covers"""
    out = []
    done_default = False
    if with_catalogue:
        try:
            c = ctx.corpus("catalogue")
            out.append(("catalogue+lib/default", Scope([c["deserr"], c["deserr_catalogue"]], inline=inline), {"deserr", "deserr_catalogue"}))
            done_default = True
        except extract.CorpusBuildFailed as e:
            # the derive no longer produces compiling code for (part of) the catalogue: that is reported by the
            # derive properties C07-C11 (CORPUS.BUILD); the library-level part of this property is still decided
            ctx.degraded = "derive catalogue does not build (%s): only the hand-written library impls were analysed" % (e.first_errors(1)[0][:1] or ["?"])[0][:160]
    for cfg in (configs if configs is not None else ctx.lib_configs()):
        if cfg == "default" and done_default:
            continue
        l = ctx.lib(cfg)
        out.append(("lib/" + cfg, Scope([l["deserr"]], inline=inline), {"deserr"}))
    return out


def short(path):
    return path.replace("deserr::", "")
