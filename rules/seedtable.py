#!/usr/bin/env python3
"""Rewrites the seed table of DESIGN.md §13.1 from seeded/*/meta.json."""
import json
import os
import re

VERIF = os.path.dirname(os.path.dirname(os.path.abspath(__file__)))


def main():
    base = os.path.join(VERIF, "seeded")
    rows = []
    for d in sorted(os.listdir(base)):
        mp = os.path.join(base, d, "meta.json")
        if not os.path.exists(mp):
            continue
        m = json.load(open(mp))
        caught = "; ".join("%s (%s)" % (k, ", ".join(v)) for k, v in sorted(m["caught_by"].items())) or "none (UNDECIDED, see text)"
        rows.append("| %s | %s | %s | %s | %s |" % (m["id"], m["breaks_property"], ", ".join(m["files_changed"]), "yes" if m["confirmed"] else "NO", caught))
    head = "| seed | property | files changed | confirmed | checks that report a VIOLATION (rules) |\n|---|---|---|---|---|\n"
    table = head + "\n".join(rows) + "\n"
    p = os.path.join(VERIF, "DESIGN.md")
    s = open(p).read()
    s2 = re.sub(r"\| seed \| property \| files changed \| confirmed \| checks that report a VIOLATION \(rules\) \|\n\|---\|---\|---\|---\|---\|\n(\|.*\n)+", lambda _m: table, s, count=1)
    open(p, "w").write(s2)
    print("rows", len(rows), "owning", sum(1 for d in sorted(os.listdir(base)) if os.path.exists(os.path.join(base, d, "meta.json")) and json.load(open(os.path.join(base, d, "meta.json")))["caught_by_owning_check"]))


if __name__ == "__main__":
    main()
