"""C19 — value pointers faithfully record the path: decision tables of push_key/push_index,
to_owned, is_origin, last_field, first_field extracted from MIR and compared with the only tables
that satisfy the statement (structural induction: one push_* ↔ one arm)."""
from analysis import View, strip_refs, erase_generics, term_mentions
from check import PropResult
from lin import Finding
from loc import canon, fmt, call_name
from sites import npath
import skeleton
import p_c04


def fnd(rule, v, what, bb=None, detail=""):
    at = v.blocks[bb]["term"].get("at", "") if bb is not None else v.b.span
    return Finding(rule, v.b.path, what, at, detail)


def und(rule, v, what, bb=None, detail=""):
    f = fnd(rule, v, what, bb, detail)
    f.undecided = True
    return f


def is_recursive(v, fname):
    return any(c.fn is not None and erase_generics(npath(c.path)) == "ValuePointerRef::" + fname for _, c in v.calls())


def find(crate, name):
    for b in crate.bodies:
        if erase_generics(npath(b.path)) == "ValuePointerRef::" + name:
            return b
    return None


def self_switch(v, self_terms):
    """the switch on the discriminant of (*self) / (*cur): returns (bb, info)"""
    for bb in sorted(v.reach):
        info = v.switch_info(bb)
        if info and info["kind"] == "discr" and info["place"] is not None and npath(info.get("adt") or "") == "ValuePointerRef":
            return bb, info
    return None, None


def assigned_in(v, region, local=0):
    """terms assigned to `local` (whole) in region: [(bb, term)]"""
    out = []
    for bb in sorted(region):
        for st in v.blocks[bb]["stmts"]:
            if st["k"] == "assign" and st["place"]["l"] == local and not st["place"]["p"]:
                out.append((bb, canon(v, v.origin_rv(st["rv"], bb))))
        t = v.blocks[bb]["term"]
        if t["k"] == "call" and t["dest"]["l"] == local and not t["dest"]["p"]:
            out.append((bb, canon(v, v.origin_call(bb))))
    return out


def is_self_field(t, variant, field):
    """t == (*self as variant).field (references stripped)"""
    t = strip_refs(t)
    return t[0] == "field" and t[2] == variant and t[3] == field and strip_refs(t[1]) in (("param", 1),)


def rec_call_on_prev(v, t, fname, variant):
    """t is a recursive call fname(&*prev) where prev is the `prev` field of `variant`"""
    if not (t[0] == "call" and erase_generics(npath(v.callee(t[1]).path)) == "ValuePointerRef::" + fname and len(t[3]) == 1):
        return False
    return is_self_field(t[3][0], variant, "prev")


POSITIONAL = {"last", "nth", "next", "next_back", "min", "max"}


def _tells_key_from_index(crate, fn_path, depth=0):
    """does the function / closure distinguish a Key step from an Index step (its own match, or a helper it calls)"""
    b = next((x for x in crate.bodies if x.path == fn_path), None)
    if b is None or depth > 3:
        return None
    v = View(b)
    for bb in sorted(v.reach):
        info = v.switch_info(bb)
        if info and info["kind"] == "discr" and (info.get("adt") or "").endswith("ValuePointerRef"):
            kt = v.variant_target(info, "Key")
            it = v.variant_target(info, "Index")
            if kt is not None and kt != it:
                return True
    for bb, c in v.calls():
        if c.fn is not None and c.krate == "deserr" and c.path != fn_path:
            r = _tells_key_from_index(crate, c.path, depth + 1)
            if r:
                return True
    return False


def position_before_filter(crate, b, fname, rule):
    """An iterator formulation of first_field / last_field: a step that is picked by its position (`.last()`, `.next()`, `.nth(k)`)
    from an iterator over *all* steps and only then asked whether it is a key is the outermost / innermost step, not the
    outermost / innermost key: index steps are not ignored."""
    import inline
    import coll
    eb = inline.expand_local_helpers(crate, b)
    v = View(eb)
    out = []
    for bb, c in v.calls():
        if c.fn is None or not c.trait or erase_generics(c.trait) not in ("std::iter::Iterator", "std::iter::DoubleEndedIterator") or c.name not in POSITIONAL:
            continue
        if any(bb in body for _h, body in v.loops()):
            continue     # stepping through the items in a loop is iteration, not selection
        # adaptors between the source and the selection, with the functions they are given
        filtered = None
        t = v.origin_call(bb)
        cur = strip_refs(t[3][0]) if t[3] else None
        hops = 0
        while cur is not None and hops < 12:
            hops += 1
            al = [strip_refs(a) for a in v.alts(cur)] or [cur]
            cur = al[0] if len(al) == 1 else None
            if cur is None or cur[0] != "call":
                break
            cc = v.callee(cur[1])
            if cc is None or cc.fn is None:
                break
            if cc.trait and erase_generics(cc.trait) == "std::iter::Iterator" and cc.name in ("filter", "filter_map", "skip_while", "flat_map", "map_while", "take_while", "find_map"):
                for a in cur[3][1:]:
                    a = strip_refs(a)
                    fp = None
                    if a[0] == "agg" and a[1] == "closure" and len(a) > 3:
                        fp = a[3]
                    elif a[0] == "fnconst":
                        fp = a[1] if len(a) > 1 else None
                    if fp is not None:
                        r = _tells_key_from_index(crate, fp)
                        if r:
                            filtered = True
                        elif r is None and filtered is None:
                            filtered = "unknown"
            cur = strip_refs(cur[3][0]) if cur[3] else None
        if filtered is True or filtered == "unknown":
            continue
        # is the picked step asked for its key afterwards?
        asked = False
        for bb2, c2 in v.calls():
            if bb2 == bb or c2.fn is None:
                continue
            for a in v.origin_call(bb2)[3]:
                a = strip_refs(a)
                fp = a[3] if (a[0] == "agg" and a[1] == "closure" and len(a) > 3) else (a[1] if a[0] == "fnconst" and len(a) > 1 else None)
                if fp is not None and _tells_key_from_index(crate, fp) and term_mentions(v.origin_call(bb2), lambda x: x[0] == "call" and x[1] == bb):
                    asked = True
        if asked:
            out.append(fnd(rule, v, "%s picks a step by its position (Iterator::%s over all steps) and only then looks whether it is a key: index steps are not skipped" % (fname, c.name), bb))
    return out


def run(ctx):
    res = PropResult("C19")
    res.level = "other"
    crate = ctx.libcrate("deserr")
    # ---- PUSH
    n, fs = p_c04.ptr_rules(ctx)
    res.add("C19.PUSH", n, fs)
    # ---- ORIGIN
    b = find(crate, "is_origin")
    fs = []
    if b is None:
        fs.append(Finding("C19.ORIGIN", "is_origin", "not found", ""))
    else:
        v = View(b)
        bb, info = self_switch(v, None)
        ok = False
        if info:
            ot = v.variant_target(info, "Origin")
            others = [t for lb, t in info["edges"] if t != ot and t not in v.unreach]
            if ot is not None and others:
                o_only = v.reachable(ot) - set().union(*[v.reachable(x) for x in others])
                n_only = set().union(*[v.reachable(x) for x in others]) - v.reachable(ot)

                def vals(blocks):
                    s = set()
                    for x in blocks:
                        for st in v.blocks[x]["stmts"]:
                            if st["k"] == "assign" and st["place"]["l"] == 0 and st["rv"]["k"] == "use" and st["rv"]["op"]["k"] == "const":
                                s.add(st["rv"]["op"].get("bool"))
                    return s
                ok = vals(o_only) == {True} and vals(n_only) == {False}
        if not ok:
            fs.append(fnd("C19.ORIGIN", v, "is_origin is not `true exactly for the Origin variant`"))
    res.add("C19.ORIGIN", 1, fs)
    # ---- LAST / FIRST
    for fname, rule in (("last_field", "C19.LAST"), ("first_field", "C19.FIRST")):
        b = find(crate, fname)
        fs = []
        if b is None:
            res.add(rule, 3, [Finding(rule, fname, "not found", "")])
            continue
        v = View(b)
        bb, info = self_switch(v, None)
        if not info or not is_recursive(v, fname) or v.loops() or not (info["place"] and strip_refs(canon(v, v.origin_place(info["place"]))) == ("param", 1)):
            # a loop / iterator formulation: the three-arm table of the recursive form does not apply.  What can still be
            # said for any formulation: the answer may lie arbitrarily deep (behind any number of index steps), so code
            # that neither loops, nor recurses, nor calls into the library's own code looks at a bounded prefix only.
            local_calls = [c for _, c in v.calls() if c.fn is not None and c.krate == "deserr"]
            if not v.loops() and not is_recursive(v, fname) and not local_calls:
                res.add(rule, 3, [fnd(rule, v, "%s examines a bounded number of steps (no loop, no recursion): keys behind a longer run of index steps are not found" % fname)])
            else:
                pf = position_before_filter(crate, b, fname, rule)
                res.add(rule, 3, pf or [und(rule, v, "%s is not written as a recursion over the pointer's variant: its table is not extracted (undecided)" % fname)])
            continue
        arms = {}
        for var in ("Origin", "Key", "Index"):
            t = v.variant_target(info, var)
            arms[var] = assigned_in(v, skeleton.dominated(v, t)) if t is not None else []
        # Origin => None
        o = arms["Origin"]
        if not (len(o) == 1 and o[0][1][0] == "agg" and o[0][1][1] == "adt" and o[0][1][4] == "None"):
            fs.append(fnd(rule, v, "Origin does not yield None"))
        # Index => recurse into prev
        i = arms["Index"]
        if not (len(i) == 1 and rec_call_on_prev(v, i[0][1], fname, "Index")):
            fs.append(fnd(rule, v, "an index step is not skipped by recursing into the previous pointer", None, fmt(i[0][1]) if i else ""))
        k = arms["Key"]
        if fname == "last_field":
            # Key => Some(key), no recursion
            okk = len(k) == 1 and k[0][1][0] == "agg" and k[0][1][1] == "adt" and k[0][1][4] == "Some" and is_self_field(k[0][1][2][0], "Key", "key")
            if not okk:
                fs.append(fnd(rule, v, "a key step does not yield Some(that key)", None, fmt(k[0][1]) if k else ""))
        else:
            # Key => first_field(prev).or(Some(key))   (ancestor wins), or an equivalent idiom
            okk = False
            if len(k) == 1 and k[0][1][0] == "call":
                t = k[0][1]
                nm = call_name(v, t)
                if nm in ("std::option::Option::or",) and len(t[3]) == 2:
                    recv, alt = t[3]
                    okk = rec_call_on_prev(v, recv, fname, "Key") and alt[0] == "agg" and alt[4] == "Some" and is_self_field(alt[2][0], "Key", "key")
                elif nm in ("std::option::Option::or_else", "std::option::Option::unwrap_or", "std::option::Option::map_or") and t[3]:
                    okk = rec_call_on_prev(v, t[3][0], fname, "Key")
            if not okk:
                # `match prev.first_field() { Some(f) => Some(f), None => Some(key) }`
                kt = v.variant_target(info, "Key")
                for x in sorted(skeleton.dominated(v, kt)) if kt is not None else []:
                    i3 = v.switch_info(x)
                    if not i3 or i3["kind"] != "discr" or i3["place"] is None:
                        continue
                    src = canon(v, v.origin_place(i3["place"]))
                    if not rec_call_on_prev(v, src, fname, "Key"):
                        continue
                    st_, nt_ = v.variant_target(i3, "Some"), v.variant_target(i3, "None")
                    if st_ is None or nt_ is None:
                        continue
                    s_only = v.reachable(st_) - v.reachable(nt_)
                    n_only = v.reachable(nt_) - v.reachable(st_)
                    sa = assigned_in(v, s_only)
                    na = assigned_in(v, n_only)
                    oks = len(sa) == 1 and (sa[0][1] == src or (sa[0][1][0] == "agg" and sa[0][1][4] == "Some" and sa[0][1][2][0][0] == "field" and sa[0][1][2][0][2] == "Some" and sa[0][1][2][0][1] == src))
                    okn = len(na) == 1 and na[0][1][0] == "agg" and na[0][1][4] == "Some" and is_self_field(na[0][1][2][0], "Key", "key")
                    okk = oks and okn
            if not okk:
                fs.append(fnd(rule, v, "for a key step the first key of the ancestors does not take precedence over this key", None, fmt(k[0][1]) if k else ""))
        res.add(rule, 3, fs)
    # ---- OWNED
    b = find(crate, "to_owned")
    fs = []
    ob = 6
    if b is None:
        fs.append(Finding("C19.OWNED", "to_owned", "not found", "", undecided=True))
    else:
        v = View(b)
        bb, info = self_switch(v, None)
        loops = v.loops()
        if not info or not loops or bb not in loops[0][1] or info["place"] is None:
            fs.append(und("C19.OWNED", v, "to_owned does not walk the pointer in a loop over its variant: its table is not extracted (undecided)"))
        else:
            body = loops[0][1]
            cur = info["place"]["l"]
            # cur starts at self
            init = [d for d in v.whole_defs(cur) if d[0] == "stmt" and d[1] not in body]
            if not (len(init) == 1 and strip_refs(canon(v, v.origin_rv(init[0][3]["rv"], init[0][1]))) == ("param", 1)):
                fs.append(fnd("C19.OWNED", v, "the walk does not start at self"))
            ot = v.variant_target(info, "Origin")
            if ot is None:
                fs.append(fnd("C19.OWNED", v, "Origin does not end the walk"))
            elif ot in body and any(s in body for s in v.succ[ot]):
                fs.append(fnd("C19.OWNED", v, "Origin does not end the walk"))
            # every push inside the loop: which components can it add, onto what, by which method
            PUSHERS = ("push", "push_back", "push_front", "insert", "extend", "append")
            pushes = [(x, c) for x, c in v.calls() if x in body and c.fn is not None and c.name in PUSHERS and (c.krate in ("alloc", "std", "core"))]
            comps = {}    # variant -> [(push bb, method, payload term)]
            unknown_push = False
            for x, c in pushes:
                args = v.blocks[x]["term"]["args"]
                if len(args) < 2:
                    unknown_push = True
                    continue
                for a in v.alts(v.origin(args[-1]), 0, frozenset([cur])):
                    a = canon(v, a)
                    if a[0] == "agg" and a[1] == "adt" and npath(a[3]) == "ValuePointerComponent" and a[2]:
                        comps.setdefault(a[4], []).append((x, c.base(), a[2][0]))
                    else:
                        unknown_push = True
            if not pushes or unknown_push and not comps:
                fs.append(und("C19.OWNED", v, "the steps are not collected by pushing components inside the loop: table not extracted (undecided)"))
            else:
                arm_regs = {}
                for var in ("Key", "Index"):
                    tv = v.variant_target(info, var)
                    arm_regs[var] = skeleton.dominated(v, tv) & body if tv is not None else set()
                for var, fld in (("Key", "key"), ("Index", "index")):
                    got = comps.get(var, [])
                    if len(got) != 1:
                        fs.append(fnd("C19.OWNED", v, "a %s step does not push exactly one component (%d pushes can add a %s component)" % (var, len(got), var)))
                        continue
                    x, meth, payload = got[0]
                    payload = strip_refs(payload)
                    if var == "Key":
                        okp = payload[0] == "call" and call_name(v, payload) in ("std::string::ToString::to_string", "std::convert::From::from", "std::borrow::ToOwned::to_owned",
                                                                                   "std::convert::Into::into", "std::string::String::from") and payload[3] and \
                            _cur_field(v, payload[3][0], cur, "Key", "key")
                    else:
                        okp = _cur_field(v, payload, cur, "Index", "index")
                    if not okp:
                        fs.append(fnd("C19.OWNED", v, "a %s step is not recorded as Component::%s(that %s)" % (var, var, fld), x, fmt(payload)))
                    # the push happens for this variant on every path: it is in the arm, or after the arms joined (tuple form)
                    if x in arm_regs[var]:
                        if any(v.blocks[y]["term"]["k"] == "switch" for y in arm_regs[var] if v.dominates(y, x) and y != x):
                            fs.append(fnd("C19.OWNED", v, "recording a %s step is conditional" % var))
                    elif not all(v.postdominates(x, y) for y in [v.variant_target(info, var)] if y is not None):
                        fs.append(fnd("C19.OWNED", v, "recording a %s step is conditional" % var))
                    # cur = prev of this variant
                    nxts = set()
                    for d in v.whole_defs(cur):
                        if d[0] == "stmt" and d[1] in body:
                            for a in v.alts(v.origin_rv(d[3]["rv"], d[1]), 0, frozenset([cur])):
                                nxts.add(strip_refs(canon(v, a)))
                    if not any(_cur_field(v, a, cur, var, "prev") for a in nxts):
                        fs.append(fnd("C19.OWNED", v, "after a %s step the walk does not continue with the previous pointer" % var))
                    if any(a[0] == "field" and a[3] != "prev" for a in nxts):
                        fs.append(fnd("C19.OWNED", v, "the walk continues with something else than the previous pointer"))
                # siblings agree: both kinds of step are added the same way (same method, same collection)
                if len(comps.get("Key", [])) == 1 and len(comps.get("Index", [])) == 1:
                    kx, km, _ = comps["Key"][0]
                    ix, im, _ = comps["Index"][0]
                    kc = strip_refs(v.origin(v.blocks[kx]["term"]["args"][0]))
                    ic = strip_refs(v.origin(v.blocks[ix]["term"]["args"][0]))
                    if km != im or kc != ic:
                        fs.append(fnd("C19.OWNED", v, "key steps and index steps are not collected the same way (%s vs %s): their relative order is lost" % (km, im), kx))
                    # order: pushed at the back while walking leaf -> origin, hence exactly one reversal; pushed at the front, none
                    revs = [x for x, c in v.calls() if c.fn is not None and c.name in ("rev", "reverse")]
                    want_rev = 0 if km.endswith("push_front") else 1
                    if km.endswith("::push") or km.endswith("push_back") or km.endswith("push_front"):
                        if len(revs) != want_rev:
                            fs.append(fnd("C19.OWNED", v, "the collected components are reversed %d times (%d required for %s while walking towards the origin)" % (len(revs), want_rev, km.split("::")[-1])))
                    else:
                        fs.append(und("C19.OWNED", v, "components are collected with %s: order not decided" % km))
                    rets = assigned_in(v, v.reach)
                    okr = False
                    for rb, tt in rets:
                        if tt[0] == "agg" and tt[1] == "adt" and npath(tt[3]) == "ValuePointer":
                            src = tt[2][0]
                            coll_l = kc
                            if term_mentions(src, lambda y: y == coll_l) or (coll_l and coll_l[0] == "call" and term_mentions(src, lambda y: y[0] == "call" and y[1] == coll_l[1])):
                                okr = True
                    if not okr:
                        fs.append(fnd("C19.OWNED", v, "the owned pointer's path is not the vector of collected components"))
    res.add("C19.OWNED", ob, fs)
    res.samples = [{"function": "to_owned", "table": "Origin: stop; Key: push Key(key.to_string()), cur = prev; Index: push Index(index), cur = prev; one reversal"},
                   {"function": "first_field", "table": "Origin: None; Index: first_field(prev); Key: first_field(prev).or(Some(key))"},
                   {"function": "last_field", "table": "Origin: None; Key: Some(key); Index: last_field(prev)"}]
    res.analysed = {"functions": ["push_key", "push_index", "is_origin", "last_field", "first_field", "to_owned"]}
    res.trusted_base = ["rustc nightly MIR construction", "mirfacts extractor", "rules/p_c19.py", "std: Vec::push appends, Iterator::rev + collect reverses, Option::or prefers the receiver"]
    res.assumptions = ["a rewrite of these functions into a shape the tables do not recognise is reported as cannot-establish"]
    res.explanation = ("Structural induction over the pointer list: each push_* adds exactly one Key/Index node with prev = self; to_owned walks from self, pushes one matching component per node, follows prev, stops at Origin and reverses once; "
                       "is_origin is the Origin discriminant test; last_field / first_field have the only three-arm tables that return the last / first key step.")
    return res


def _cur_field(v, t, cur, variant, field):
    """t == ((*cur) as variant).field, where cur is the loop variable"""
    t = strip_refs(t)
    if not (t[0] == "field" and t[2] == variant and t[3] == field):
        return False
    base = strip_refs(t[1])
    return base == ("multi", cur)
