"""C02 — keep-going error types receive every independent fault exactly once (control-structure clause)."""
import flow
from check import PropResult
from common import scopes
from sites import BodySites


def run(ctx):
    res = PropResult("C02")
    res.level = "proof"
    loops = 0
    sites = 0
    for label, sc, local in scopes(ctx):
        for c, b, role in sc.members:
            v = sc.view(c, b)
            bs = BodySites(v)
            fs, ob = flow.c02_rules(v, bs)
            sites += len(bs.sites)
            loops += sum(1 for h, body in v.loops() if any(n["bb"] in body for n in bs.nexts))
            res.add("C02.LOOP/REJOIN/LATE/STRUCT", ob, fs)
            if len(res.samples) < 6 and bs.nexts and role == "root":
                res.samples.append({"body": b.path, "config": label, "payload_loops": len([1 for h, bd in v.loops()]),
                                    "report_sites": [(s.kind, s.ek, s.handling) for s in bs.sites][:6],
                                    "children": len(bs.children)})
    import controls
    controls.run(ctx, res, "C02", lambda crate, b, v, bs: flow.c02_rules(v, bs)[0])
    res.analysed.update({"report_sites": sites, "payload_loops": loops})
    res.floor("report sites", sites, 115)
    res.floor("payload loops", loops, 8)
    res.trusted_base = ["rustc nightly MIR construction", "mirfacts extractor", "rules/flow.py + rules/sites.py"]
    res.assumptions = ["decides the control-structure half: under all-Continue answers every child is examined and no fault skips its siblings; "
                       "which positions are faults is C05/C06", "unwinding ignored", "derived code: per catalogue entry"]
    res.explanation = ("G' = CFG without Break edges. LOOP: payload loops exit only on exhaustion or Break. REJOIN: the failure arm of every child / "
                       "key-parse / conversion result reaches every examination site the success arm reaches (minus the item's own work). LATE: nothing is "
                       "examined after an accumulator was inspected. STRUCT: unconditional stops outside Break paths happen before or after, never amid, the examination.")
    return res
