"""C07 — see derive_prop.TEXT and DESIGN §5."""
import derive_prop


def run(ctx):
    res = derive_prop.run_for(ctx, "C07")
    try:
        extra(ctx, res)
    except Exception as e:   # a generator restructured beyond what the G rules read: no verdict from them
        from lin import Finding
        res.add("C07.G", 1, [Finding("C07.G", "derive generator", "generator-level rules could not read the generator (%s) (undecided)" % type(e).__name__, "", undecided=True)])
    # Verdict policy (as for C16): the per-entry comparison of the *generated* code with the reference semantics (KEYS / ARM /
    # BUILD over the whole catalogue, incl. > 20-field and variant-order entries) does not depend on how the generator is
    # written.  The generator-level rules G1-G3 extend it to all inputs only while they recognise the generator's shape; when
    # the catalogue comparison is clean, their complaints are recorded as UNDECIDED.
    cat_bad = any(not f.rule.startswith("C07.G") and not getattr(f, "undecided", False) for f in res.findings)
    if not cat_bad:
        for f in res.findings:
            if f.rule.startswith("C07.G"):
                f.undecided = True
    return res


def extra(ctx, res):
    pass


# ---------------------------------------------------------------------------------------------
# Generator-level rules (hold for ALL derive inputs): C07.G1 alignment of the zipped vectors,
# C07.G2 who is renamed by which rename_all, C07.G3 decision table of key_name_for_ident.
def extra(ctx, res):  # noqa: F811
    from analysis import View, strip_refs, erase_generics, term_mentions
    from lin import Finding
    from loc import canon, fmt, call_name
    import p_c13

    crate = ctx.libcrate("deserr_internal")

    def body(path):
        for b in crate.bodies:
            if b.path == path:
                return b
        return None

    def fnd(rule, v, what, bb=None, detail=""):
        at = v.blocks[bb]["term"].get("at", "") if bb is not None else v.b.span
        return Finding(rule, v.b.path, what, at, detail)

    def closure_returns(path):
        b = body(path)
        if b is None:
            return None
        cv = View(b)
        for bb in cv.reach:
            for st in cv.blocks[bb]["stmts"]:
                if st["k"] == "assign" and st["place"]["l"] == 0 and not st["place"]["p"]:
                    return cv, cv.origin_rv(st["rv"], bb)
        return cv, None

    # ---------------------------------------------------------------- G1
    fs = []
    nf = body("parse_type::NamedFieldsInfo::parse")
    if nf is None:
        res.add("C07.G1", 1, [Finding("C07.G1", "NamedFieldsInfo::parse", "not found", "")])
        return
    v = View(nf)
    sorts = [(bb, c) for bb, c in v.calls() if c.fn is not None and c.name and c.name.startswith("sort")]
    if len(sorts) != 1:
        fs.append(fnd("C07.G1", v, "expected exactly one sort of the fields (non-skipped first), found %d" % len(sorts)))
    else:
        sb, sc = sorts[0]
        # (that the sort is the *stable* sort_by_key matters for the declaration order of the accepted-keys list: rule C09.G1 in p_c09.py)
        clo = strip_refs(v.origin(v.blocks[sb]["term"]["args"][1]))
        ok = False
        if clo[0] == "agg" and clo[1] == "closure":
            r = closure_returns(clo[3])
            if r and r[1] is not None:
                t = strip_refs(r[1])
                ok = t[0] == "field" and t[3] == "skipped" and t[1][0] == "field" and t[1][3] == "1" and strip_refs(t[1][1]) == ("param", 2)
        if not ok:
            fs.append(fnd("C07.G1", v, "the sort key is not the field's own `skipped` flag (false < true)", sb))
        sorted_vec = strip_refs(canon(v, v.origin(v.blocks[sb]["term"]["args"][0])))
        # second pass: the same vector filtered by !skipped
        flt = [(bb, c) for bb, c in v.calls() if c.fn is not None and c.name == "filter" and c.trait and erase_generics(c.trait) == "std::iter::Iterator"]
        okf = False
        for fb, fc in flt:
            t = canon(v, v.origin_call(fb))
            clo2 = strip_refs(t[3][1]) if len(t[3]) > 1 else None
            if clo2 and clo2[0] == "agg" and clo2[1] == "closure":
                r = closure_returns(clo2[3])
                if r and r[1] is not None:
                    tt = r[1]
                    if tt[0] == "unop" and tt[1] == "Not":
                        x = strip_refs(tt[2])
                        if x[0] == "field" and x[3] == "skipped" and x[1][0] == "field" and x[1][3] == "1":
                            okf = True
        # ... or one fused pass in which a skipped field leaves the iteration early (`if attrs.skipped { continue }`):
        # switches on the current field's own `skipped` flag
        skip_edges = set()   # (switch bb, target taken when skipped)
        for sbb in sorted(v.reach):
            i2 = v.switch_info(sbb)
            if not i2 or i2["kind"] != "bool":
                continue
            d = v.blocks[sbb]["term"]["discr"]
            dt = strip_refs(canon(v, v.origin(d)))
            neg = False
            if dt[0] == "unop" and dt[1] == "Not":
                dt = strip_refs(dt[2])
                neg = True
            if dt[0] == "field" and dt[3] == "skipped":
                tgt = v.edge_target(i2, not neg)
                if tgt is not None:
                    skip_edges.add((sbb, tgt))
        if not okf and not skip_edges:
            fs.append(fnd("C07.G1", v, "the second pass (keys, error types, conversions) does not run over exactly the non-skipped fields of the same sorted vector"))
        # every push onto the zipped vectors is unconditional inside its loop: one push per iteration
        loops = v.loops()
        for bb, c in v.calls():
            if c.fn is not None and c.base() == "std::vec::Vec::push":
                tgt = strip_refs(v.origin(v.blocks[bb]["term"]["args"][0]))
                name = v.b.lname(tgt[1]) if tgt[0] == "multi" else None
                if tgt[0] == "call":
                    for l in range(len(v.b.locals)):
                        wd = v.whole_defs(l)
                        if len(wd) == 1 and wd[0][0] == "call" and wd[0][1] == tgt[1]:
                            name = v.b.lname(l)
                if name not in ("field_names", "field_tys", "key_names", "field_defaults", "field_errs", "missing_field_errors", "field_from_fns",
                                "field_from_errors", "field_maps", "needs_predicate"):
                    continue
                lp = [(h, bd) for h, bd in loops if bb in bd]
                if not lp:
                    fs.append(fnd("C07.G1", v, "`%s` is pushed outside the per-field loops" % name, bb))
                    continue
                h, bd = min(lp, key=lambda x: len(x[1]))
                # unconditional: the push block lies on every path from the loop's item edge back to the header
                seen = set()
                st = [s for s in v.succ[h] if s in bd]
                # successors of the header's `next` switch: the Some edge
                skipped = False
                work = list(st)
                while work:
                    x = work.pop()
                    if x in seen or x == bb or x not in bd:
                        continue
                    seen.add(x)
                    if x == h:
                        continue
                    for y in v.succ[x]:
                        if (x, y) in skip_edges and name in ("key_names", "field_errs", "missing_field_errors", "field_from_fns", "field_from_errors"):
                            continue   # a skipped field has no key / error type / conversion: it may leave the iteration here
                        if y == h:
                            # reached the back edge without passing the push: only legal through `?` error returns (which leave the loop)
                            skipped = True
                        work.append(y)
                if skipped:
                    fs.append(fnd("C07.G1", v, "`%s` is not pushed exactly once per field (the zipped vectors can get out of step)" % name, bb))
    res.add("C07.G1", 4, fs)

    # ---------------------------------------------------------------- G2
    fs = []
    # fields: key_name_for_ident(field ident, data_attrs.rename_all, field rename)
    kcs = [(v, bb) for bb, c in v.calls() if c.fn is not None and c.path == "parse_type::key_name_for_ident"]
    for cb in crate.bodies:
        if cb.kind == "Closure" and cb.root == nf.path:
            cv2 = View(cb)
            kcs += [(cv2, bb) for bb, c in cv2.calls() if c.fn is not None and c.path == "parse_type::key_name_for_ident"]
    if len(kcs) != 1:
        fs.append(fnd("C07.G2", v, "expected one key_name_for_ident call for fields"))
    else:
        kv_, kbb = kcs[0]
        a = [canon(kv_, kv_.origin(x)) for x in kv_.blocks[kbb]["term"]["args"]]
        ok0 = term_mentions(a[0], lambda t: t[0] == "field" and t[3] == "ident") or term_mentions(a[0], lambda t: t[0] == "call" and (call_name(kv_, t) or "").endswith("to_string"))
        if kv_ is v:
            ok1 = term_mentions(a[1], lambda t: t[0] == "field" and t[3] == "rename_all" and strip_refs(t[1]) == ("param", 2))
        else:
            ok1 = term_mentions(a[1], lambda t: t[0] == "field" and t[3] == "rename_all") and term_mentions(a[1], lambda t: t[0] == "field" and t[3] == "data_attrs")
        ok2 = term_mentions(a[2], lambda t: t[0] == "field" and t[3] == "rename")
        if not (ok0 and ok1 and ok2):
            fs.append(fnd("C07.G2", kv_, "a field's key is not computed from (its identifier, the rename_all of the attributes it is parsed under, its own rename)", kbb))
    dp = body("parse_type::DerivedTypeInfo::parse")
    dv = View(dp)
    kc = [bb for bb, c in dv.calls() if c.fn is not None and c.path == "parse_type::key_name_for_ident"]
    mv = [bb for bb, c in dv.calls() if c.fn is not None and c.path == "attribute_parser::ContainerAttributesInfo::merge_variant"]
    rv_ = [bb for bb, c in dv.calls() if c.fn is not None and c.path == "attribute_parser::read_deserr_variant_attributes"]
    rc_ = [bb for bb, c in dv.calls() if c.fn is not None and c.path == "attribute_parser::read_deserr_container_attributes"]
    np_ = [bb for bb, c in dv.calls() if c.fn is not None and c.path == "parse_type::NamedFieldsInfo::parse"]
    if len(kc) != 1 or len(mv) != 1 or len(rv_) != 1 or len(rc_) != 1:
        fs.append(fnd("C07.G2", dv, "cannot find the variant key / merge_variant call sites"))
    else:
        a = [canon(dv, dv.origin(x)) for x in dv.blocks[kc[0]]["term"]["args"]]
        # variant key: (variant ident, CONTAINER rename_all, variant rename)
        ok1 = term_mentions(a[1], lambda t: t[0] == "field" and t[3] == "rename_all") and term_mentions(a[1], lambda t: t[0] == "call" and t[1] == rc_[0]) \
            and not term_mentions(a[1], lambda t: t[0] == "call" and t[1] == rv_[0])
        ok2 = term_mentions(a[2], lambda t: t[0] == "call" and t[1] == rv_[0])
        if not (ok1 and ok2):
            fs.append(fnd("C07.G2", dv, "a variant's name is not computed from (its identifier, the container's rename_all, its own rename)", kc[0]))
        # the attributes handed to the variant's fields: a fresh clone of the container's, merged with this variant's
        m = dv.blocks[mv[0]]["term"]
        tgt = strip_refs(canon(dv, dv.origin(m["args"][0])))
        src = canon(dv, dv.origin(m["args"][1]))
        fresh = False
        tl = tgt[1] if tgt[0] == "multi" else None
        clone_bb = None
        if tgt[0] == "call" and (call_name(dv, tgt) or "").endswith("Clone::clone"):
            clone_bb = tgt[1]
        if tl is not None:
            for d in dv.whole_defs(tl):
                if d[0] == "call" and (call_name(dv, ("call", d[1])) or "").endswith("Clone::clone"):
                    clone_bb = d[1]
        if clone_bb is not None:
            # the clone happens in the same loop iteration as the merge (not hoisted out of the per-variant loop)
            lps = [(h, bd) for h, bd in dv.loops() if mv[0] in bd]
            inner = min(lps, key=lambda x: len(x[1])) if lps else None
            cl_src = canon(dv, dv.origin(dv.blocks[clone_bb]["term"]["args"][0]))
            fresh = inner is not None and clone_bb in inner[1] and term_mentions(cl_src, lambda t: t[0] == "call" and t[1] == rc_[0])
        if not fresh:
            fs.append(fnd("C07.G2", dv, "the attributes used for a variant's fields are not a fresh copy of the container's attributes made for that variant (state can leak between variants)", mv[0]))
        if not term_mentions(src, lambda t: t[0] == "call" and t[1] == rv_[0]):
            fs.append(fnd("C07.G2", dv, "merge_variant is not given this variant's own attributes", mv[0]))
        # NamedFieldsInfo::parse for variants receives the merged object
        okp = False
        for bb in np_:
            a1 = strip_refs(canon(dv, dv.origin(dv.blocks[bb]["term"]["args"][1])))
            if a1 == tgt:
                okp = True
        if not okp:
            fs.append(fnd("C07.G2", dv, "a variant's fields are not parsed under the merged (container + variant) attributes"))
    mb = body("attribute_parser::ContainerAttributesInfo::merge_variant")
    if mb is None:
        fs.append(Finding("C07.G2", "merge_variant", "not found", ""))
    else:
        mvv = View(mb)
        import p_c16
        wr = p_c16.writes_to(mvv, 1, True)
        okw = False
        for bb, f, st in wr:
            if f == "rename_all":
                t = canon(mvv, mvv.origin_rv(st["rv"], bb))
                # self.rename_all = other.rename_all.clone()   (assignment, not `or`)
                if t[0] == "call" and (call_name(mvv, t) or "").endswith("Clone::clone"):
                    x = strip_refs(t[3][0])
                    okw = x[0] == "field" and x[3] == "rename_all" and strip_refs(x[1]) == ("param", 2)
        if not okw or any(mvv.blocks[x]["term"]["k"] == "switch" for x in mvv.reach):
            fs.append(fnd("C07.G2", mvv, "merge_variant does not unconditionally replace rename_all by the variant's own (a variant without rename_all would inherit someone else's)"))
    res.add("C07.G2", 6, fs)

    # ---------------------------------------------------------------- G3
    fs = []
    kb = body("parse_type::key_name_for_ident")
    if kb is None:
        fs.append(Finding("C07.G3", "key_name_for_ident", "not found", ""))
    else:
        kv = View(kb)
        info = kv.switch_info(0)
        ok = False
        if info and info["kind"] == "discr" and info["place"]["l"] == 3:
            st = kv.variant_target(info, "Some")
            nt = kv.variant_target(info, "None")
            if st is not None and nt is not None:
                s_only = kv.reachable(st) - kv.reachable(nt)
                rs = p_c13.results_in(kv, s_only)
                ok_some = len(rs) == 1 and rs[0][1][0] == "call" and (call_name(kv, rs[0][1]) or "").endswith("to_string") and \
                    strip_refs(rs[0][1][3][0]) == ("field", ("param", 3), "Some", "0")
                # None: dispatch on rename_all
                n_only = kv.reachable(nt) - kv.reachable(st)
                sw2 = [bb for bb in sorted(n_only) if kv.switch_info(bb) and kv.switch_info(bb)["kind"] == "discr" and kv.switch_info(bb)["place"]["l"] == 2 and not kv.switch_info(bb)["place"]["p"]]
                ok_none = False
                if sw2:
                    i2 = kv.switch_info(sw2[0])
                    nn = kv.variant_target(i2, "None")
                    ss = kv.variant_target(i2, "Some")
                    if nn is not None and ss is not None:
                        r0 = p_c13.results_in(kv, kv.reachable(nn) - kv.reachable(ss))
                        ident_ok = len(r0) == 1 and strip_refs(r0[0][1]) == ("param", 1)
                        sw3 = [bb for bb in sorted(kv.reachable(ss) - kv.reachable(nn)) if kv.switch_info(bb) and kv.switch_info(bb)["kind"] == "discr"
                               and (kv.switch_info(bb).get("adt") or "").endswith("RenameAll")]
                        tab = {}
                        if sw3:
                            i3 = kv.switch_info(sw3[0])
                            arms = p_c13.arm_regions(kv, i3)
                            for var in ("CamelCase", "LowerCase"):
                                r = p_c13.results_in(kv, arms.get(var, set()))
                                if len(r) == 1 and r[0][1][0] == "call":
                                    tab[var] = (call_name(kv, r[0][1]), r[0][1])
                        camel_ok = "CamelCase" in tab and tab["CamelCase"][0].endswith("Casing::to_case") and strip_refs(tab["CamelCase"][1][3][0]) == ("param", 1) and \
                            tab["CamelCase"][1][3][1][0] == "agg" and tab["CamelCase"][1][3][1][4] == "Camel"
                        lower_ok = "LowerCase" in tab and tab["LowerCase"][0].endswith("to_lowercase") and strip_refs(tab["LowerCase"][1][3][0]) == ("param", 1)
                        ok_none = ident_ok and camel_ok and lower_ok
                ok = ok_some and ok_none
        if not ok:
            fs.append(fnd("C07.G3", kv, "key_name_for_ident is not {rename: that name; else camelCase: to_case(ident, Camel); lowercase: to_lowercase(ident); none: ident}"))
    res.add("C07.G3", 4, fs)
