"""C01 — no reported error is ever lost; Ok only when nothing was reported.
Rule C01.LIN (linearity typestate of error-carrying values), see lin.py and DESIGN §5."""
import lin
from check import PropResult
from common import scopes


def run(ctx):
    res = PropResult("C01")
    res.level = "proof"
    bodies = 0
    tracked_bodies = 0
    roots_lib = 0
    for label, sc, local in scopes(ctx, inline=False):
        if label.startswith("catalogue") or label == "lib/default":
            roots_lib = sum(1 for c, r in sc.roots if c.name == "deserr")
            res.analysed["derived_impls"] = sum(1 for c, r in sc.roots if c.name != "deserr")
        for c, b, role in sc.members:
            v = sc.view(c, b)
            fs, st = lin.analyse(v, local)
            if fs and c.name == "deserr" and any("dropped while" in f.what or "goes out of scope" in f.what or "still hold" in f.what for f in fs):
                # the local may have been emptied by a helper that was handed `&mut` to it (`merge_child_error(&mut error, e, loc)?`
                # takes the accumulator and only writes it back when the error type answers Continue): the typestate does not
                # look into callees, so the same question is asked again with the library's helpers expanded in place
                import inline
                from analysis import View
                ib = inline.inlined(c, b)
                if ib is not b:
                    fs2, _st2 = lin.analyse(View(ib), local)
                    kinds2 = set(f.what.split(" @")[0] for f in fs2)
                    fs = [f for f in fs if not ("dropped while" in f.what or "goes out of scope" in f.what or "still hold" in f.what) or f.what.split(" @")[0] in kinds2]
            bodies += 1
            if st["tracked_locals"]:
                tracked_bodies += 1
                if len(res.samples) < 6 and role == "root":
                    res.samples.append({"body": b.path, "config": label, "error_carrying_locals": st["tracked_locals"],
                                        "moves_of_held_values": st["consumptions"], "drops_checked": st["drops_checked"],
                                        "variant_refinements": st["refinements"], "verdict": "no held value is dropped, overwritten or leaked" if not fs else "violation"})
            res.add("C01.LIN", st["tracked_locals"], fs)
    import controls
    controls.run(ctx, res, "C01", lambda crate, b, v, bs: lin.analyse(v, {"deserr", "deserr_controls"})[0])
    res.analysed.update({"bodies": bodies, "bodies_with_error_carrying_locals": tracked_bodies, "lib_deserr_impls": roots_lib})
    res.floor("Deserr impls in the library (default features)", roots_lib, 40)
    if not getattr(ctx, "degraded", None):
        res.floor("bodies with error-carrying locals", tracked_bodies, 100)
    res.trusted_base = ["rustc nightly MIR construction (mir_built)", "mirfacts extractor (/verif/driver)",
                        "rule engine (rules/lin.py, ~300 lines of forward dataflow)",
                        "std: Result::{map,map_err,or_else,and_then}, Try::branch, FromResidual, From/Into pass their error argument on"]
    res.assumptions = ["the error type keeps what it is handed (impl DeserializeError / MergeWithError bodies are out of scope)",
                       "unwinding is ignored (C12)", "user functions named in attributes are opaque",
                       "derived code: verdict per catalogue entry (every template branch + sampled attribute combinations)"]
    res.explanation = ("Every local whose type can own a value of the body's error type(s) is tracked through mir_built; "
                       "a value that may hold an error must end in the return place, in self_/other of a report site or in an "
                       "error-preserving call. Generic MIR: the verdict holds for every V, E, payload and answer sequence.")
    return res
