"""C04 — every report points at the real culprit (locations and payloads as provenance terms)."""
from analysis import View, strip_refs, erase_generics, term_mentions
from sites import BodySites, npath, ty_is_payload_iter
from lin import Finding


def is_call_to(t, *names):
    """term is a call whose (generic-erased, deserr-normalised) path ends with one of names"""
    if not (isinstance(t, tuple) and t and t[0] == "call" and t[2]):
        return False
    full = t[2]
    return any(full.endswith(n) or erase_generics(full).endswith(n) for n in names)


def call_base(t):
    return erase_generics(t[2]) if t[2] else None


def canon(view, t, depth=0):
    """canonical form of a location / key / index term: identity calls and references removed,
    push_key / push_index made structural, call-site numbers dropped except for iterator steps"""
    if depth > 30 or not isinstance(t, tuple):
        return t
    t = strip_refs(t)
    k = t[0]
    if k == "call" and t[2]:
        b = erase_generics(npath(t[2]))
        if b.endswith("ValuePointerRef::push_key") and len(t[3]) == 2:
            return ("push_key", canon(view, t[3][0], depth + 1), canon(view, t[3][1], depth + 1))
        if b.endswith("ValuePointerRef::push_index") and len(t[3]) == 2:
            return ("push_index", canon(view, t[3][0], depth + 1), canon(view, t[3][1], depth + 1))
        c = view.callee(t[1])
        if c is not None and c.fn is not None and c.name == "next":
            return ("next", t[1])
        if c is not None and c.fn is not None and c.base() == "std::option::Option::unwrap" and len(t[3]) == 1:
            inner = canon(view, t[3][0], depth + 1)
            if inner[0] == "next":
                return ("field", inner, "Some", "0")
        return ("call", t[1], t[2], tuple(canon(view, a, depth + 1) for a in t[3]))
    if k == "field":
        return ("field", canon(view, t[1], depth + 1), t[2], t[3])
    if k in ("cast",):
        return ("cast", t[1], canon(view, t[2], depth + 1), t[3])
    if k == "agg":
        return t[:2] + (tuple(canon(view, a, depth + 1) for a in t[2]),) + t[3:]
    return t


def finding(rule, view, what, bb, detail=""):
    at = view.blocks[bb]["term"].get("at", "") if bb is not None else ""
    return Finding(rule, view.b.path, what, at, detail)


def call_name(view, t):
    """generic-erased, crate-normalised def path of the callee of a ('call', bb, ..) term"""
    c = view.callee(t[1]) if t[0] == "call" else None
    if c is None or c.fn is None:
        return None
    if c.trait is not None:
        return npath(erase_generics(c.trait)) + "::" + (c.name or "")
    return npath(erase_generics(c.path))


def fmt(t, depth=0):
    if not isinstance(t, tuple):
        return repr(t)
    if depth > 6:
        return "…"
    k = t[0]
    if k == "param":
        return "arg%d" % t[1]
    if k == "const":
        return repr(t[2])
    if k == "next":
        return "next@bb%d" % t[1]
    if k == "field":
        return "%s.%s%s" % (fmt(t[1], depth + 1), (t[2] + ".") if t[2] else "", t[3])
    if k in ("push_key", "push_index"):
        return "%s(%s, %s)" % (k, fmt(t[1], depth + 1), fmt(t[2], depth + 1))
    if k == "call":
        return "%s@bb%s(%s)" % (t[2], t[1], ", ".join(fmt(a, depth + 1) for a in (t[3] if len(t) > 3 else ())))
    return "%s(…)" % k


def item_of(term):
    """if term is `<next>.Some.0` / `.0.0` / `.0.1`, return (next_bb, path) with path in ('item','0','1')"""
    t = term
    if t[0] == "field" and t[1][0] == "next" and t[2] == "Some" and t[3] == "0":
        return (t[1][1], "item")
    if t[0] == "field" and t[3] in ("0", "1"):
        inner = t[1]
        if inner[0] == "field" and inner[1][0] == "next" and inner[2] == "Some" and inner[3] == "0":
            return (inner[1][1], t[3])
    return None


def next_kind(view, bb):
    """('Map::Iter'|'Sequence::Iter', enumerated: bool) of an Iterator::next call"""
    c = view.callee(bb)
    if c is None or c.self_ty is None:
        return None, False
    crate = view.b.crate
    t = crate.types[c.self_ty]
    enum = t["k"] == "adt" and t["path"] == "std::iter::Enumerate"
    return ty_is_payload_iter(crate, c.self_ty), enum


def loop_of(view, bb):
    for h, body in view.loops():
        if bb in body:
            return h
    return None


def is_iteration_counter(view, local, next_bb, use_bb):
    """`local` counts the completed iterations of the loop stepping at next_bb: initialised to 0 before the loop,
    incremented by exactly 1 on every path through an iteration, after its use at use_bb."""
    lp = None
    for h, body in view.loops():
        if next_bb in body:
            lp = (h, body)
    if lp is None:
        return False
    h, body = lp
    defs = view.whole_defs(local)
    outside = [d for d in defs if d[0] == "stmt" and d[1] not in body]
    inside = [d for d in defs if d[0] == "stmt" and d[1] in body]
    if len(outside) != 1 or len(inside) != 1 or len(defs) != 2:
        return False
    o = outside[0]
    if not (view.dominates(o[1], h) and o[3]["rv"]["k"] == "use" and o[3]["rv"]["op"].get("int") == 0):
        return False
    inc = inside[0]
    t = view.origin_rv(inc[3]["rv"], inc[1])
    # i = (AddWithOverflow(i, 1)).0   or   i = Add(i, 1)
    while t[0] == "field":
        t = t[1]
    if not (t[0] == "binop" and t[1] in ("Add", "AddWithOverflow") and t[2] == ("multi", local) and t[3] == ("const", "int", 1)):
        return False
    inc_bb = inc[1]
    # on every path from the Some edge back to the header
    from sites import follow_local_use
    k, sbb, info, cur = follow_local_use(view, next_bb, view.blocks[next_bb]["term"]["dest"]["l"])
    some_t = view.variant_target(info, "Some") if k == "switch" else None
    if some_t is None:
        return False
    seen = set()
    st = [some_t]
    while st:
        x = st.pop()
        if x in seen or x == inc_bb or x not in body:
            continue
        seen.add(x)
        if x == h:
            return False
        st.extend(view.succ[x])
    # used before it is incremented in the same iteration
    after_inc = view.reachable(inc_bb, barrier=[h])
    if use_bb in after_inc and use_bb != inc_bb:
        return False
    return True


def location_param(view):
    """term of the body's own location: ('param', 2) in a root, the captured upvar in a closure"""
    return ("param", 2)


def is_own_location(view, t, root_loc_names):
    """t (canonical) denotes the location parameter of the enclosing deserialize_from_value"""
    if t == ("param", 2) and view.b.kind != "Closure":
        return True
    if view.b.kind == "Closure":
        # captured location: field of the closure environment (param 1) named like the root's parameter
        x = t
        while isinstance(x, tuple) and x[0] == "deref":
            x = x[1]
        if x[0] == "field" and x[1] == ("param", 1) and x[3] in root_loc_names:
            return True
    return False



def _loc_resolved(view, locc, root_loc_names):
    """the location term is made of things the rule reads (own location, push_key / push_index of it, constants, iterator
    items); a location that comes out of a local function / a struct field / a multi-assigned local is not resolved"""
    t = locc
    if is_own_location(view, t, root_loc_names):
        return True
    if t[0] in ("push_key", "push_index") and len(t) >= 3:
        base_ok = _loc_resolved(view, t[1], root_loc_names)
        arg = t[2]
        arg_ok = arg[0] in ("const", "field", "next", "param") or (arg[0] == "multi")
        return base_ok and arg_ok
    if t[0] == "agg" and t[1] == "adt":
        return True
    if t[0] == "param":
        return True
    return False


def _child_loc_finding(view, root_loc_names, locc, what, bb):
    f = finding("C04.CHILD", view, what, bb, fmt(locc))
    if not _loc_resolved(view, locc, root_loc_names):
        f.what = what + " - the location term was not resolved (it comes out of a helper / a struct field): not recognised (undecided)"
        f.undecided = True
    return f

ADAPTORS_ITEMWISE = {"try_fold", "fold", "try_for_each", "for_each", "map", "filter_map", "map_while", "flat_map", "find_map"}


def _closure_item(view, term):
    """term = `arg.k` of the closure body `view`, where the closure is the function of an itemwise iterator adaptor applied to
    the payload's own iterator (`seq.into_iter().enumerate()` / `map.into_iter()`): (param index, k, 'seq-enumerated' | 'map')"""
    term = strip_refs(term)
    if view.b.kind != "Closure" or not (term[0] == "field" and isinstance(term[1], tuple) and term[1][0] == "param" and term[2] is None and term[3] in ("0", "1")):
        return None
    pidx = term[1][1]
    parent_path = view.b.path.rsplit("::{closure", 1)[0]
    parent = None
    for pb in view.b.crate.bodies:
        if pb.path == parent_path:
            parent = pb
    if parent is None:
        return None
    import coll
    pv = View(parent)
    for bb, c in pv.calls():
        if c.fn is None or not c.trait or erase_generics(c.trait) != "std::iter::Iterator" or c.name not in ADAPTORS_ITEMWISE:
            continue
        t = pv.origin_call(bb)
        if not any(strip_refs(a) and strip_refs(a)[0] == "agg" and strip_refs(a)[1] == "closure" and len(strip_refs(a)) > 3 and strip_refs(a)[3] == view.b.path for a in t[3]):
            continue
        # the item is the last argument of the closure (fold-like adaptors pass the state first)
        if pidx != view.b.arg_count:
            return None
        names, src = coll.iterator_chain(pv, bb)
        if names == ["std::iter::Iterator::enumerate", "Sequence::into_iter"]:
            return (pidx, term[3], "seq-enumerated")
        if names == ["Map::into_iter"]:
            return (pidx, term[3], "map")
        return None
    return None


def _loc_shape_compare(a, b):
    """True: the same constant step on the own location; False: constant steps that differ (or a different kind of step);
    None: not compared (variables)"""
    a, b = strip_refs(a), strip_refs(b)
    if a[0] in ("push_key", "push_index") and b[0] in ("push_key", "push_index") and len(a) >= 3 and len(b) >= 3:
        if a[0] != b[0]:
            return False
        ka, kb = strip_refs(a[2]), strip_refs(b[2])
        if ka[0] == "const" and kb[0] == "const":
            return ka == kb
        return None
    return None


def _loc_shape_equal(a, b):
    """closure-side and parent-side location terms: the same push_key / push_index steps with the same constant / own base"""
    a, b = strip_refs(a), strip_refs(b)
    if a[0] in ("push_key", "push_index") and b[0] == a[0] and len(a) >= 3 and len(b) >= 3:
        ka, kb = strip_refs(a[2]), strip_refs(b[2])
        return ka[0] == "const" and ka == kb and not (strip_refs(a[1])[0] in ("push_key", "push_index")) and not (strip_refs(b[1])[0] in ("push_key", "push_index"))
    return False


def _closure_arg_source(view):
    """('child', location term of that child in the parent) when the closure is given to a Result combinator whose receiver is
    a child call's result; ('user', None) for a user function's result; (None, None) when not read"""
    parent_path = view.b.path.rsplit("::{closure", 1)[0]
    parent = next((pb for pb in view.b.crate.bodies if pb.path == parent_path), None)
    if parent is None:
        return None, None
    pv = View(parent)
    pbs = BodySites(pv)
    for bb, c in pv.calls():
        if c.fn is None or c.name not in ("map_err", "or_else", "unwrap_or_else", "map_or_else"):
            continue
        t = pv.origin_call(bb)
        if not any(strip_refs(a) and strip_refs(a)[0] == "agg" and strip_refs(a)[1] == "closure" and len(strip_refs(a)) > 3 and strip_refs(a)[3] == view.b.path for a in t[3]):
            continue
        recv = strip_refs(t[3][0]) if t[3] else None
        hops = 0
        while recv is not None and recv[0] == "call" and hops < 6:
            hops += 1
            for ch in pbs.children:
                if ch["bb"] == recv[1]:
                    return "child", (canon(pv, ch["loc"]) if ch["loc"] else None)
            if any(u["bb"] == recv[1] for u in pbs.user_calls):
                return "user", None
            nm = call_name(pv, recv) or ""
            if nm.split("::")[-1] in ("map", "map_err", "and_then", "or_else") and recv[3]:
                recv = strip_refs(recv[3][0])
                continue
            break
        return None, None
    return None, None


def c04_rules(view, bs, root_loc_names=("location", "deserr_location__"), root_view=None):
    out = []
    ob = 0
    b = view.b
    children = {}
    # ---------------- C04.CHILD
    for ch in bs.children:
        ob += 1
        val = canon(view, ch["value"]) if ch["value"] else None
        locc = canon(view, ch["loc"]) if ch["loc"] else None
        children[ch["bb"]] = (val, locc)
        if val is None or locc is None:
            out.append(finding("C04.CHILD", view, "child call without value/location", ch["bb"]))
            continue
        if ch["delegating"] or val == ("param", 1):
            if not is_own_location(view, locc, root_loc_names):
                out.append(finding("C04.CHILD", view, "a child that receives the whole input must receive the container's own location", ch["bb"], fmt(locc)))
            continue
        # value = into_value(item)
        if view.b.kind == "Fn" and npath(view.b.path) == "deserialize":
            # the public entry point: the whole input, at the origin
            lo = strip_refs(ch["loc"])
            if not (val[0] == "call" and _is_into_value(view, val) and val[3][0] == ("param", 1)
                    and lo[0] == "agg" and lo[1] == "adt" and lo[4] == "Origin"):
                out.append(finding("C04.CHILD", view, "deserialize() does not start at the origin with the whole input", ch["bb"], fmt(locc)))
            continue
        if not (val[0] == "call" and _is_into_value(view, val) and len(val[3]) == 1):
            out.append(finding("C04.CHILD", view, "cannot establish which payload item this child examines", ch["bb"], fmt(val)))
            continue
        it = item_of(val[3][0])
        if it is None:
            ci = _closure_item(view, val[3][0])
            if ci is not None:
                # the function of an iterator adaptor: its argument is the item (`(index, value)` after enumerate, `(key, value)` of a map)
                kind_ = ci[2]
                want_part = ("field", ("param", ci[0]), None, "0")
                if kind_ == "seq-enumerated":
                    okl = locc[0] == "push_index" and is_own_location(view, locc[1], root_loc_names) and _same_field(locc[2], want_part)
                    if ci[1] != "1" or not okl:
                        out.append(_child_loc_finding(view, root_loc_names, locc, "sequence element child is not located at push_index(own location, this element's index)", ch["bb"]))
                    continue
                if kind_ == "map":
                    okl = locc[0] == "push_key" and is_own_location(view, locc[1], root_loc_names) and _same_field(locc[2], want_part)
                    if ci[1] != "1" or not okl:
                        out.append(_child_loc_finding(view, root_loc_names, locc, "map entry child is not located at push_key(own location, this entry's key)", ch["bb"]))
                    continue
            out.append(finding("C04.CHILD", view, "cannot establish which payload item this child examines", ch["bb"], fmt(val[3][0])))
            continue
        nbb, part = it
        kind, enum = next_kind(view, nbb)
        if kind == "Map::Iter":
            want_key = ("field", ("field", ("next", nbb), "Some", "0"), None, "0")
            okl = (locc[0] == "push_key" and is_own_location(view, locc[1], root_loc_names)
                   and _same_field(locc[2], want_key))
            if part != "1" or not okl:
                out.append(_child_loc_finding(view, root_loc_names, locc, "map entry child is not located at push_key(own location, this entry's key)", ch["bb"]))
        elif kind == "Sequence::Iter" and enum:
            want_ix = ("field", ("field", ("next", nbb), "Some", "0"), None, "0")
            okl = (locc[0] == "push_index" and is_own_location(view, locc[1], root_loc_names)
                   and _same_field(locc[2], want_ix))
            if part != "1" or not okl:
                out.append(_child_loc_finding(view, root_loc_names, locc, "sequence element child is not located at push_index(own location, this element's index)", ch["bb"]))
        elif kind == "Sequence::Iter" and loop_of(view, nbb) is not None and locc[0] == "push_index" and locc[2][0] == "multi" \
                and is_iteration_counter(view, locc[2][1], nbb, ch["bb"]):
            # hand-written induction variable: `let mut i = 0; for x in seq { .. push_index(i) ..; i += 1 }`
            if part != "item" or not is_own_location(view, locc[1], root_loc_names):
                out.append(_child_loc_finding(view, root_loc_names, locc, "sequence element child is not located at push_index(own location, this element's index)", ch["bb"]))
        elif kind == "Sequence::Iter":
            # un-enumerated: only sound for unrolled code, the k-th step gets constant k
            if loop_of(view, nbb) is not None:
                out.append(finding("C04.CHILD", view, "element of a sequence loop is located with an index that is not the element's own (no enumerate counter)", ch["bb"], fmt(locc)))
                continue
            k = _ordinal(view, bs, nbb)
            okl = (locc[0] == "push_index" and is_own_location(view, locc[1], root_loc_names)
                   and locc[2] == ("const", "int", k))
            if part != "item" or not okl:
                out.append(finding("C04.CHILD", view, "element #%d of an unrolled sequence is not located at push_index(own location, %d)" % (k, k), ch["bb"], fmt(locc)))
        else:
            out.append(finding("C04.CHILD", view, "child value does not come from the payload's own iterator", ch["bb"], fmt(val)))

    # ---------------- C04.MERGE / C04.SELF / C04.PAYLOAD
    site_by_bb = {s.bb: s for s in bs.sites}
    for s in bs.sites:
        ob += 1
        locc = canon(view, s.loc) if s.loc else None
        if locc is None:
            out.append(finding("C04.SELF", view, "report site without location", s.bb))
            continue
        if s.kind == "merge":
            other = canon(view, s.payload)
            src = _error_source(view, other)
            if src is None:
                # closure parameter (map_err closures of validate / container try_from) or user fn result
                if view.b.kind == "Closure" or _from_user_call(view, other):
                    if not is_own_location(view, locc, root_loc_names):
                        f_ = finding("C04.MERGE", view, "error of a container-level user function is not handed over at the container's own location", s.bb, fmt(locc))
                        if view.b.kind == "Closure" and not _from_user_call(view, other):
                            # whose error the closure's argument is depends on the combinator it is given to: after a child call
                            # (`T::deserialize_from_value(..).or_else(|e| ..)`) it is that child's, and belongs at the child's location
                            src_kind, want_loc = _closure_arg_source(view)
                            if src_kind == "child":
                                verdict = _loc_shape_compare(locc, want_loc) if want_loc is not None else None
                                if verdict is True:
                                    continue
                                f_.what = "the error of a child, handed over inside a closure, is not located where the child was examined"
                                if verdict is None:
                                    # (an index / key that is a variable on both sides of the closure boundary is not compared)
                                    f_.what += ": the two locations were not compared: not recognised (undecided)"
                                    f_.undecided = True
                            elif src_kind is None:
                                f_.what += " - what the closure's argument is was not read: not recognised (undecided)"
                                f_.undecided = True
                        out.append(f_)
                else:
                    out.append(finding("C04.MERGE", view, "cannot establish where the merged error comes from", s.bb, fmt(other)))
                continue
            kind, sbb = src
            if kind == "child":
                want = children.get(sbb, (None, None))[1]
            elif kind == "site":
                s2 = site_by_bb.get(sbb)
                want = canon(view, s2.loc) if s2 is not None and s2.loc else None
            elif kind == "user":
                # conversion of a child's Ok payload: location of that child
                want = _user_arg_child_loc(view, sbb, children)
                if want is None:
                    want = ("param", 2)
            else:
                want = None
            if want is None or not _loc_equal(locc, want):
                out.append(finding("C04.MERGE", view, "an error is handed over at a location that is not the position it came from",
                                   s.bb, "merge at %s, error from %s" % (fmt(locc), fmt(want) if want else "?")))
        else:
            tag_loc = _tag_location(view, s)
            if tag_loc is not None:
                if not (locc[0] == "push_key" and is_own_location(view, locc[1], root_loc_names) and locc[2] == ("const", "str", tag_loc)):
                    out.append(finding("C04.SELF", view, "kind error about the tag value is not located at push_key(own location, tag)", s.bb, fmt(locc)))
            elif not is_own_location(view, locc, root_loc_names):
                out.append(finding("C04.SELF", view, "report about the container's own value is not located at the container's location", s.bb, fmt(locc)))
            out += _payload_rules(view, bs, s, root_view)
    return out, ob


def _is_into_value(view, t):
    c = view.callee(t[1])
    return c is not None and c.deserr_trait() == "IntoValue" and c.name == "into_value"


def _is_closure_call(c):
    return c.fn is not None and c.trait is not None and erase_generics(c.trait) in ("std::ops::Fn", "std::ops::FnMut", "std::ops::FnOnce")


def _same_field(a, b):
    return strip_refs(a) == b


def _loc_equal(a, b):
    """structural equality of canonical locations, ignoring call-site numbers of non-iterator calls"""
    if a == b:
        return True
    if not (isinstance(a, tuple) and isinstance(b, tuple)) or len(a) != len(b) or a[0] != b[0]:
        return False
    if a[0] == "call":
        return a[2] == b[2] and len(a[3]) == len(b[3]) and all(_loc_equal(x, y) for x, y in zip(a[3], b[3]))
    if a[0] == "next":
        return a[1] == b[1]
    return all((_loc_equal(x, y) if isinstance(x, tuple) else x == y) for x, y in zip(a[1:], b[1:]))


def _ordinal(view, bs, nbb):
    """ordinal of the next-call nbb among the next-calls that dominate it (same iterator type)"""
    c0 = view.callee(nbb)
    k = 0
    for n in bs.nexts:
        if n["bb"] != nbb and view.dominates(n["bb"], nbb) and n["self_ty"] == c0.self_ty:
            k += 1
    return k


def _error_source(view, other):
    """where a merged `other` comes from: ('child', bb) Err payload of a child, ('site', bb) answer of another
    report site, ('user', bb) Err payload of a user conversion, or None"""
    t = other
    if t[0] == "field" and t[3] == "0" and t[2] in ("Err", "Continue", "Break"):
        inner = t[1]
        if inner[0] == "call":
            c = view.callee(inner[1])
            if c is None:
                return None
            tr = c.deserr_trait()
            if tr == "Deserr" and c.name == "deserialize_from_value" and t[2] == "Err":
                return ("child", inner[1])
            if tr in ("DeserializeError", "MergeWithError") and t[2] in ("Continue", "Break"):
                return ("site", inner[1])
            if t[2] == "Err" and (c.fn is None or c.krate not in ("std", "core", "alloc", "deserr") or _is_closure_call(c)):
                return ("user", inner[1])
    if t[0] == "multi":
        # a local assigned in several arms: `tmp = match merge(..) { Continue(e) => e, ..}`
        srcs = set()
        for d in view.whole_defs(t[1]):
            if d[0] == "stmt":
                o = canon(view, view.origin_rv(d[3]["rv"], d[1]))
                r = _error_source(view, o)
                if r:
                    srcs.add(r)
        if len(srcs) == 1:
            return srcs.pop()
    return None


def _from_user_call(view, t):
    if t[0] == "call":
        c = view.callee(t[1])
        return c is not None and (c.fn is None or c.krate not in ("std", "core", "alloc", "deserr"))
    return False


def _user_arg_child_loc(view, ubb, children):
    term = view.origin_call(ubb)
    found = []

    def walk(t):
        if isinstance(t, tuple):
            if t and t[0] == "call" and t[1] in children:
                found.append(t[1])
            for x in t:
                if isinstance(x, tuple):
                    walk(x)
    walk(term)
    if found:
        return children[found[0]][1]
    return None


def _tag_location(view, s):
    """for an IncorrectValueKind site whose `actual` comes from Map::remove(map, const TAG): TAG"""
    if s.ek != "IncorrectValueKind":
        return None
    tag = []

    def pred(t):
        if t[0] == "call" and t[2] and erase_generics(npath(t[2])).endswith("Map::remove") or \
                (t[0] == "call" and t[2] and "Map>::remove" in t[2]):
            for a in t[3]:
                a2 = strip_refs(a)
                if a2[0] == "const" and a2[1] == "str":
                    tag.append(a2[2])
            return True
        return False
    if term_mentions(s.payload, pred) and tag:
        return tag[0]
    return None


def _payload_rules(view, bs, s, root_view):
    out = []
    p = s.payload
    if not (p and p[0] == "agg" and p[1] == "adt"):
        out.append(finding("C04.PAYLOAD", view, "cannot see the ErrorKind built for this report", s.bb))
        return out
    fields = dict(zip(p[5], p[2]))
    ek = s.ek
    if ek == "IncorrectValueKind":
        act = canon(view, fields.get("actual"))
        ok = act == ("param", 1) and view.b.kind != "Closure"
        if not ok and view.b.kind == "Closure":
            # `let err = |value| E::error(.., actual: value, ..)`: every call of the closure must pass the input
            ok = act == ("param", 2) and _closure_called_with_input(view, root_view)
        if not ok and _tag_location(view, s) is not None:
            ok = True
        if not ok:
            out.append(finding("C04.PAYLOAD", view, "`actual` of a kind error is not the value found at the reported location", s.bb, fmt(act)))
    elif ek == "BadSequenceLen":
        act = canon(view, fields.get("actual"))
        if not (act[0] == "field" and act[1] == ("param", 1) and act[2] == "Sequence"):
            al = [strip_refs(canon(view, a)) for a in view.alts(act)]     # taken out of the input by a helper + `?`
            if not (al and all(a[0] == "field" and a[1] == ("param", 1) and a[2] == "Sequence" for a in al)):
                out.append(finding("C04.PAYLOAD", view, "`actual` of an arity error is not the offending sequence", s.bb, fmt(act)))
    elif ek == "UnknownKey":
        key = canon(view, fields.get("key"))
        it = item_of(strip_refs(key))
        if not (it and it[1] == "0" and next_kind(view, it[0])[0] == "Map::Iter"):
            out.append(finding("C04.PAYLOAD", view, "`key` of an unknown-key report is not the key of the current map entry", s.bb, fmt(key)))
    elif ek == "UnknownValue":
        val = canon(view, fields.get("value"))
        v2 = strip_refs(val)
        if not (v2[0] == "field" and v2[1] == ("param", 1) and v2[2] == "String"):
            out.append(finding("C04.PAYLOAD", view, "`value` of an unknown-value report is not the string found in the input", s.bb, fmt(val)))
    elif ek == "MissingField":
        f = canon(view, fields.get("field"))
        if not (f[0] == "const" and f[1] == "str"):
            out.append(finding("C04.PAYLOAD", view, "`field` of a missing-field report is not a constant key", s.bb, fmt(f)))
    return out


def _closure_called_with_input(view, root_view):
    """the closure body `view` is only ever called, in its parent, with the parent's whole input as argument"""
    if root_view is None:
        return False
    path = view.b.path
    n = 0
    for bb, c in root_view.calls():
        t = root_view.blocks[bb]["term"]
        base = c.base() if c.fn else None
        tr = erase_generics(c.trait) if c.fn and c.trait else None
        if tr not in ("std::ops::Fn", "std::ops::FnMut", "std::ops::FnOnce"):
            continue
        f = strip_refs(root_view.origin(t["args"][0]))
        if not (f[0] == "agg" and f[1] == "closure" and f[3] == path):
            continue
        n += 1
        a = root_view.origin(t["args"][1])
        if not (a[0] == "agg" and a[1] == "tuple" and len(a[2]) == 1 and canon(root_view, a[2][0]) == ("param", 1)):
            return False
    return n > 0
