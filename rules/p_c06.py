"""C06 — containers keep structure (library container impls)."""
import coll
from check import PropResult
from sites import BodySites
from scope import deser_roots
from analysis import View


def run(ctx):
    res = PropResult("C06")
    res.level = "proof"
    kinds = {}
    crates = [("catalogue+lib/default", ctx.libcrate("deserr"))]
    for cfg in ctx.lib_configs():
        if cfg != "default":
            crates.append(("lib/" + cfg, ctx.lib(cfg)["deserr"]))
    for label, crate in crates:
        for b in deser_roots(crate):
            k = coll.self_kind(b)
            if k is None:
                continue
            import inline
            nb = inline.inlined(crate, b)
            if k == "cs":
                # one delegating call and what becomes of its two answers: `match`, `.map_err(..)`, `?` are the same thing
                nb = inline.combinators_expanded(crate, nb)
            v = View(nb)
            bs = BodySites(v)
            fs, ob, kind = coll.run_body(v, bs)
            if label.startswith("catalogue"):
                kinds[kind] = kinds.get(kind, 0) + 1
            res.add("C06.%s" % {"vec": "SEQ", "set": "SEQ", "array": "ARITY+SEQ", "tuple": "ARITY", "map": "MAP", "option": "OPT",
                                 "box": "OPT", "cs": "CS", "jvalue": "SEQ+MAP"}[kind], ob, fs)
            if len(res.samples) < 12 and label.startswith("catalogue"):
                res.samples.append({"impl": b.impl_self_str(), "kind": kind, "obligations": ob, "violations": len(fs)})
    res.analysed["container_impls_by_kind"] = kinds
    want = {"vec": 1, "set": 2, "array": 1, "tuple": 2, "map": 2, "option": 1, "box": 1, "cs": 1, "jvalue": 1}
    for k, n in want.items():
        res.floor("container impls of kind %s (default features)" % k, kinds.get(k, 0), n)
    res.trusted_base = ["rustc nightly MIR construction", "mirfacts extractor", "rules/coll.py",
                        "std collection semantics: push appends, insert adds, sets collapse equal elements, Vec<T>::try_into::<[T;N]> keeps order"]
    res.assumptions = ["Sequence::len equals the number of items its iterator yields (documented obligation on IntoValue impls)"]
    res.explanation = ("Per container impl: the result collection is fresh, is only mutated by one push/insert per loop iteration of the Ok payload of that "
                       "iteration's child, the loop runs over the input's own into_iter (+enumerate only), and the collection flows unmodified into Ok. "
                       "Arrays/tuples compare Sequence::len with their arity by !=, report BadSequenceLen{that sequence, that arity} and return before any "
                       "element work; tuple step k feeds component type k and result field k. Option yields None only on the Null edge and otherwise "
                       "delegates (input, location) and wraps with Some; Box delegates; maps key each entry by from_str of its own key and report unparsable keys; CS delegates to CS::from_str.")
    return res
