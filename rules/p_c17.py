"""C17 — the expected-kinds phrase depends only on the *set* of kinds (clause 1) and has the
documented fallback; structure of value_kinds_description_json."""
from analysis import View, strip_refs, erase_generics, term_mentions
from check import PropResult
from lin import Finding
from loc import canon, fmt, call_name
from sites import npath
import skeleton

BASE = "errors::json::value_kinds_description_json"
KINDS = ["Null", "Boolean", "Integer", "NegativeInteger", "Float", "String", "Sequence", "Map"]


def fnd(rule, v, what, bb=None, detail=""):
    at = v.blocks[bb]["term"].get("at", "") if bb is not None else v.b.span
    return Finding(rule, v.b.path, what, at, detail)


def body(crate, path):
    for b in crate.bodies:
        if b.path == path:
            return b
    return None


def variant_const_table(v, ret_local=0):
    """{variant: constant assigned to the return place} for a fn that switches on the discriminant of (*arg1)"""
    info = None
    for bb in sorted(v.reach):
        i2 = v.switch_info(bb)
        if i2 and i2["kind"] == "discr" and npath(i2.get("adt") or "") == "ValueKind":
            info = i2
            break
    if info is None:
        return None
    table = {}
    for var in KINDS:
        t = v.variant_target(info, var)
        if t is None:
            table[var] = None
            continue
        others = [x for lb, x in info["edges"] if x != t and x not in v.unreach]
        only = v.reachable(t) - (set().union(*[v.reachable(o) for o in others]) if others else set())
        vals = []
        for x in only:
            for st in v.blocks[x]["stmts"]:
                if st["k"] == "assign" and st["place"]["l"] == ret_local and not st["place"]["p"]:
                    tt = strip_refs(canon(v, v.origin_rv(st["rv"], x)))
                    vals.append(tt)
        table[var] = vals[0] if len(vals) == 1 else ("?", vals)
    return table


def _fn_path(blk):
    tm = blk["term"]
    if tm["k"] == "call" and tm["func"].get("k") == "const" and "fn" in tm["func"]:
        return tm["func"]["fn"].get("path")
    return None


def find_helpers(crate, main):
    """The private helpers are found by role, not by name: `order` is the function handed to the sort,
    `rec` the local function that receives the list (its first parameter is a slice of ValueKind and it
    calls itself), `single` the local function rec applies to one element (ValueKind -> &str)."""
    if main is None:
        return None, None, None
    v = View(main)
    order = rec = single = None
    for bb, c in v.calls():
        if c.fn is None:
            continue
        if c.name in ("sort_by_key", "sort_by_cached_key", "sort_unstable_by_key") and len(v.blocks[bb]["term"]["args"]) > 1:
            key = strip_refs(v.origin(v.blocks[bb]["term"]["args"][1]))
            if key[0] == "fnconst":
                order = body(crate, key[1]) or order
            elif key[0] == "agg" and key[1] == "closure":
                # `|k| order(k)`: a closure that only forwards its argument to the rank function
                cb = body(crate, key[3])
                if cb is not None:
                    cv = View(cb)
                    cc = [(x, c2) for x, c2 in cv.calls() if c2.fn is not None]
                    if len(cc) == 1 and cv.blocks[cc[0][0]]["term"]["dest"]["l"] == 0 and body(crate, cc[0][1].path) is not None:
                        order = body(crate, cc[0][1].path)
        if c.krate == "deserr" and body(crate, c.path) is not None:
            b = body(crate, c.path)
            bv = View(b)
            if any(c2.fn is not None and c2.path == c.path for _, c2 in bv.calls()):
                rec = b
    if rec is not None:
        # a step's pattern match may live in a helper of its own (`next_part(kinds) -> (phrase, rest)`): expand it
        import inline
        idx = {b.path: b for b in crate.bodies}

        def takes_kind_slice(callee, _rec=rec):
            return callee.path != _rec.path and callee.kind == "Fn" and callee.arg_count >= 1 and "[value::ValueKind]" in callee.ltys(1) and \
                not any(_fn_path(blk) == callee.path for blk in callee.blocks)
        nb, _used = inline.inline_body(crate, rec, idx, 0, takes_kind_slice)
        if nb is not None:
            rec = nb
        rv = View(rec)
        for bb, c in rv.calls():
            if c.fn is not None and c.krate == "deserr" and c.path != rec.path and body(crate, c.path) is not None:
                b = body(crate, c.path)
                sv = View(b)
                if variant_const_table(sv) is not None:
                    single = b
    return order, single, rec


def run(ctx):
    res = PropResult("C17")
    res.level = "other"
    crate = ctx.libcrate("deserr")
    main = body(crate, BASE)
    order, single, rec = find_helpers(crate, main)
    if main is not None:
        mv = View(main)
        names_ = [c.name for _, c in mv.calls() if c.fn is not None]
        local_ = [c for _, c in mv.calls() if c.fn is not None and c.krate == "deserr"]
        has_sort = any(n and n.startswith("sort") for n in names_)
        has_dedup = any(n and n.startswith("dedup") for n in names_)
        other_canon = any(n in ("collect", "from_iter", "extend", "insert", "contains", "binary_search", "fold", "try_fold") for n in names_)
        if (not has_sort or not has_dedup) and not other_canon and rec is not None and len(local_) <= 2:
            # the list reaches the description as given: nothing else in the function could canonicalise it
            res.add("C17.CANON", 1, [Finding("C17.CANON", BASE, "the list of kinds is %s before it is described: the phrase depends on %s" % (
                "not sorted" if not has_sort else "not deduplicated", "the order of the list" if not has_sort else "the multiplicity of its elements"), main.span)])
            return res
    if not all((main, order, single, rec)):
        res.add("C17.CANON", 1, [Finding("C17.CANON", BASE, "value_kinds_description_json is not built from (rank function, single-name table, recursive description): structure not recognised (undecided)", "", undecided=True)])
        return res
    # ---- CANON
    v = View(main)
    fs = []
    calls = [(bb, c) for bb, c in v.calls() if c.fn is not None]
    COPIES = ("std::borrow::ToOwned::to_owned", "std::slice::to_vec", "std::convert::From::from", "std::convert::Into::into", "std::clone::Clone::clone",
              "std::iter::Iterator::collect", "std::vec::Vec::from")
    READERS = ("core::slice::is_empty", "core::slice::len", "std::slice::is_empty", "std::slice::len", "core::slice::iter", "std::slice::iter",
               "std::iter::Iterator::copied", "std::iter::Iterator::cloned", "std::iter::IntoIterator::into_iter")

    def is_param(term):
        x = strip_refs(canon(v, term))
        while x[0] == "call" and call_name(v, x) in ("core::slice::iter", "std::slice::iter", "std::iter::Iterator::copied", "std::iter::Iterator::cloned",
                                                     "std::iter::IntoIterator::into_iter") and x[3]:
            x = strip_refs(x[3][0])
        return x == ("param", 1)
    # every use of the parameter: read-only slice functions and exactly one copy
    uses_param = []
    for bb, c in calls:
        for a in v.blocks[bb]["term"]["args"]:
            if strip_refs(canon(v, v.origin(a))) == ("param", 1):
                uses_param.append((bb, call_name(v, ("call", bb))))
    own = [bb for bb, c in calls if call_name(v, ("call", bb)) in COPIES and v.blocks[bb]["term"]["args"] and is_param(v.origin(v.blocks[bb]["term"]["args"][0]))
           and "Vec<" in v.b.ltys(v.blocks[bb]["term"]["dest"]["l"])]
    bad_uses = [nm for bb, nm in uses_param if nm not in READERS and nm not in COPIES]
    if bad_uses:
        fs.append(fnd("C17.CANON", v, "the list of kinds is handed to %s before it is sorted and deduplicated" % sorted(set(bad_uses))))
    sorts = [bb for bb, c in calls if c.name in ("sort_by_key", "sort", "sort_unstable", "sort_unstable_by_key", "sort_by", "sort_by_cached_key", "sort_unstable_by")]
    dedups = [bb for bb, c in calls if c.name in ("dedup", "dedup_by_key", "dedup_by")]
    recs = [bb for bb, c in calls if c.path == rec.path]
    if len(own) != 1 or len(sorts) != 1 or len(dedups) != 1 or len(recs) != 1:
        f_ = fnd("C17.CANON", v, "expected one copy of the list that is sorted, deduplicated and described (found %d copies / %d sorts / %d dedups / %d descriptions): canonicalisation not recognised (undecided)" % (len(own), len(sorts), len(dedups), len(recs)))
        f_.undecided = not (len(sorts) == 0 or len(dedups) == 0)   # no sort / no dedup at all is a verdict: order or multiplicity shows
        if not f_.undecided:
            f_.what = "the list of kinds is %s before it is described: the phrase depends on %s" % (
                "not sorted" if not sorts else "not deduplicated", "the order of the list" if not sorts else "the multiplicity of its elements")
        fs.append(f_)
    else:
        o, s, d, r = own[0], sorts[0], dedups[0], recs[0]
        copy_local = v.blocks[o]["term"]["dest"]["l"]

        def on_copy(bb, idx=0):
            t = strip_refs(canon(v, v.origin(v.blocks[bb]["term"]["args"][idx])))
            if t[0] == "call" and call_name(v, t) in ("std::ops::DerefMut::deref_mut", "std::ops::Deref::deref", "std::vec::Vec::as_slice", "std::vec::Vec::as_mut_slice"):
                t = strip_refs(t[3][0])
            return t == ("call", o, t[2], t[3]) if t[0] == "call" else t == ("multi", copy_local)
        cs = v.callee(s)
        if cs.name not in ("sort_by_key", "sort_unstable_by_key", "sort_by_cached_key") or not on_copy(s):
            # (with an injective key the unstable sorts give the same result: equal keys mean equal kinds)
            f_ = fnd("C17.CANON", v, "the copy is not sorted by a key function (%s): order not decided (undecided)" % cs.name, s)
            f_.undecided = on_copy(s)
            if not f_.undecided:
                f_.what = "what is sorted is not the copy of the list"
            fs.append(f_)
        else:
            key = strip_refs(v.origin(v.blocks[s]["term"]["args"][1]))
            if not ((key[0] == "fnconst" and order is not None and key[1] == order.path) or (key[0] == "agg" and key[1] == "closure" and order is not None)):
                fs.append(fnd("C17.CANON", v, "the sort key is not the rank function `order`", s))
        if v.callee(d).name != "dedup" or not on_copy(d):
            fs.append(fnd("C17.CANON", v, "the sorted copy is not deduplicated with dedup()", d))
        if not (v.dominates(o, s) and v.dominates(s, d) and v.dominates(d, r)):
            fs.append(fnd("C17.CANON", v, "copy, sort, dedup and description are not done in this order on every path"))
        if not on_copy(r):
            fs.append(fnd("C17.CANON", v, "description_rec is not applied to the canonical (sorted, deduplicated) list", r))
        # other mutations of the copy
        import coll
        for bb, c, i in coll.mut_borrow_consumers(v, copy_local):
            nm = call_name(v, ("call", bb))
            if bb not in (s, d) and nm not in ("std::ops::DerefMut::deref_mut",):
                fs.append(fnd("C17.CANON", v, "the canonical list is modified by %s" % nm, bb))
        # empty => fallback constant: tested on the list itself (before or after the copy)
        okf = False
        seen_test = False
        for bb in sorted(v.reach):
            info = v.switch_info(bb)
            if not info:
                continue
            tt = ft = None
            if info["kind"] == "bool":
                dt = strip_refs(canon(v, v.origin(v.blocks[bb]["term"]["discr"])))
                neg = False
                while dt[0] == "unop" and dt[1] == "Not":
                    dt = strip_refs(dt[2])
                    neg = not neg
                subj = None
                if dt[0] == "call" and v.callee(dt[1]).fn is not None and v.callee(dt[1]).name == "is_empty" and dt[3]:
                    subj = dt[3][0]
                elif dt[0] == "binop" and dt[1] in ("Eq", "Ne") and strip_refs(dt[3]) == ("const", "int", 0):
                    a = strip_refs(dt[2])
                    if a[0] == "call" and v.callee(a[1]).fn is not None and v.callee(a[1]).name == "len" and a[3]:
                        subj = a[3][0]
                    elif a[0] == "unop" and a[1] == "PtrMetadata":
                        subj = a[2]
                    if dt[1] == "Ne":
                        neg = not neg
                if subj is None:
                    continue
                sj = strip_refs(canon(v, subj))
                while sj[0] == "call" and call_name(v, sj) in ("std::ops::Deref::deref", "std::vec::Vec::as_slice", "std::ops::DerefMut::deref_mut") and sj[3]:
                    sj = strip_refs(sj[3][0])
                if not (sj == ("param", 1) or sj == ("multi", copy_local) or (sj[0] == "call" and sj[1] == o)):
                    continue
                tt, ft = v.edge_target(info, not neg), v.edge_target(info, neg)
            if tt is None or ft is None:
                continue
            seen_test = True
            reg = v.reachable(tt) - v.reachable(ft)
            for x in reg:
                blk = v.blocks[x]
                if blk["term"]["k"] == "call" and blk["term"]["dest"]["l"] == 0:
                    tm = canon(v, v.origin_call(x))
                    if term_mentions(tm, lambda y: y[0] == "const" and y[1] == "str" and y[2] == "a different value"):
                        okf = True
                for st in blk["stmts"]:
                    if st["k"] == "assign" and st["place"]["l"] == 0 and not st["place"]["p"]:
                        tm = canon(v, v.origin_rv(st["rv"], x))
                        if term_mentions(tm, lambda y: y[0] == "const" and y[1] == "str" and y[2] == "a different value"):
                            okf = True
            if r in reg or not (r in v.reachable(ft)):
                okf = False
        if not okf:
            f_ = fnd("C17.CANON", v, "the empty list does not give the generic fallback (and only the empty list)")
            if not seen_test:
                f_.what = "no emptiness test of the list found: fallback clause not decided (undecided)"
                f_.undecided = True
            fs.append(f_)
    res.add("C17.CANON", 8, fs)
    # order: injective rank
    ov = View(order)
    tab = variant_const_table(ov)
    fs = []
    if tab is None or any(tab.get(k) is None or tab[k][0] != "const" for k in KINDS):
        f_ = fnd("C17.CANON", ov, "cannot read the rank table of `order` (undecided)")
        f_.undecided = True
        fs.append(f_)
    else:
        ranks = [tab[k][2] for k in KINDS]
        if len(set(ranks)) != len(KINDS):
            fs.append(fnd("C17.CANON", ov, "`order` is not injective (%s): with equal ranks the stable sort leaks the input order" % dict(zip(KINDS, ranks))))
        res.samples.append({"order": dict(zip(KINDS, ranks))})
    res.add("C17.ORDER", 8, fs)
    # ---- NAMES
    sv = View(single)
    tab = variant_const_table(sv)
    fs = []
    if tab is None or any(tab.get(k) is None or tab[k][0] != "const" for k in KINDS):
        f_ = fnd("C17.NAMES", sv, "cannot read the table of single_description (undecided)")
        f_.undecided = True
        fs.append(f_)
    else:
        names_ = {k: tab[k][2] for k in KINDS}
        if len(set(names_.values())) != len(KINDS):
            fs.append(fnd("C17.NAMES", sv, "two kinds share a description: %s" % names_))
        if names_.get("Float") != "a number":
            fs.append(fnd("C17.NAMES", sv, "floats are described as `%s` instead of `a number`" % names_.get("Float")))
        res.samples.append({"single_description": names_})
    res.add("C17.NAMES", 8, fs)
    # ---- DET: no statics / interior state in the three helpers
    fs = []
    for b in (main, order, single, rec):
        vv = View(b)
        import json as _json
        txt = _json.dumps(b.blocks)
        if '"static"' in txt:
            fs.append(fnd("C17.DET", vv, "the description reads a static"))
        for bb, c in vv.calls():
            if c.fn is not None and c.krate not in ("std", "core", "alloc", "deserr"):
                fs.append(fnd("C17.DET", vv, "the description calls into %s" % c.full, bb))
            if c.fn is not None and any(x in c.path for x in ("std::env", "std::time", "std::thread", "std::cell", "std::sync", "rand")):
                fs.append(fnd("C17.DET", vv, "the description depends on ambient state (%s)" % c.full, bb))
    res.add("C17.DET", 4, fs)
    # ---- PROGRESS: every recursive call passes a strict suffix of its own slice
    rv = View(rec)
    fs = []
    rcs = [bb for bb, c in rv.calls() if c.fn is not None and c.path == rec.path]
    ob = max(1, len(rcs))
    if not rcs:
        fs.append(fnd("C17.PROGRESS", rv, "description_rec is not recursive any more: cannot establish coverage of the list"))
    for bb in rcs:
        a0 = strip_refs(canon(rv, rv.origin(rv.blocks[bb]["term"]["args"][0])))
        srcs = []
        if a0[0] == "field" and a0[1][0] == "multi" and a0[3].isdigit():
            for d in rv.whole_defs(a0[1][1]):
                if d[0] == "stmt":
                    t = canon(rv, rv.origin_rv(d[3]["rv"], d[1]))
                    if t[0] == "agg" and t[1] == "tuple" and int(a0[3]) < len(t[2]):
                        srcs.append(strip_refs(t[2][int(a0[3])]))
                    else:
                        srcs.append(("?",))
        else:
            srcs.append(a0)
        expanded = []
        for s in srcs:
            if s[0] == "multi":
                for d in rv.whole_defs(s[1]):
                    if d[0] == "stmt":
                        expanded.append(strip_refs(canon(rv, rv.origin_rv(d[3]["rv"], d[1]))))
                    else:
                        expanded.append(("?",))
            else:
                expanded.append(s)
        for s in expanded:
            ok = False
            if s[0] == "subslice" and strip_refs(s[1]) == ("param", 1) and s[2] >= 1 and s[4] and s[3] == 0:
                ok = True
            if s[0] == "agg" and s[1] == "array" and not s[2]:
                ok = True   # &[]
            if s[0] == "const":
                ok = True   # promoted empty slice
            if not ok:
                fs.append(fnd("C17.PROGRESS", rv, "a recursive call does not pass a strict suffix of the list it was given", bb, fmt(s)))
    res.add("C17.PROGRESS", ob, fs)
    res.trusted_base = ["rustc nightly MIR construction", "mirfacts extractor", "rules/p_c17.py", "std: sort_by_key is a stable sort by the key; dedup removes consecutive equal elements"]
    res.assumptions = ["decides clause 1 (the phrase is a function of the set of kinds) and the fallback; the composition of the phrase ('a number' / 'an integer' merging, punctuation) is run-time string building and is not decided"]
    res.explanation = ("CANON: the kinds parameter is only copied; the copy is sorted by the injective rank `order`, deduplicated, tested for emptiness (fallback constant) and handed to description_rec, nothing else touches it — "
                       "so description_rec's argument is a function of the set. DET: the helpers read no statics and call nothing outside std. NAMES: eight pairwise distinct descriptions, Float = 'a number'. "
                       "PROGRESS: every recursive call passes a strict suffix, so every element of the canonical list is visited once.")
    return res


# ---------------------------------------------------------------------------------------------
# C17.TABLE — decision table of description_rec's slice patterns, extracted by a symbolic walk
# (length interval + possible variants of the first elements) and compared, on the 256 canonical
# (rank-sorted, duplicate-free) lists, with the table the statement prescribes.
RANK = ["Null", "Boolean", "Integer", "NegativeInteger", "Float", "String", "Sequence", "Map"]


def extract_rec_table(rv, single_path="::single_description"):
    from analysis import strip_refs
    from loc import canon, call_name
    leaves = []
    INF = 99
    # the list being described: parameter 1 and plain copies of it (the parameter of an expanded helper)
    SL = {1}
    grew = True
    while grew:
        grew = False
        for l in range(len(rv.b.locals)):
            if l in SL:
                continue
            wd = rv.whole_defs(l)
            if len(wd) == 1 and wd[0][0] == "stmt":
                r0 = wd[0][3]["rv"]
                if r0["k"] == "use" and r0["op"]["k"] in ("copy", "move") and not r0["op"]["place"]["p"] and r0["op"]["place"]["l"] in SL:
                    SL.add(l)
                    grew = True

    def walk(bb, lo, hi, elems, depth, env=None):
        if lo > hi or depth > 80:
            return
        env = dict(env or {})
        blk = rv.blocks[bb]
        # bindings made on this path (`rest @ ..` of or-patterns are assigned in several sub-branches)
        for st in blk["stmts"]:
            if st["k"] == "assign" and not st["place"]["p"]:
                r0 = st["rv"]
                if r0["k"] == "ref" and r0["place"]["l"] in SL and len(r0["place"]["p"]) == 2 and r0["place"]["p"][1]["k"] == "subslice":
                    e = r0["place"]["p"][1]
                    if e["from_end"] and e["to"] == 0:
                        env[st["place"]["l"]] = e["from"]
                elif r0["k"] == "ref" and len(r0["place"]["p"]) == 1 and r0["place"]["p"][0]["k"] == "deref" and r0["place"]["l"] in env:
                    env[st["place"]["l"]] = env[r0["place"]["l"]]
                elif r0["k"] == "use" and r0["op"]["k"] in ("copy", "move") and not r0["op"]["place"]["p"] and r0["op"]["place"]["l"] in env:
                    env[st["place"]["l"]] = env[r0["op"]["place"]["l"]]
        # leaf: `(msg_part, rest) = ..` tuple assignment
        for st in blk["stmts"]:
            if st["k"] == "assign" and st["rv"]["k"] == "agg" and st["rv"]["ak"] == "tuple" and len(st["rv"]["ops"]) == 2 and not st["place"]["p"]:
                m = canon(rv, rv.origin(st["rv"]["ops"][0]))
                r = strip_refs(canon(rv, rv.origin(st["rv"]["ops"][1])))
                msg = None
                m = strip_refs(m)
                if m[0] == "call" and call_name(rv, m) == "std::string::String::new":
                    msg = ("const", "")
                else:
                    a = m
                    # an owned copy of a constant / of the single name, or the &'static str itself
                    if a[0] == "call" and (call_name(rv, a) or "").split("::")[-1] in ("to_owned", "to_string", "from", "into") and a[3]:
                        a = strip_refs(a[3][0])
                    if a[0] == "const" and a[1] == "str":
                        msg = ("const", a[2])
                    elif a[0] == "call" and rv.callee(a[1]).path.endswith(single_path) and a[3]:
                        e = strip_refs(a[3][0])
                        if e[0] == "constindex" and not e[3]:
                            msg = ("single", e[2])
                rest = None
                op1 = st["rv"]["ops"][1]
                if op1["k"] in ("copy", "move") and not op1["place"]["p"] and op1["place"]["l"] in env:
                    rest = env[op1["place"]["l"]]
                elif r[0] == "subslice" and r[4] and r[3] == 0:
                    rest = r[2]
                elif r[0] == "agg" and r[1] == "array" and not r[2]:
                    rest = "all"
                leaves.append({"lo": lo, "hi": hi, "elems": dict(elems), "msg": msg, "rest": rest})
                return
        t = blk["term"]
        if t["k"] == "switch":
            info = rv.switch_info(bb)
            if info["kind"] == "discr" and info["place"] is not None:
                p = info["place"]["p"]
                if len(p) == 2 and p[0]["k"] == "deref" and p[1]["k"] == "constindex" and not p[1]["from_end"] and info["place"]["l"] in SL:
                    i = p[1]["offset"]
                    cur = elems.get(i, set(RANK))
                    used = set()
                    for lb, tgt in info["edges"]:
                        if lb is None:
                            continue
                        used.add(lb)
                        if lb in cur:
                            e2 = dict(elems)
                            e2[i] = {lb}
                            walk(tgt, max(lo, p[1]["min_length"]), hi, e2, depth + 1, env)
                    rest_set = cur - used
                    for lb, tgt in info["edges"]:
                        if lb is None and rest_set and tgt not in rv.unreach:
                            e2 = dict(elems)
                            e2[i] = rest_set
                            walk(tgt, lo, hi, e2, depth + 1, env)
                    return
            if info["kind"] == "bool":
                src = info.get("src")
                if src is not None and src["k"] == "binop":
                    a = strip_refs(canon(rv, rv.origin(src["a"])))
                    b = strip_refs(canon(rv, rv.origin(src["b"])))
                    if a[0] == "unop" and a[1] == "PtrMetadata" and b[0] == "const":
                        c = b[2]
                        tt, ft = rv.edge_target(info, True), rv.edge_target(info, False)
                        op = src["op"]
                        if op == "Eq":
                            walk(tt, max(lo, c), min(hi, c), elems, depth + 1, env)
                            if lo < c:
                                walk(ft, lo, min(hi, c - 1), elems, depth + 1, env)
                            if hi > c:
                                walk(ft, max(lo, c + 1), hi, elems, depth + 1, env)
                        elif op == "Ge":
                            walk(tt, max(lo, c), hi, elems, depth + 1, env)
                            walk(ft, lo, min(hi, c - 1), elems, depth + 1, env)
                        elif op == "Lt":
                            walk(tt, lo, min(hi, c - 1), elems, depth + 1, env)
                            walk(ft, max(lo, c), hi, elems, depth + 1, env)
                        else:
                            leaves.append({"lo": lo, "hi": hi, "elems": dict(elems), "msg": None, "rest": None})
                        return
            leaves.append({"lo": lo, "hi": hi, "elems": dict(elems), "msg": None, "rest": None})
            return
        for s in rv.succ[bb]:
            walk(s, lo, hi, elems, depth + 1, env)
    walk(0, 0, INF, {}, 0)
    return leaves


def expected_row(lst):
    if not lst:
        return ("const", ""), "all"
    if lst[:3] == ["Integer", "NegativeInteger", "Float"]:
        return ("const", "a number"), 3
    if lst[:2] in (["Integer", "Float"], ["NegativeInteger", "Float"]):
        return ("const", "a number"), 2
    if lst[:2] == ["Integer", "NegativeInteger"]:
        return ("const", "an integer"), 2
    return ("single", 0), 1


def table_rule(ctx, res):
    from lin import Finding
    crate = ctx.libcrate("deserr")
    _order, single, rec = find_helpers(crate, body(crate, BASE))
    if rec is None or single is None:
        res.add("C17.TABLE", 1, [Finding("C17.TABLE", "description_rec", "recursive description not found (undecided)", "", undecided=True)])
        return
    rv = View(rec)
    leaves = extract_rec_table(rv, single.path)
    fs = []
    n = 0
    bad = []
    import itertools
    # canonical lists are sorted by the rank function the code actually uses
    rank_order = list(RANK)
    if _order is not None:
        tab = variant_const_table(View(_order))
        if tab and all(tab.get(k) is not None and tab[k][0] == "const" for k in KINDS) and len(set(tab[k][2] for k in KINDS)) == len(KINDS):
            rank_order = sorted(KINDS, key=lambda k: tab[k][2])
    if not leaves or all(lf["msg"] is None for lf in leaves):
        f_ = Finding("C17.TABLE", rec.path, "the slice patterns of one description step were not recognised: merging table not extracted (undecided)", rec.span, undecided=True)
        res.add("C17.TABLE", 1, [f_])
        return
    unknown_rows = 0
    for k in range(0, 9):
        for combo in itertools.combinations(rank_order, k):
            lst = list(combo)   # canonical: rank order, no duplicates
            n += 1
            hits = []
            for lf in leaves:
                if not (lf["lo"] <= len(lst) <= lf["hi"]):
                    continue
                if all(i < len(lst) and lst[i] in s for i, s in lf["elems"].items()):
                    hits.append(lf)
            want_msg, want_rest = expected_row(lst)
            if len(hits) != 1:
                bad.append((lst, "matched by %d rows of the extracted table" % len(hits)))
                continue
            h = hits[0]
            if h["msg"] is None or h["rest"] is None:
                unknown_rows += 1
                continue
            got_rest = h["rest"]
            if got_rest == "all":
                got_rest = "all" if not lst or len(lst) == 1 else "ALL"
            wr = want_rest
            if wr != "all" and wr == len(lst):
                pass
            ok_rest = (got_rest == want_rest) or (h["rest"] == "all" and want_rest == len(lst)) or (h["rest"] == len(lst) == want_rest)
            if h["msg"] != want_msg or not ok_rest:
                bad.append((lst, "described by %s consuming %s, the statement prescribes %s consuming %s" % (h["msg"], h["rest"], want_msg, want_rest)))
    for lst, why in bad[:6]:
        fs.append(Finding("C17.TABLE", rec.path, "kind set %s is %s" % (lst, why), rec.span))
    if unknown_rows:
        fs.append(Finding("C17.TABLE", rec.path, "%d kind sets reach a step whose phrase / remainder was not recognised: not decided for them (undecided)" % unknown_rows, rec.span, undecided=True))
    res.add("C17.TABLE", n, fs)
    res.samples.append({"description_rec_table": [{"len": (lf["lo"], lf["hi"] if lf["hi"] < 99 else "inf"), "first_elements": {str(i): sorted(s) for i, s in lf["elems"].items() if len(s) < 8},
                                                    "phrase": lf["msg"], "rest_from": lf["rest"]} for lf in leaves][:12]})


_run_inner = run


def run(ctx):  # noqa: F811
    res = _run_inner(ctx)
    table_rule(ctx, res)
    res.assumptions = [a.replace("the composition of the phrase ('a number' / 'an integer' merging, punctuation) is run-time string building and is not decided",
                                 "the merging table ('a number' / 'an integer' / single names, and how many elements each step consumes) is decided by C17.TABLE; only the joining punctuation (', ', ' or ', ', or ') is run-time string building and is not decided") for a in res.assumptions]
    res.explanation += (" TABLE: the decision table of description_rec's slice patterns is extracted by a symbolic walk (length interval, variant sets of the first elements) and must give, "
                        "for each of the 256 canonical lists, exactly the phrase and the number of consumed kinds the statement prescribes ([Int,NegInt,Float] / [Int,Float] / [NegInt,Float] -> 'a number'; [Int,NegInt] -> 'an integer'; else the single name).")
    return res


# ---------------------------------------------------------------------------------------------
# C17.JOIN — "joined as 'a', 'a or b', 'a, b, or c'": the joiner decision table of description_rec.
# After the (phrase, rest) pair of one step is known, the text appended to the message depends on
# (rest is empty?, number of items already written) only.  A symbolic walk over those two facts
# (count classes 0 / 1 / >=2) collects, per case, the pieces appended, the counter updates and the
# recursive call; they must equal the table the statement prescribes:
#     last item   : 0 -> phrase      1 -> " or " phrase     >=2 -> ", or " phrase
#     other items : 0 -> phrase      >=1 -> ", " phrase ;  counter += 1 ; recurse(rest, counter, message)
# and the entry point starts with counter 0 and a fresh message that it returns.
CLASSES = ("0", "1", "2+")


def _class_split(op, c, classes):
    """(classes where `count <op> c` is true, classes where false) or None when not decidable on the abstraction"""
    def holds(cl):
        # returns True / False / None (mixed)
        if cl == "0":
            vals = [0]
        elif cl == "1":
            vals = [1]
        else:
            vals = [2, 3, 1000]
        rs = set()
        for x in vals:
            rs.add({"Eq": x == c, "Ne": x != c, "Lt": x < c, "Le": x <= c, "Gt": x > c, "Ge": x >= c}[op])
        return rs.pop() if len(rs) == 1 else None
    t, f = set(), set()
    for cl in classes:
        h = holds(cl)
        if h is None:
            return None
        (t if h else f).add(cl)
    return t, f


def join_rule(ctx, res):
    import strterm
    crate = ctx.libcrate("deserr")
    main = body(crate, BASE)
    _order, single, rec = find_helpers(crate, main)
    rule = "C17.JOIN"
    if main is None or rec is None:
        res.add(rule, 1, [Finding(rule, BASE, "recursive description not found (undecided)", "", undecided=True)])
        return
    rv = View(rec)
    fs = []
    # the (phrase, rest) pair: local T assigned tuple aggregates; M = T.0, R = T.1
    T = None
    for bb in sorted(rv.reach):
        for st in rv.blocks[bb]["stmts"]:
            if st["k"] == "assign" and st["rv"]["k"] == "agg" and st["rv"]["ak"] == "tuple" and len(st["rv"]["ops"]) == 2 and not st["place"]["p"]:
                tys_ = rv.b.ltys(st["place"]["l"])
                if tys_.startswith("(") and "ValueKind]" in tys_ and ("String" in tys_.split(",")[0] or "str" in tys_.split(",")[0]):
                    T = st["place"]["l"]
    if T is None:
        f_ = fnd(rule, rv, "cannot find the (phrase, rest) pair of one step: joiner table not extracted (undecided)")
        f_.undecided = True
        res.add(rule, 1, [f_])
        return
    M = R = None
    start = None
    for bb in sorted(rv.reach):
        for st in rv.blocks[bb]["stmts"]:
            if st["k"] == "assign" and st["rv"]["k"] == "use" and st["rv"]["op"]["k"] in ("move", "copy") and not st["place"]["p"]:
                pl = st["rv"]["op"]["place"]
                if pl["l"] == T and len(pl["p"]) == 1 and pl["p"][0]["k"] == "field":
                    if pl["p"][0]["i"] == 0:
                        M = st["place"]["l"]
                        start = bb if start is None else start
                    elif pl["p"][0]["i"] == 1:
                        R = st["place"]["l"]
    if M is None or R is None or start is None:
        f_ = fnd(rule, rv, "cannot find the phrase / rest bindings: joiner table not extracted (undecided)")
        f_.undecided = True
        res.add(rule, 1, [f_])
        return

    def is_msg(t):
        t = strip_refs(t)
        return t in (("multi", M), ("local", M)) or (t[0] == "field" and strip_refs(t[1]) in (("multi", T), ("local", T)) and str(t[-1]) == "0") or \
            term_mentions(t, lambda y: isinstance(y, tuple) and len(y) == 2 and y[0] in ("multi", "local") and y[1] == M)

    def is_rest(t):
        t = strip_refs(t)
        return t in (("multi", R), ("local", R)) or (t[0] == "field" and strip_refs(t[1]) in (("multi", T), ("local", T)) and str(t[-1]) == "1")

    def is_count_place(pl):
        return pl["l"] == 2 and len(pl["p"]) == 1 and pl["p"][0]["k"] == "deref"

    results = {}   # (empty, class) -> list of path summaries
    problems = []

    def record(empty, classes, summ):
        for e in ([True, False] if empty is None else [empty]):
            for cl in classes:
                results.setdefault((e, cl), []).append(summ)

    def walk(bb, empty, classes, pieces, incr, rec_calls, depth, seen, penv=None):
        if depth > 200 or (bb, empty, tuple(sorted(classes))) in seen:
            problems.append("loop in the joiner logic")
            return
        seen = seen | {(bb, empty, tuple(sorted(classes)))}
        blk = rv.blocks[bb]
        pieces = list(pieces)
        penv = dict(penv or {})
        # constants / copies bound on this path (`let separator = match .. { .. => ", " }`)
        for st in blk["stmts"]:
            if st["k"] == "assign" and not st["place"]["p"]:
                r0 = st["rv"]
                if r0["k"] == "use" and r0["op"]["k"] == "const" and "str" in r0["op"]:
                    penv[st["place"]["l"]] = ("lit", r0["op"]["str"])
                elif r0["k"] == "use" and r0["op"]["k"] in ("copy", "move") and not r0["op"]["place"]["p"] and r0["op"]["place"]["l"] in penv:
                    penv[st["place"]["l"]] = penv[r0["op"]["place"]["l"]]
                elif r0["k"] == "ref" and r0["place"]["l"] in penv and all(e["k"] == "deref" for e in r0["place"]["p"]):
                    penv[st["place"]["l"]] = penv[r0["place"]["l"]]
                elif r0["k"] == "use" and r0["op"]["k"] in ("copy", "move") and r0["op"]["place"]["l"] in penv and all(e["k"] == "deref" for e in r0["op"]["place"]["p"]):
                    penv[st["place"]["l"]] = penv[r0["op"]["place"]["l"]]
                else:
                    penv.pop(st["place"]["l"], None)
        for st in blk["stmts"]:
            if st["k"] == "assign" and is_count_place(st["place"]):
                # (*count) = move tmp.0 where tmp = AddWithOverflow(copy *count, const 1)   |  (*count) = Add(..)
                t = canon(rv, rv.origin_rv(st["rv"], bb))
                ok = False
                tt = t
                if tt[0] == "field" and tt[1][0] == "binop":
                    tt = tt[1]
                if tt[0] == "binop" and tt[1] in ("AddWithOverflow", "Add", "AddUnchecked"):
                    a, b2 = strip_refs(tt[2]), strip_refs(tt[3])
                    if b2[0] == "const" and b2[2] == 1 and a[0] == "deref" and strip_refs(a[1]) == ("param", 2):
                        ok = True
                    elif b2[0] == "const" and b2[2] == 1 and a == ("param", 2):
                        ok = True
                if ok and rec_calls == 0:
                    incr += 1
                else:
                    problems.append("the item counter is changed by something else than `+= 1` before the recursive call (%s)" % fmt(t))
        t = blk["term"]
        if t["k"] == "return":
            record(empty, classes, (tuple(pieces), incr, rec_calls))
            return
        if t["k"] == "switch":
            info = rv.switch_info(bb)
            if info["kind"] == "bool":
                dt = strip_refs(canon(rv, rv.origin(t["discr"])))
                neg = False
                while dt[0] == "unop" and dt[1] == "Not":
                    dt = strip_refs(dt[2])
                    neg = not neg
                if dt[0] == "call" and rv.callee(dt[1]).fn is not None and rv.callee(dt[1]).name == "is_empty" and dt[3] and is_rest(dt[3][0]):
                    for val in (True, False):
                        if empty is None or empty == val:
                            walk(rv.edge_target(info, val != neg), val, classes, pieces, incr, rec_calls, depth + 1, seen, penv)
                    return
                if dt[0] == "binop" and dt[1] in ("Eq", "Ne", "Lt", "Le", "Gt", "Ge"):
                    a = strip_refs(dt[2])
                    b2 = strip_refs(dt[3])
                    if (a == ("param", 2) or (a[0] == "deref" and strip_refs(a[1]) == ("param", 2))) and b2[0] == "const" and isinstance(b2[2], int):
                        sp = _class_split(dt[1], b2[2], classes)
                        if sp is None:
                            problems.append("the joiner depends on the item counter beyond 0 / 1 / more (compared with %s)" % b2[2])
                            return
                        tcs, fcs = sp
                        if neg:
                            tcs, fcs = fcs, tcs
                        if tcs:
                            walk(rv.edge_target(info, True), empty, tcs, pieces, incr, rec_calls, depth + 1, seen, penv)
                        if fcs:
                            walk(rv.edge_target(info, False), empty, fcs, pieces, incr, rec_calls, depth + 1, seen, penv)
                        return
                    # `rest.len() == 0`
                    if a[0] in ("call", "unop") and b2 == ("const", "int", 0) and dt[1] in ("Eq", "Ne") and \
                            ((a[0] == "unop" and a[1] == "PtrMetadata" and is_rest(a[2])) or (a[0] == "call" and rv.callee(a[1]).name == "len" and a[3] and is_rest(a[3][0]))):
                        for val in (True, False):
                            if empty is None or empty == val:
                                walk(rv.edge_target(info, (val if dt[1] == "Eq" else not val) != neg), val, classes, pieces, incr, rec_calls, depth + 1, seen, penv)
                        return
            if info["kind"] == "int" and t["discr"]["k"] in ("copy", "move"):
                dt = strip_refs(canon(rv, rv.origin(t["discr"])))
                if dt == ("param", 2) or (dt[0] == "deref" and strip_refs(dt[1]) == ("param", 2)):
                    left = set(classes)
                    for lb, tgt in info["edges"]:
                        if lb is None:
                            continue
                        cl = "0" if lb == 0 else "1" if lb == 1 else None
                        if cl is None:
                            problems.append("the joiner depends on the item counter beyond 0 / 1 / more (value %s)" % lb)
                            return
                        if cl in left:
                            left.discard(cl)
                            walk(tgt, empty, {cl}, pieces, incr, rec_calls, depth + 1, seen, penv)
                    if left:
                        walk(t["otherwise"], empty, left, pieces, incr, rec_calls, depth + 1, seen, penv)
                    return
            problems.append("the joiner logic branches on something else than `rest.is_empty()` and the item counter (%s)" % blk["term"].get("at", ""))
            return
        if t["k"] == "call":
            c = rv.callee(bb)
            nm = call_name(rv, ("call", bb)) or ""
            args = t["args"]
            a0 = strip_refs(canon(rv, rv.origin(args[0]))) if args else None
            on_message = a0 is not None and (a0 == ("param", 3) or (a0[0] == "deref" and strip_refs(a0[1]) == ("param", 3)))
            if c.fn is not None and c.path == rec.path:
                ok = len(args) == 3 and is_rest(canon(rv, rv.origin(args[0])))
                a1 = strip_refs(canon(rv, rv.origin(args[1])))
                a2 = strip_refs(canon(rv, rv.origin(args[2])))
                if a1[0] == "field" and a1[1][0] == "binop":
                    a1 = a1[1]
                if a1[0] == "binop" and a1[1] in ("Add", "AddWithOverflow", "AddUnchecked") and strip_refs(a1[3]) == ("const", "int", 1) and \
                        strip_refs(a1[2]) in (("param", 2), ("deref", ("param", 2))):
                    incr += 1      # the counter is handed on as `count + 1`
                    a1 = ("param", 2)
                ok = ok and (a1 == ("param", 2) or (a1[0] == "deref" and strip_refs(a1[1]) == ("param", 2)))
                ok = ok and (a2 == ("param", 3) or (a2[0] == "deref" and strip_refs(a2[1]) == ("param", 3)))
                if not ok:
                    problems.append("the recursive call is not (rest, item counter, message)")
                rec_calls += 1
            elif on_message and nm in ("std::string::String::push_str", "std::ops::AddAssign::add_assign", "std::string::String::push"):
                if rec_calls:
                    problems.append("text is appended after the rest of the list was described")
                a1op = args[1]
                ps = None
                if a1op["k"] in ("copy", "move") and a1op["place"]["l"] in penv and all(e["k"] == "deref" for e in a1op["place"]["p"]):
                    ps = [penv[a1op["place"]["l"]]]
                    if ps[0] == ("lit", ""):
                        ps = []
                if ps is None:
                    ps = strterm.pieces(rv, deep_local(rv, rv.origin(args[1])))
                if ps is None:
                    problems.append("cannot read what is appended to the message at %s" % t.get("at", ""))
                    ps = [("val", ("?",))]
                for p in ps:
                    if p[0] == "val":
                        pieces.append(("MSG",) if is_msg(p[1]) else ("val", fmt(p[1])))
                    else:
                        pieces.append(p)
            elif on_message:
                problems.append("the message is handed to %s: cannot establish the joiner table" % nm)
            nxt = t.get("target")
            if nxt is None:
                return
            walk(nxt, empty, classes, pieces, incr, rec_calls, depth + 1, seen, penv)
            return
        for s in rv.succ[bb]:
            walk(s, empty, classes, pieces, incr, rec_calls, depth + 1, seen, penv)

    walk(start, None, set(CLASSES), [], 0, 0, 0, frozenset())
    for p in sorted(set(problems))[:4]:
        fs.append(fnd(rule, rv, p))

    def merged(ps):
        out = []
        for p in ps:
            if p[0] == "lit" and out and out[-1][0] == "lit":
                out[-1] = ("lit", out[-1][1] + p[1])
            else:
                out.append(p)
        return tuple(out)
    want = {
        (True, "0"): (("MSG",),), (True, "1"): (("lit", " or "), ("MSG",)), (True, "2+"): (("lit", ", or "), ("MSG",)),
        (False, "0"): (("MSG",),), (False, "1"): (("lit", ", "), ("MSG",)), (False, "2+"): (("lit", ", "), ("MSG",)),
    }
    table = {}
    if not problems:
        for key, w in want.items():
            got = results.get(key, [])
            summ = set((merged(p), i, r) for p, i, r in got)
            if len(summ) != 1:
                fs.append(fnd(rule, rv, "case (rest empty=%s, items written=%s) has %d different outcomes: cannot establish the joiner table" % (key[0], key[1], len(summ))))
                continue
            p, i, r = next(iter(summ))
            table["%s/%s" % ("last" if key[0] else "more", key[1])] = {"appended": [x[1] if x[0] == "lit" else "<phrase>" for x in p], "counter+=": i, "recurse": r}
            if p != w:
                def show(ps):
                    return "".join(x[1] if x[0] == "lit" else "<phrase>" if x[0] == "MSG" else "<%s>" % x[1] for x in ps)
                fs.append(fnd(rule, rv, "%s item after %s written item(s) is appended as `%s`, the statement prescribes `%s`" % ("the last" if key[0] else "a non-last", key[1], show(p), show(w))))
            if key[0] and r != 0:
                fs.append(fnd(rule, rv, "the description continues after the last item"))
            if not key[0] and (r != 1 or i != 1):
                fs.append(fnd(rule, rv, "a non-last item (items written=%s) is followed by %d recursive call(s) after %d counter increment(s) (expected one of each)" % (key[1], r, i)))
    # entry: counter starts at 0, message fresh and returned
    v = View(main)
    recs = [bb for bb, c in v.calls() if c.fn is not None and c.path == rec.path]
    if len(recs) == 1:
        args = v.blocks[recs[0]]["term"]["args"]
        a1 = strip_refs(canon(v, v.origin(args[1])))
        a2 = strip_refs(canon(v, v.origin(args[2])))
        init_ok = a1[0] == "const" and a1[2] == 0
        if not init_ok and a1[0] in ("multi", "local"):
            wd = v.whole_defs(a1[1])
            init_ok = len(wd) == 1 and wd[0][0] == "stmt" and strip_refs(canon(v, v.origin_rv(wd[0][3]["rv"], wd[0][1])))[0] == "const" and strip_refs(canon(v, v.origin_rv(wd[0][3]["rv"], wd[0][1])))[2] == 0
        if not init_ok:
            fs.append(fnd(rule, v, "the item counter does not start at 0", recs[0], fmt(a1)))
        msg_ok = False
        if a2[0] in ("multi", "local"):
            wd = v.whole_defs(a2[1])
            fresh = len(wd) == 1 and wd[0][0] == "call" and call_name(v, ("call", wd[0][1])) == "std::string::String::new"
            returned = False
            for x in v.reachable(recs[0]):
                for st in v.blocks[x]["stmts"]:
                    if st["k"] == "assign" and st["place"]["l"] == 0 and not st["place"]["p"] and st["rv"]["k"] == "use" and st["rv"]["op"]["k"] in ("move", "copy") and st["rv"]["op"]["place"]["l"] == a2[1]:
                        returned = True
            msg_ok = fresh and returned
        elif a2[0] == "call" and call_name(v, a2) == "std::string::String::new":
            ml = v.blocks[a2[1]]["term"]["dest"]["l"]
            for x in v.reachable(recs[0]):
                for st in v.blocks[x]["stmts"]:
                    if st["k"] == "assign" and st["place"]["l"] == 0 and not st["place"]["p"] and st["rv"]["k"] == "use" and st["rv"]["op"]["k"] in ("move", "copy") and \
                            st["rv"]["op"]["place"]["l"] == ml and not st["rv"]["op"]["place"]["p"]:
                        msg_ok = True
        if not msg_ok:
            fs.append(fnd(rule, v, "the message handed to the description is not a fresh string that is then returned", recs[0], fmt(a2)))
    res.add(rule, 8, fs)
    if table:
        res.samples.append({"joiner_table": table})


def deep_local(v, t, depth=0):
    """expand single-definition temporaries inside a term"""
    if depth > 8 or not isinstance(t, tuple):
        return t
    if t and t[0] == "multi":
        wd = v.whole_defs(t[1])
        if len(wd) == 1 and wd[0][0] == "stmt":
            return deep_local(v, v.origin_rv(wd[0][3]["rv"], wd[0][1]), depth + 1)
        if len(wd) == 1 and wd[0][0] == "call":
            return deep_local(v, v.origin_call(wd[0][1]), depth + 1)
        return t
    return tuple(deep_local(v, x, depth + 1) if isinstance(x, tuple) else x for x in t)


_run_table = run


def run(ctx):  # noqa: F811
    res = _run_table(ctx)
    join_rule(ctx, res)
    res.assumptions = [a.replace("only the joining punctuation (', ', ' or ', ', or ') is run-time string building and is not decided",
                                 "the joiner table ('a', 'a or b', 'a, b, or c') is decided by C17.JOIN over (rest empty?, items written in {0,1,>=2})") for a in res.assumptions]
    res.explanation += (" JOIN: after each step's (phrase, rest) pair the text appended to the message is extracted per case (rest empty?, items already written 0 / 1 / more) "
                        "and must be phrase | ' or 'phrase | ', or 'phrase for the last item and phrase | ', 'phrase otherwise, with exactly one counter increment and one recursive call (rest, counter, message) for non-last items; "
                        "the entry point starts the counter at 0 with a fresh message that it returns.")
    return res
