#!/usr/bin/env python3
"""Confirms a seeded change (patch.diff + seed_demo.rs) and runs the checks against it.
usage: rules/seedcheck.py <dir with patch.diff and seed_demo.rs> [--no-validate] [--props C01,C02]
Works on a scratch copy of /repo under $TMPDIR (removed afterwards)."""
import json
import os
import shutil
import subprocess
import sys
import tempfile

HERE = os.path.dirname(os.path.abspath(__file__))
VERIF = os.path.dirname(HERE)
sys.path.insert(0, HERE)
import selftest  # noqa: E402


def run(cmd, cwd, env=None):
    r = subprocess.run(cmd, cwd=cwd, env=env, stdout=subprocess.PIPE, stderr=subprocess.STDOUT, text=True)
    return r.returncode, r.stdout


def main():
    d = os.path.abspath(sys.argv[1])
    validate = "--no-validate" not in sys.argv
    props = ["C%02d" % i for i in range(1, 21)]
    for i, a in enumerate(sys.argv):
        if a == "--props":
            props = sys.argv[i + 1].split(",")
    base = tempfile.mkdtemp(prefix="verif-seed-")
    root = os.path.join(base, "repo")
    out = {"dir": d}
    try:
        subprocess.run(["rsync", "-a", "--exclude", "target", "--exclude", ".git", "/repo/", root + "/"], check=True)
        env = dict(os.environ, CARGO_NET_OFFLINE="true", CARGO_TARGET_DIR=os.path.join(base, "target"))
        demo = os.path.join(d, "seed_demo.rs")
        feat = []
        if os.path.exists(os.path.join(d, "features.txt")):
            feat = ["--features", open(os.path.join(d, "features.txt")).read().strip()]
        if validate:
            shutil.copy(demo, os.path.join(root, "tests", "seed_demo.rs"))
            rc, o = run(["cargo", "test", "--offline", "--test", "seed_demo"] + feat, root, env)
            out["demo_without_change"] = "pass" if rc == 0 else "FAIL"
        rc, o = run(["git", "apply", "--unsafe-paths", "--directory=" + root, os.path.join(d, "patch.diff")], "/")
        if rc != 0:
            rc, o = run(["patch", "-p1", "-i", os.path.join(d, "patch.diff")], root)
        out["patch_applies"] = rc == 0
        if rc != 0:
            out["patch_error"] = o[-500:]
        if validate:
            rc, o = run(["cargo", "test", "--offline", "--test", "seed_demo"] + feat, root, env)
            out["demo_with_change"] = "fail (as intended)" if rc != 0 else "PASSES (seed does not manifest)"
            os.remove(os.path.join(root, "tests", "seed_demo.rs"))
            rc, o = run(["cargo", "test", "--workspace", "--offline", "--no-fail-fast"], root, env)
            out["suite_with_change"] = "pass" if rc == 0 else "FAIL"
            if rc != 0:
                out["suite_output"] = o[-800:]
        selftest.seed_cache(root)
        env2 = dict(os.environ, VERIF_REPO=root, VERIF_EVIDENCE_DIR=os.path.join(base, "evidence"))
        caught = {}
        undecided = {}
        for p in props:
            r = subprocess.run([os.path.join(VERIF, "bin", "check"), p], env=env2, stdout=subprocess.PIPE, stderr=subprocess.STDOUT, text=True)
            if r.returncode != 0:
                caught[p] = {"rc": r.returncode, "keys": [l.strip()[:260] for l in r.stdout.splitlines() if " | " in l and not l.startswith("UNDECIDED")][:3]}
            und = [l.strip()[:200] for l in r.stdout.splitlines() if l.startswith("UNDECIDED")]
            if und:
                undecided[p] = und[:3]
        out["caught_by"] = caught
        out["undecided"] = undecided
    finally:
        selftest.drop_cache(root)
        shutil.rmtree(base, ignore_errors=True)
    print(json.dumps(out, indent=1))


if __name__ == "__main__":
    main()
