"""C15 — object member order never changes the outcome: effect-commutativity of the map loops."""
from analysis import View, erase_generics, strip_refs
from check import PropResult
from common import scopes
from lin import Finding
from loc import canon, fmt, call_name
from sites import BodySites, npath, ty_is_payload_iter
import coll
import flow
import skeleton

ITER_OK = {"Map::into_iter", "std::iter::IntoIterator::into_iter", "std::iter::Iterator::next"}


def finding(rule, v, what, bb=None):
    at = v.blocks[bb]["term"].get("at", "") if bb is not None else v.b.span
    return Finding(rule, v.b.path, what, at)


def operands_of_stmt(st):
    rv = st["rv"]
    k = rv["k"]
    if k in ("use", "cast", "repeat"):
        return [rv["op"]]
    if k == "agg":
        return list(rv["ops"])
    if k == "binop":
        return [rv["a"], rv["b"]]
    if k == "unop":
        return [rv["a"]]
    return []


def locals_read_in(v, blocks):
    """(bb, local, how) for every read / borrow of a local in the given blocks"""
    out = []
    for bb in blocks:
        blk = v.blocks[bb]
        for st in blk["stmts"]:
            if st["k"] != "assign":
                continue
            for o in operands_of_stmt(st):
                if o["k"] in ("copy", "move"):
                    out.append((bb, o["place"]["l"], "use"))
            if st["rv"]["k"] in ("ref", "rawptr", "discr"):
                out.append((bb, st["rv"]["place"]["l"], st["rv"]["k"]))
        t = blk["term"]
        if t["k"] == "call":
            for a in t["args"]:
                if a["k"] in ("copy", "move"):
                    out.append((bb, a["place"]["l"], "arg"))
        elif t["k"] == "switch":
            d = t["discr"]
            if d["k"] in ("copy", "move"):
                out.append((bb, d["place"]["l"], "switch"))
    return out


def rules_for_body(v, bs, sk_named):
    out = []
    ob = 0
    crate = v.b.crate
    map_nexts = [n for n in bs.nexts if n["kind"] == "Map::Iter"]
    # ---- C15.ITER: the map iterator is only stepped
    for bb, c in v.calls():
        if c.fn is None:
            continue
        t = v.blocks[bb]["term"]
        touches = False
        for a in t["args"]:
            if a["k"] in ("copy", "move") and ty_is_payload_iter(crate, a["place"]["ty"], kinds=("Map::Iter",)):
                touches = True
        if c.deserr_trait() == "Map":
            touches = True
        if not touches:
            continue
        ob += 1
        nm = None
        if c.deserr_trait() == "Map":
            nm = "Map::" + c.name
        elif c.trait:
            nm = erase_generics(c.trait) + "::" + c.name
        else:
            nm = c.base()
        if nm in ITER_OK or nm == "Map::remove":
            continue
        if nm == "Map::len":
            # only as a capacity hint
            d = t["dest"]["l"]
            users = [(b2, c2) for b2, c2 in v.calls() if any(a["k"] in ("copy", "move") and a["place"]["l"] == d for a in v.blocks[b2]["term"]["args"])]
            alias_ok = all(c2.fn is not None and c2.name == "with_capacity" for _, c2 in users)
            other_reads = [r for r in locals_read_in(v, v.reach) if r[1] == d and r[2] != "arg"]
            if users and alias_ok and not other_reads:
                continue
            out.append(finding("C15.ITER", v, "the number of members influences more than a capacity hint", bb))
            continue
        if nm in ("std::iter::Iterator::try_fold", "std::iter::Iterator::try_for_each", "std::iter::Iterator::for_each", "std::iter::Iterator::fold"):
            # visits every member in turn (stopping early only when the closure says so), like the loop it replaces: nothing is
            # selected by position; what the closure carries from one member to the next is not read here
            f_ = finding("C15.ITER", v, "the members of an object are visited through %s: the state its closure carries between members was not read: not recognised (undecided)" % nm, bb)
            f_.undecided = True
            out.append(f_)
            continue
        out.append(finding("C15.ITER", v, "the members of an object are accessed through %s (only stepping through all of them is order-independent)" % nm, bb))
    if not map_nexts:
        return out, ob
    # ---- per map loop: state carried from one iteration to the next
    for n in map_nexts:
        body = None
        header = None
        for h, bd in v.loops():
            if n["bb"] in bd:
                body, header = bd, h
        ob += 1
        if body is None:
            out.append(finding("C15.LOOP", v, "a member of the object is taken outside a loop over all members", n["bb"]))
            continue
        allowed = set(bs.accumulators().keys())
        fl = set()
        colls = set()
        if sk_named:
            for nf in sk_named:
                if nf.next_bb == n["bb"]:
                    fl = set(nf.F.values())
                    if nf.acc is not None:
                        allowed.add(nf.acc)
        for l, (cbb, base) in coll._collection_locals(v, ("::with_capacity", "::new")).items():
            colls.add(l)
        # iterator local
        itl = set()
        t = v.blocks[n["bb"]]["term"]
        it = strip_refs(v.origin(t["args"][0]))
        if it[0] == "multi":
            itl.add(it[1])
        carried = []
        read_in_loop = set(l for _, l, _ in locals_read_in(v, body))
        for l in range(len(v.b.locals)):
            if l not in read_in_loop:
                continue
            ds = v.defs().get(l, [])
            inside = [d for d in ds if d[0] in ("stmt", "call") and d[1] in body]
            outside = [d for d in ds if d[0] == "param" or (d[0] in ("stmt", "call") and d[1] not in body and v.dominates(d[1], header))]
            if inside and outside:
                carried.append(l)
        for l in carried:
            ob += 1
            if l in allowed or l in fl or l in itl:
                continue
            out.append(finding("C15.DISJ", v, "local %s carries state from one member to the next (the outcome may depend on the order of members)" % (v.b.lname(l) or "_%d" % l), header))
        # the accumulator is only handed to report sites inside the loop, never looked at
        for bb in sorted(body):
            for st in v.blocks[bb]["stmts"]:
                if st["k"] == "assign" and st["rv"]["k"] in ("ref", "rawptr", "discr") and st["rv"]["place"]["l"] in allowed:
                    if st["rv"]["k"] != "discr" and flow.borrow_only_moves(v, st["rv"]["place"]["l"]):
                        continue
                    ob += 1
                    out.append(finding("C15.DISJ", v, "whether an error was already recorded is looked at while the members are still being visited (the outcome depends on which member comes first)", bb))
        # field states are written, never read, inside the loop
        for bb, l, how in locals_read_in(v, body):
            if l in fl:
                ob += 1
                out.append(finding("C15.DISJ", v, "the state of field `%s` is read while the members are still being visited" % v.b.lname(l), bb))
        # result collections: only `&mut` for insert (C06) - no shared borrow inside the loop
        for bb in body:
            for st in v.blocks[bb]["stmts"]:
                if st["k"] == "assign" and st["rv"]["k"] == "ref" and st["rv"]["bk"] == "shared" and st["rv"]["place"]["l"] in colls \
                        and not st["rv"]["place"]["p"]:
                    out.append(finding("C15.DISJ", v, "the partially built result is inspected while the members are still being visited", bb))
    return out, ob


def run(ctx):
    res = PropResult("C15")
    res.level = "proof"
    loops = 0
    for label, sc, local in scopes(ctx):
        for c, b, role in sc.members:
            v = sc.view(c, b)
            bs = BodySites(v)
            nfs = None
            if c.name != "deserr" and role == "root":
                from scope import closures_of
                cl = {}
                sk = skeleton.extract(v, bs, cl)
                nfs = []
                if sk.named is not None:
                    nfs.append(sk.named)
                for k, val in sk.variants.items():
                    if val[0] == "named":
                        nfs.append(val[1])
                nfs = [nf for nf in nfs if not nf.errors and nf.next_bb is not None]
                # C15.TAG
                if sk.tag is not None:
                    fs = []
                    for n in bs.nexts:
                        if not v.dominates(sk.tag["remove_bb"], n["bb"]):
                            fs.append(finding("C15.TAG", v, "the members are visited before the tag entry was taken out by key", n["bb"]))
                    res.add("C15.TAG", 1, fs)
            fs, ob = rules_for_body(v, bs, nfs)
            loops += sum(1 for n in bs.nexts if n["kind"] == "Map::Iter")
            res.add("C15.ITER/LOOP/DISJ", ob, fs)
            # loop exits (shared with C02.LOOP)
            f2, o2 = flow.c02_rules(v, bs)
            f2 = [f for f in f2 if f.rule in ("C02.LOOP",) and any(n["kind"] == "Map::Iter" for n in bs.nexts)]
            res.add("C15.LOOP", sum(1 for n in bs.nexts if n["kind"] == "Map::Iter"), f2)
            # the accumulator only grows: a member that resets it (or replaces it by a report that started from nothing) makes
            # the reports of the members seen before it disappear - which members those are depends on the order
            if any(n["kind"] == "Map::Iter" for n in bs.nexts):
                f3, o3 = flow.acc_keep(v, bs, "C15.KEEP")
                res.add("C15.KEEP", o3, f3)
            if len(res.samples) < 6 and any(n["kind"] == "Map::Iter" for n in bs.nexts) and role == "root":
                res.samples.append({"body": b.path, "map_loops": sum(1 for n in bs.nexts if n["kind"] == "Map::Iter"),
                                    "verdict": "iterator only stepped; loop-carried state = accumulator, field states, iterator; field states not read in the loop"})
    import controls
    controls.run(ctx, res, "C15", lambda crate, b, v, bs: rules_for_body(v, bs, None)[0])
    res.analysed["map_loops"] = loops
    if not getattr(ctx, "degraded", None):
        res.floor("map loops", loops, 40)
    res.trusted_base = ["rustc nightly MIR construction", "mirfacts extractor", "rules/p_c15.py, rules/skeleton.py"]
    res.assumptions = ["payload objects have no duplicate keys (a map)", "the *set* of reports is order-independent; their order inside an accumulated error may differ",
                       "derived code: per catalogue entry"]
    res.explanation = ("Per map loop: the object's iterator is only created and stepped (no enumerate/rev/peek/nth/zip/take/skip; Map::len only as capacity hint); loop exits only on exhaustion or Break; "
                       "the only state carried between iterations is the accumulator, the per-field state locals (written, never read inside the loop) and the result collection (insert only); the tag is taken out "
                       "by key before iteration. Hence iterations for different keys commute.")
    return res
