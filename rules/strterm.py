"""String-building terms normalised to a list of pieces, so that rules about *what* a message is made
of do not depend on *how* it is concatenated (`a + "." + b`, `format!("{}.{}", a, b)`, `[a, ".", b].concat()`).

pieces(v, term) -> list of ("lit", text) | ("val", term), adjacent literals merged; None when the
term is not understood (callers must then report "cannot establish", never pass)."""
from analysis import strip_refs
from loc import call_name


def decode_template(lit):
    """rustc's format_args template bytes (`b"\\xc0\\x01[\\xc0\\x01]\\x00"`): a literal piece is a length
    byte < 0x80 followed by that many bytes, 0xC0 is the next argument with default options, 0 ends.
    Anything else (width/precision/positional options) is not decoded."""
    if not (isinstance(lit, str) and lit.startswith('b"') and lit.endswith('"')):
        return None
    raw = lit[2:-1]
    out = bytearray()
    i = 0
    while i < len(raw):
        ch = raw[i]
        if ch == "\\":
            n = raw[i + 1]
            if n == "x":
                out.append(int(raw[i + 2:i + 4], 16))
                i += 4
            elif n == "n":
                out.append(10)
                i += 2
            elif n == "t":
                out.append(9)
                i += 2
            elif n == "r":
                out.append(13)
                i += 2
            elif n == "0":
                out.append(0)
                i += 2
            elif n in "\\\"'":
                out.append(ord(n))
                i += 2
            else:
                return None
        else:
            out.extend(ch.encode())
            i += 1
    items = []
    j = 0
    while j < len(out):
        b = out[j]
        if b == 0:
            break
        if b == 0xC0:
            items.append(("arg",))
            j += 1
        elif b < 0x80:
            items.append(("lit", bytes(out[j + 1:j + 1 + b]).decode("utf-8", "replace")))
            j += 1 + b
        else:
            return None
    return items


def _merge(ps):
    out = []
    for p in ps:
        if p[0] == "lit" and out and out[-1][0] == "lit":
            out[-1] = ("lit", out[-1][1] + p[1])
        elif p[0] == "lit" and p[1] == "":
            continue
        else:
            out.append(p)
    return out


OWNING = ("std::borrow::ToOwned::to_owned", "std::string::ToString::to_string", "std::convert::From::from", "std::convert::Into::into",
          "std::hint::must_use", "std::clone::Clone::clone", "std::string::String::as_str", "std::ops::Deref::deref", "std::convert::AsRef::as_ref",
          "std::borrow::Borrow::borrow")


def pieces(v, term, depth=0):
    if depth > 30:
        return None
    t = strip_refs(term)
    if t[0] == "const" and t[1] == "str":
        return _merge([("lit", t[2])])
    if t[0] == "const" and t[1] == "char":
        return _merge([("lit", t[2])])
    if t[0] == "call":
        nm = call_name(v, t) or ""
        args = t[3] or ()
        if nm == "std::string::String::new":
            return []
        if nm == "std::ops::Add::add" and len(args) == 2:
            a = pieces(v, args[0], depth + 1)
            b = pieces(v, args[1], depth + 1)
            if a is None or b is None:
                return None
            return _merge(a + b)
        if nm in OWNING and len(args) == 1:
            inner = strip_refs(args[0])
            ty_ok = inner[0] in ("const", "call")
            if ty_ok:
                return pieces(v, inner, depth + 1)
            return [("val", inner)]
        if (nm == "std::fmt::format" and len(args) == 1) or (nm == "std::fmt::Write::write_fmt" and len(args) == 2):
            a = strip_refs(args[-1])
            if a[0] == "call" and (call_name(v, a) or "").startswith("std::fmt::Arguments") and a[3]:
                if len(a[3]) == 1:
                    # Arguments::from_str / new_const: one literal
                    return pieces(v, a[3][0], depth + 1)
                tmpl = strip_refs(a[3][0])
                while tmpl[0] == "deref":
                    tmpl = strip_refs(tmpl[1])
                arr = strip_refs(a[3][1])
                while arr[0] == "deref":
                    arr = strip_refs(arr[1])
                if tmpl[0] != "const" or arr[0] != "agg":
                    return None
                items = decode_template(tmpl[2])
                if items is None:
                    return None
                vals = []
                for el in arr[2]:
                    e = strip_refs(el)
                    if e[0] == "call" and "fmt::rt::Argument" in (v.callee(e[1]).path or "") and e[3]:
                        vals.append(strip_refs(e[3][0]))
                    else:
                        return None
                out = []
                k = 0
                for it in items:
                    if it[0] == "lit":
                        out.append(it)
                    else:
                        if k >= len(vals):
                            return None
                        sub = pieces(v, vals[k], depth + 1) if vals[k][0] == "call" and (call_name(v, vals[k]) or "") in ("std::fmt::format", "std::ops::Add::add") else None
                        out.extend(sub if sub is not None else [("val", vals[k])])
                        k += 1
                if k != len(vals):
                    return None
                return _merge(out)
            return None
    return [("val", t)]
