"""Corpus crates of /verif that are compiled (never run) under the fact extractor."""
import hashlib
import json
import os

import extract
import catgen

VERIF = extract.VERIF


def ensure(name, ctx):
    if name == "catalogue":
        tier, seed = ctx.tier, ctx.seed
        src, specs = catgen.generate(tier, seed)
        key = hashlib.sha256(src.encode()).hexdigest()

        def gen(work):
            with open(os.path.join(work, "src", "lib.rs"), "w") as f:
                f.write(src)
            with open(os.path.join(work, "spec.json"), "w") as f:
                json.dump(specs, f)
        cname = "catalogue-%s" % tier
        d, st = extract.ensure_corpus_facts(cname, os.path.join(VERIF, "catalogue"), ["deserr_catalogue"],
                                            log=ctx.log, extra_gen=gen, extra_key=key)
        ctx.catalogue_specs = {s["name"]: s for s in specs}
        return d, st, ["deserr_catalogue"]
    if name == "controls":
        d, st = extract.ensure_corpus_facts("controls", os.path.join(VERIF, "controls"), ["deserr_controls"], log=ctx.log)
        return d, st, ["deserr_controls"]
    raise KeyError(name)
