"""Corpus crates of /verif that are compiled (never run) under the fact extractor."""
import hashlib
import json
import os

import extract
import catgen

VERIF = extract.VERIF


def ensure(name, ctx):
    if name == "catalogue":
        tier, seed = ctx.tier, ctx.seed
        import re
        excluded = {}
        all_specs = None
        last = None
        for attempt in range(4):
            import extract as _ex
            catgen.GENERIC_ERR = catgen.discover_generic_err(_ex.REPO)
            src, specs, ranges = catgen.generate(tier, seed, exclude=set(excluded))
            if all_specs is None:
                all_specs = {s["name"]: s for s in specs}
            key = hashlib.sha256(src.encode()).hexdigest()

            def gen(work, src=src, specs=specs):
                with open(os.path.join(work, "src", "lib.rs"), "w") as f:
                    f.write(src)
                with open(os.path.join(work, "spec.json"), "w") as f:
                    json.dump(specs, f)
            cname = "catalogue-%s" % tier
            try:
                d, st = extract.ensure_corpus_facts(cname, os.path.join(VERIF, "catalogue"), ["deserr_catalogue"],
                                                    log=ctx.log, extra_gen=gen, extra_key=key)
            except extract.CorpusBuildFailed as e:
                # which entries do not compile?  (error spans point at the derive line of the entry)
                last = e
                bad = {}
                lines = e.output.splitlines()
                for i, l in enumerate(lines):
                    m = re.match(r"^\s*--> src/lib\.rs:(\d+):\d+", l)
                    if not m:
                        continue
                    ln = int(m.group(1))
                    msg = ""
                    for j in range(i, max(-1, i - 4), -1):
                        if lines[j].startswith("error"):
                            msg = lines[j].strip()
                            break
                    for nm, (a, b) in ranges.items():
                        if a <= ln <= b and nm not in bad:
                            bad[nm] = msg or "does not compile"
                if not bad or attempt == 3:
                    raise
                excluded.update(bad)
                continue
            ctx.catalogue_specs = {s["name"]: s for s in specs}
            ctx.catalogue_excluded = {k: {"error": v, "features": sorted(catgen.type_features(all_specs[k])) if k in all_specs else []} for k, v in excluded.items()}
            st = dict(st)
            st["excluded_entries"] = sorted(excluded)
            return d, st, ["deserr_catalogue"]
        raise last
    if name == "controls":
        d, st = extract.ensure_corpus_facts("controls", os.path.join(VERIF, "controls"), ["deserr_controls"], log=ctx.log)
        return d, st, ["deserr_controls"]
    raise KeyError(name)
