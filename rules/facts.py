"""Loading and pretty-printing of the MIR facts exported by /verif/driver (mirfacts)."""
import json
import os


class Crate:
    def __init__(self, path):
        with open(path) as f:
            d = json.load(f)
        self.file = path
        self.name = d["crate"]
        self.run_id = d["run_id"]
        self.features = d["features"]
        self.types = d["types"]
        self.adts = d["adts"]
        self.impls = d["impls"]
        self.errors = d["errors"]
        self.bodies = [Body(self, b) for b in d["bodies"]]
        self.by_path = {}
        for b in self.bodies:
            self.by_path.setdefault(b.path, []).append(b)

    def ty(self, i):
        return self.types[i]

    def tys(self, i):
        return self.types[i]["s"]

    def body(self, path):
        v = self.by_path.get(path)
        if not v:
            return None
        return v[0]

    def children(self, body):
        """closure bodies whose parent is `body`"""
        return [b for b in self.bodies if b.d.get("parent") == body.path]


class Body:
    def __init__(self, crate, d):
        self.crate = crate
        self.d = d
        self.path = d["path"]
        self.kind = d["kind"]
        self.name = d.get("name")
        self.span = d["span"]
        self.blocks = d["blocks"]
        self.locals = d["locals"]
        self.arg_count = d["arg_count"]
        self.impl_trait = d.get("impl_trait")
        self.impl_self = d.get("impl_self")
        self.root = d.get("root", d["path"])
        self.parent = d.get("parent")

    # ---------------------------------------------------------------- types
    def lty(self, l):
        return self.crate.types[self.locals[l]["ty"]]

    def ltys(self, l):
        return self.lty(l)["s"]

    def lname(self, l):
        return self.locals[l]["name"]

    def impl_self_str(self):
        if self.impl_self is None:
            return None
        return self.crate.types[self.impl_self]["s"]

    # ------------------------------------------------------------- printing
    def fmt_place(self, p):
        s = "_%d" % p["l"]
        for e in p["p"]:
            k = e["k"]
            if k == "deref":
                s = "(*%s)" % s
            elif k == "field":
                s = "%s.%s" % (s, e["name"])
            elif k == "downcast":
                s = "(%s as %s)" % (s, e["variant"])
            elif k == "index":
                s = "%s[_%d]" % (s, e["l"])
            elif k == "constindex":
                s = "%s[%s%d of %d]" % (s, "-" if e["from_end"] else "", e["offset"], e["min_length"])
            elif k == "subslice":
                s = "%s[%d..%s%d]" % (s, e["from"], "-" if e["from_end"] else "", e["to"])
            else:
                s = "%s.<%s>" % (s, k)
        return s

    def fmt_op(self, o):
        k = o["k"]
        if k in ("copy", "move"):
            return "%s %s" % (k, self.fmt_place(o["place"]))
        if k == "const":
            if "fn" in o:
                return "fn " + o["fn"]["full"]
            if "str" in o:
                return "const %r" % o["str"]
            if "int" in o:
                return "const %d" % o["int"]
            return o["s"]
        return o.get("s", "?")

    def fmt_rv(self, r):
        k = r["k"]
        if k == "use":
            return self.fmt_op(r["op"])
        if k == "ref":
            return "&%s %s" % ("" if r["bk"] == "shared" else r["bk"], self.fmt_place(r["place"]))
        if k == "rawptr":
            return "&raw %s" % self.fmt_place(r["place"])
        if k == "cast":
            return "%s as %s (%s)" % (self.fmt_op(r["op"]), self.crate.tys(r["to"]), r["ck"])
        if k == "binop":
            return "%s(%s, %s)" % (r["op"], self.fmt_op(r["a"]), self.fmt_op(r["b"]))
        if k == "unop":
            return "%s(%s)" % (r["op"], self.fmt_op(r["a"]))
        if k == "discr":
            return "discriminant(%s)" % self.fmt_place(r["place"])
        if k == "agg":
            ops = ", ".join(self.fmt_op(x) for x in r["ops"])
            ak = r["ak"]
            if ak == "adt":
                fields = r["fields"]
                if len(fields) == len(r["ops"]) and fields and not fields[0].isdigit():
                    ops = ", ".join("%s: %s" % (f, self.fmt_op(x)) for f, x in zip(fields, r["ops"]))
                return "%s::%s {%s}" % (r["path"], r["variant"], ops)
            if ak == "closure":
                return "closure %s [%s]" % (r["path"], ops)
            return "%s[%s]" % (ak, ops)
        if k == "repeat":
            return "[%s; %s]" % (self.fmt_op(r["op"]), r["count"])
        return r.get("s", k)

    def fmt_term(self, t):
        k = t["k"]
        if k == "goto":
            return "goto bb%d" % t["target"]
        if k == "switch":
            tg = ", ".join("%d→bb%d" % (v, b) for v, b in t["targets"])
            return "switchInt(%s) [%s, otherwise→bb%d]" % (self.fmt_op(t["discr"]), tg, t["otherwise"])
        if k == "call":
            args = ", ".join(self.fmt_op(a) for a in t["args"])
            tgt = "bb%d" % t["target"] if t["target"] is not None else "!"
            return "%s = %s(%s) → %s" % (self.fmt_place(t["dest"]), self.fmt_op(t["func"]), args, tgt)
        if k == "drop":
            return "drop(%s) → bb%d" % (self.fmt_place(t["place"]), t["target"])
        if k == "assert":
            return "assert(%s == %s, %s) → bb%d" % (self.fmt_op(t["cond"]), t["expected"], t["msg"], t["target"])
        if k == "yield":
            return "yield(%s) → bb%d" % (self.fmt_op(t["value"]), t["target"])
        return k

    def dump(self, cleanup=False):
        out = []
        out.append("fn %s  [%s]  %s" % (self.path, self.kind, self.span))
        for i, l in enumerate(self.locals):
            out.append("  let _%d: %s%s" % (i, self.crate.tys(l["ty"]), "  // " + l["name"] if l["name"] else ""))
        for i, b in enumerate(self.blocks):
            if b["cleanup"] and not cleanup:
                continue
            out.append("  bb%d%s:" % (i, " (cleanup)" if b["cleanup"] else ""))
            for st in b["stmts"]:
                if st["k"] == "assign":
                    out.append("    %s = %s" % (self.fmt_place(st["place"]), self.fmt_rv(st["rv"])))
                elif st["k"] in ("live", "dead"):
                    pass
                else:
                    out.append("    %s" % st["k"])
            out.append("    %s" % self.fmt_term(b["term"]))
        return "\n".join(out)


def load_dir(d):
    """Load every facts file of a directory: {crate name: [Crate...]}"""
    res = {}
    for fn in sorted(os.listdir(d)):
        if fn.endswith(".json"):
            c = Crate(os.path.join(d, fn))
            res.setdefault(c.name, []).append(c)
    return res


if __name__ == "__main__":
    import sys

    c = Crate(sys.argv[1])
    pat = sys.argv[2] if len(sys.argv) > 2 else None
    for b in c.bodies:
        if pat is None:
            print(b.path, b.kind, b.span)
        elif pat in b.path:
            print(b.dump(cleanup="--cleanup" in sys.argv))
            print()
