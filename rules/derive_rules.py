"""Comparison of derive skeletons (skeleton.py) with the catalogue spec (catgen.py): rules C07–C11
and the derive parts of C09/C10.  Every verdict is per catalogue entry and holds for all payloads."""
import re

from analysis import View, strip_refs, erase_generics, term_mentions
from sites import BodySites, npath
from scope import deser_roots, closures_of
from loc import canon, fmt
from lin import Finding
import skeleton


def F(rule, body, what, at="", detail=""):
    return Finding(rule, body, what, at, detail)


class Results:
    def __init__(self):
        self.findings = []
        self.ob = {}
        self.samples = {}
        self.entries = 0
        self.kinds = {}

    def add(self, rule, n=1):
        self.ob[rule] = self.ob.get(rule, 0) + n

    def bad(self, rule, body, what, at="", detail=""):
        self.findings.append(F(rule, body, what, at, detail))

    def sample(self, rule, s):
        l = self.samples.setdefault(rule, [])
        if len(l) < 4:
            l.append(s)


ALL = ("C07", "C08", "C09", "C10", "C11")


def type_name_of(b):
    s = b.impl_self_str() or ""
    return s.split("<")[0].split("::")[-1]


def run(ctx):
    cat = ctx.corpus("catalogue")
    crate = cat["deserr_catalogue"]
    specs = ctx.catalogue_specs
    R = Results()
    seen = set()
    for b in deser_roots(crate):
        name = type_name_of(b)
        sp = specs.get(name)
        if sp is None:
            continue
        seen.add(name)
        R.entries += 1
        R.kinds[sp["kind"]] = R.kinds.get(sp["kind"], 0) + 1
        import inline
        b = inline.bools_threaded(crate, b)      # `if matches!(field, FieldState::Missing)` reads like `if let` / `is_missing()`
        v = View(b)
        bs = BodySites(v)
        cl = {}
        for cb in closures_of(crate, b):
            cv = View(inline.bools_threaded(crate, cb))
            cl[cb.path] = (cv, BodySites(cv))
        sk = skeleton.extract(v, bs, cl)
        check_entry(R, b, v, bs, sk, sp, cl)
    for name in specs:
        if name not in seen:
            R.bad("DERIVE.COVERAGE", name, "catalogue entry has no derived impl in the facts")
    # entries for which the derive no longer produces compiling code: nothing can be established for them (fail closed),
    # attributed to the properties whose features the entry exercises
    FEAT = {"rename": "C07", "default": "C08", "deny": "C09", "enum": "C10", "conv": "C11"}
    excl = getattr(ctx, "catalogue_excluded", {})
    common = None
    for name, info in excl.items():
        fs_ = set(info["features"])
        common = fs_ if common is None else (common & fs_)
    for name, info in sorted(excl.items()):
        # the culprit is most likely a feature that every failing entry uses
        feats = [f for f in info["features"] if not common or f in common]
        props = sorted(set(FEAT[f] for f in feats)) or ["C07"]
        R.entries += 1
        for pid in props:
            R.bad(pid + ".BUILD", name, "the code derived for catalogue entry %s (features: %s) no longer compiles: %s" % (name, ",".join(info["features"]) or "plain", info["error"][:160]))
    summaries(ctx, R)
    return R


# ------------------------------------------------------------------------ helpers
def is_fs_agg(t, variant):
    return t[0] == "agg" and t[1] == "adt" and npath(t[3]) == "FieldState" and t[4] == variant


def lit_matches(term, expr):
    if term[0] == "const" and term[1] == "int":
        try:
            return int(expr) == term[2]
        except ValueError:
            return False
    return False


def const_str_array(view, term):
    """term of `&[ "a", "b" ]` -> list of strings or None"""
    t = strip_refs(term)
    if t[0] == "agg" and t[1] == "array":
        out = []
        for x in t[2]:
            x = strip_refs(x)
            if x[0] == "const" and x[1] == "str":
                out.append(x[2])
            else:
                return None
        return out
    return None


def error_ty_str(crate, ti):
    return crate.types[ti]["s"]


def check_entry(R, b, v, bs, sk, sp, cl):
    body = b.path
    kind = sp["kind"]
    if sk.errors:
        for r in ALL:
            for e in sk.errors:
                R.bad(r + ".SKELETON", body, "cannot establish the shape of the derived code: %s" % e, b.span)
        return
    want_kind = {"struct": "struct", "tagged_enum": "tagged_enum", "unit_enum": "unit_enum", "from": "user", "try_from": "user"}[kind]
    R.add("C10.KIND")
    if sk.kind != want_kind:
        for r in ALL:
            R.bad(r + ".SKELETON", body, "derived code has shape `%s`, the derive input asks for `%s`" % (sk.kind, want_kind), b.span)
        return
    err_s = None
    if kind == "struct":
        named(R, b, v, bs, sk, sk.named, sp, sp["fields"], sp, None)
    elif kind == "tagged_enum":
        tagged(R, b, v, bs, sk, sp)
    elif kind == "unit_enum":
        unit(R, b, v, bs, sk, sp)
    else:
        user(R, b, v, bs, sk, sp, cl)
    validate(R, b, v, bs, sk, sp, cl)


# ---------------------------------------------------------------- named fields
def named(R, b, v, bs, sk, nf, sp, fields, container, variant_ident):
    body = b.path
    where = "" if variant_ident is None else " (variant %s)" % variant_ident
    if nf.errors:
        for r in ALL:
            for e in nf.errors:
                R.bad(r + ".SKELETON", body, "cannot establish the shape of the derived code%s: %s" % (where, e), b.span)
        # what can be said without the shape: with deny_unknown_fields every member must be looked at; code that never steps
        # through the object (no `next` on its iterator at all) cannot refuse an unknown key
        if container["deny"] is not None and any("found 0" in e and "loop over the map entries" in e for e in nf.errors) \
                and not any(n_["kind"] == "Map::Iter" for n_ in bs.nexts):
            R.add("C09.FALLBACK")
            R.bad("C09.FALLBACK", body, "the members of the object are never visited although deny_unknown_fields asks for every unknown key to be refused%s" % where, b.span)
        return
    live = [f for f in fields if not f["skipped"]]
    # ----- C07: arms ↔ effective keys, in declaration order; each arm fills its own field only
    R.add("C07.KEYS")
    got = [a["key"] for a in nf.arms]
    want = [f["key"] for f in live]
    # C07 is about *which key feeds which field* (the order of the comparisons is C09's business: accepted list)
    if sorted(got) != sorted(want):
        R.bad("C07.KEYS", body, "fields are read from keys %s, the effective keys are %s%s" % (got, want, where), b.span)
        if variant_ident is not None:
            R.bad("C10.VARIANTFIELDS", body, "after the tag selected variant %s its fields are read from keys %s, that variant's own rules give %s" % (variant_ident, got, want), b.span)
    else:
        R.sample("C07", {"type": sp["name"] + where, "keys": got})
    by_key = {f["key"]: f for f in live}
    arm_field = {}
    for a in nf.arms:
        R.add("C07.ARM")
        f = by_key.get(a["key"])
        if f is None:
            continue
        arm_field[a["key"]] = f
        if set(a["assigned"].keys()) != {f["ident"]}:
            R.bad("C07.ARM", body, "the arm for key `%s` fills %s instead of field `%s`%s" % (a["key"], sorted(a["assigned"].keys()), f["ident"], where), b.span)
        if len(a["children"]) != 1:
            R.bad("C07.ARM", body, "the arm for key `%s` deserialises %d values%s" % (a["key"], len(a["children"]), where), b.span)
    R.add("C09.ORDER")
    if sorted(got) == sorted(want) and got != want and container["deny"] is not None:
        R.bad("C09.ORDER", body, "the keys are compared in the order %s, not in the declaration order %s of the non-skipped fields (the accepted list follows the same order)%s" % (got, want, where), b.span)
    # every field of the built value comes from its own state local
    R.add("C07.BUILD")
    if nf.build is None:
        R.bad("C07.BUILD", body, "no value of the type is built%s" % where, b.span)
    else:
        if variant_ident is not None and nf.build["variant"] != variant_ident:
            R.bad("C10.VARIANT", body, "the arm of variant %s builds variant %s" % (variant_ident, nf.build["variant"]), b.span)
        for f in fields:
            got_f = nf.build["fields"].get(f["ident"])
            if got_f is None or got_f[0] != f["ident"]:
                R.bad("C07.BUILD", body, "field `%s` of the result is built from %s%s" % (f["ident"], got_f, where), b.span)
        if set(nf.build["fields"].keys()) != set(f["ident"] for f in fields):
            R.bad("C07.BUILD", body, "the built value has fields %s%s" % (sorted(nf.build["fields"].keys()), where), b.span)
    # ----- C08: initial states
    for f in fields:
        R.add("C08.INIT")
        init = nf.init.get(f["ident"])
        if init is None:
            R.bad("C08.INIT", body, "no initial state for field `%s`%s" % (f["ident"], where), b.span)
            continue
        d = f["default"]
        ok = False
        if d is None:
            ok = is_fs_agg(init, "Missing")
            wantd = "Missing"
        else:
            wantd = "Some(%s)" % d["kind"]
            if is_fs_agg(init, "Some") and init[2]:
                p = init[2][0]
                if d["kind"] == "trait":
                    ok = p[0] == "call" and p[2].endswith("std::default::Default>::default") and not p[3]
                elif d["kind"] == "fn":
                    ok = p[0] == "call" and erase_generics(p[2]).split("::")[-1] == d["fn"]
                elif d["kind"] == "lit":
                    ok = lit_matches(p, d["expr"])
        if not ok:
            R.bad("C08.INIT", body, "field `%s` starts as %s, expected %s%s" % (f["ident"], fmt(init), wantd, where), b.span)
        if f["skipped"]:
            R.add("C08.SKIP")
            l = nf.F.get(f["ident"])
            nd = len(v.whole_defs(l)) if l is not None else 0
            if nd != 1:
                R.bad("C08.SKIP", body, "skipped field `%s` is written %d times (it must keep its default)%s" % (f["ident"], nd, where), b.span)
    # arms never assign Missing; the failure path assigns Err
    pairs = [(a, by_key[a["key"]]) for a in nf.arms if a["key"] in by_key]
    for a, f in pairs:
        R.add("C08.ARMSTATE")
        variants = set()
        for bb in a["region"]:
            for st in v.blocks[bb]["stmts"]:
                if st["k"] == "assign" and st["rv"]["k"] == "agg" and npath(st["rv"].get("path", "")) == "FieldState":
                    variants.add(st["rv"]["variant"])
        if "Missing" in variants:
            R.bad("C08.ARMSTATE", body, "a present key can leave field `%s` in state Missing%s" % (f["ident"], where), b.span)
        if "Err" not in variants or "Some" not in variants:
            R.bad("C08.ARMSTATE", body, "the arm of `%s` does not distinguish success (Some) from failure (Err)%s" % (f["ident"], where), b.span)
    # missing phase
    by_field = {}
    for m in nf.missing:
        by_field.setdefault(m["field"], []).append(m)
    for f in live:
        if f["default"] is not None:
            # a defaulted field can never be Missing (init Some, arms assign Some/Err): nothing to report
            for m in by_field.get(f["ident"], []):
                pass
            continue
        R.add("C08.MISSING")
        ms = by_field.get(f["ident"], [])
        if len(ms) != 1:
            R.bad("C08.MISSING", body, "field `%s` has %d missing-field checks, expected exactly one%s" % (f["ident"], len(ms), where), b.span)
            continue
        m = ms[0]
        if m["true_t"] is None or not all(v.postdominates(s.bb, m["true_t"]) for s in m["sites"]):
            R.bad("C08.MISSING", body, "an absent `%s` is not always reported (the report is conditional on something else)%s" % (f["ident"], where), b.span)
        if m["in_loop"] or not v.dominates(nf.loop_header, m["bb"]):
            R.bad("C08.MISSING", body, "the missing check of `%s` is not made after the whole map was visited%s" % (f["ident"], where), b.span)
        if f["missing_fn"]:
            ucs = [u for u in m["user_calls"] if u["path"].split("::")[-1] == f["missing_fn"]]
            if len(ucs) != 1 or len(m["sites"]) != 1 or m["sites"][0].kind != "merge":
                R.bad("C08.MISSING", body, "missing `%s`: expected one call of %s and one hand-over of its result%s" % (f["ident"], f["missing_fn"], where), b.span)
            else:
                t = v.blocks[ucs[0]["bb"]]["term"]
                a0 = strip_refs(canon(v, v.origin(t["args"][0])))
                a1 = canon(v, v.origin(t["args"][1]))
                if a0 != ("const", "str", f["key"]) or a1 != ("param", 2):
                    R.bad("C08.MISSING", body, "missing `%s`: the user function is called with (%s, %s) instead of (effective key, container location)%s" % (f["ident"], fmt(a0), fmt(a1), where), b.span)
                s = m["sites"][0]
                oth = canon(v, s.payload)
                if not (oth[0] == "call" and oth[1] == ucs[0]["bb"]):
                    R.bad("C08.MISSING", body, "missing `%s`: what is handed to the error type is not what the user function returned%s" % (f["ident"], where), b.span)
        else:
            if len(m["sites"]) != 1 or m["sites"][0].ek != "MissingField" or m["user_calls"]:
                R.bad("C08.MISSING", body, "missing `%s`: expected exactly one MissingField report%s" % (f["ident"], where), b.span)
            else:
                s = m["sites"][0]
                fld = dict(zip(s.payload[5], s.payload[2]))
                k = strip_refs(canon(v, fld.get("field")))
                if k != ("const", "str", f["key"]):
                    R.bad("C08.MISSING", body, "missing `%s` is reported as %s instead of its effective key `%s`%s" % (f["ident"], fmt(k), f["key"], where), b.span)
                else:
                    R.sample("C08", {"type": sp["name"] + where, "field": f["ident"], "reported_as": f["key"]})
        for s in m["sites"]:
            if s.acc != nf.acc and not s.self_none:
                pass
    for name, ms in by_field.items():
        if name is None:
            R.bad("C08.MISSING", body, "a missing check tests something that is not a field state%s" % where, b.span)
    # spurious reports for skipped fields
    for f in fields:
        if f["skipped"]:
            R.add("C08.SKIP")
            for m in by_field.get(f["ident"], []):
                if m["sites"]:
                    R.bad("C08.SKIP", body, "skipped field `%s` can be reported missing%s" % (f["ident"], where), b.span)
    # map functions (C08: `map` applied on top of the default; C11: once, at construction)
    if nf.build is not None:
        for f in fields:
            R.add("C11.MAP")
            got_f = nf.build["fields"].get(f["ident"])
            if got_f is None:
                continue
            wantm = f["map"] if f["map"] else "identity"
            gotm = (got_f[1] or "").split("::")[-1]
            if gotm != wantm:
                R.bad("C11.MAP", body, "field `%s` is finished with `%s`, the derive input says `%s`%s" % (f["ident"], got_f[1], wantm, where), b.span)
        R.add("C11.MAPLATE")
        ft = nf.final_test
        map_bbs = [x[2] for x in nf.build["fields"].values() if x is not None and len(x) > 2]
        if ft is None or ft["none"] is None or not v.dominates(ft["none"], nf.build["bb"]) or not all(v.dominates(ft["none"], m) for m in map_bbs):
            R.bad("C11.MAPLATE", body, "the value is built / `map` functions run although an error may have been accumulated%s" % where, b.span)
    # ----- C09: unknown keys
    deny = container["deny"]
    R.add("C09.FALLBACK")
    keys = [f["key"] for f in live]
    fb_sites = nf.fallback_sites if nf.dispatch is not None else _loop_sites_without_arms(v, bs, nf)
    fb_user = nf.fallback_user if nf.dispatch is not None else [u for u in bs.user_calls if u["bb"] in nf.loop_body]
    if deny is None:
        if fb_sites or fb_user:
            R.bad("C09.FALLBACK", body, "unknown keys are reported although deny_unknown_fields is absent%s" % where, b.span)
        eff = _fallback_effects(v, nf)
        if eff:
            R.bad("C09.FALLBACK", body, "an unknown key has an effect (%s) although deny_unknown_fields is absent%s" % (eff[0], where), b.span)
    elif deny["kind"] == "default":
        if len(fb_sites) != 1 or fb_sites[0].ek != "UnknownKey" or fb_user:
            R.bad("C09.FALLBACK", body, "expected exactly one UnknownKey report per unknown key%s" % where, b.span)
        else:
            s = fb_sites[0]
            fld = dict(zip(s.payload[5], s.payload[2]))
            acc = const_str_array(v, canon(v, fld.get("accepted")))
            if acc is None:
                R.bad("C09.ACCEPTED", body, "the accepted list of the unknown-key report could not be read as a literal array of names: not recognised (undecided)%s" % where, b.span)
            elif acc != keys:
                R.bad("C09.ACCEPTED", body, "unknown keys are reported with accepted = %s, the effective keys of the non-skipped fields are %s%s" % (acc, keys, where), b.span)
            else:
                R.sample("C09", {"type": sp["name"] + where, "accepted": acc})
            if s.handling != "switched" or (nf.acc is not None and s.acc != nf.acc):
                R.bad("C09.FALLBACK", body, "the unknown-key report is not accumulated like the other reports%s" % where, b.span)
    else:
        ucs = [u for u in fb_user if u["path"].split("::")[-1] == deny["fn"]]
        if len(ucs) != 1 or len(fb_sites) != 1 or fb_sites[0].kind != "merge":
            R.bad("C09.FALLBACK", body, "expected one call of %s and one hand-over of its result per unknown key%s" % (deny["fn"], where), b.span)
        else:
            t = v.blocks[ucs[0]["bb"]]["term"]
            a0 = strip_refs(canon(v, v.origin(t["args"][0])))
            a1 = const_str_array(v, canon(v, v.origin(t["args"][1])))
            a2 = canon(v, v.origin(t["args"][2]))
            want_key = ("field", ("field", ("next", nf.next_bb), "Some", "0"), None, "0")
            if a0 != want_key or a1 != keys or a2 != ("param", 2):
                R.bad("C09.ACCEPTED", body, "the user's unknown-key function is called with (%s, %s, %s), expected (current key, %s, container location)%s" % (fmt(a0), a1, fmt(a2), keys, where), b.span)
            oth = canon(v, fb_sites[0].payload)
            if not (oth[0] == "call" and oth[1] == ucs[0]["bb"]):
                R.bad("C09.FALLBACK", body, "what is handed to the error type is not what the user's function returned%s" % where, b.span)
            if fb_sites[0].handling != "switched" or (nf.acc is not None and fb_sites[0].acc != nf.acc):
                R.bad("C09.FALLBACK", body, "the unknown-key report is not accumulated like the other reports (earlier reports of this container are forgotten)%s" % where, b.span)
    # ----- C11: from / try_from / field-level error type per arm
    for a, f in pairs:
        arm_conv(R, b, v, bs, sk, nf, a, f, container, where)


def _loop_sites_without_arms(v, bs, nf):
    return [s for s in bs.sites if s.bb in nf.loop_body]


def _fallback_effects(v, nf):
    """effects in the fallback region of a struct without deny_unknown_fields"""
    eff = []
    region = nf.fallback_region if nf.dispatch is not None else set()
    tracked = set(nf.F.values()) | ({nf.acc} if nf.acc is not None else set())
    for bb in region:
        if bb not in nf.loop_body:
            continue
        for st in v.blocks[bb]["stmts"]:
            if st["k"] == "assign" and st["place"]["l"] in tracked:
                eff.append("write to a field state / the accumulator")
        t = v.blocks[bb]["term"]
        if t["k"] == "call":
            eff.append("call of %s" % (v.callee(bb).full))
        if t["k"] == "return":
            eff.append("return")
    return eff


def arm_conv(R, b, v, bs, sk, nf, a, f, container, where):
    body = b.path
    crate = b.crate
    if len(a["children"]) != 1:
        return
    ch = a["children"][0]
    # field-level error type
    R.add("C11.ERRTY")
    import catgen as _cg
    want_err = f["error"] or (_cg.GENERIC_ERR if container["err"] == "generic" else container["err"])
    got_err = None
    if len(ch["gargs"]) >= 2 and isinstance(ch["gargs"][1], int):
        got_err = crate.types[ch["gargs"][1]]["s"]
    if got_err is None or got_err.split("::")[-1] != want_err:
        R.bad("C11.ERRTY", body, "field `%s` is deserialised with error type %s, the derive input says %s%s" % (f["ident"], got_err, want_err, where), b.span)
    # child's intermediate type
    conv = f["from"] or f["try_from"]
    # the Ok edge of the child's result
    from sites import follow_local_use
    kind, sbb, info, cur = follow_local_use(v, ch["bb"], ch["dest"])
    ok_t = v.variant_target(info, "Ok") if kind == "switch" else None
    err_t = v.variant_target(info, "Err") if kind == "switch" else None
    user_here = list(a["user_calls"])
    closure_user = []
    for cbb in a["closure_calls"]:
        t = v.origin_call(cbb)
        f0 = strip_refs(t[3][0]) if t[3] else None
        if f0 and f0[0] == "agg" and f0[1] == "closure":
            cvbs = sk.closures.get(f0[3])
            if cvbs:
                for u in cvbs[1].user_calls:
                    closure_user.append((cbb, f0[3], u))
    R.add("C11.CONV")
    if conv is None:
        if user_here or closure_user:
            R.bad("C11.CONV", body, "a user function runs in the arm of `%s` although the field has no from/try_from%s" % (f["ident"], where), b.span)
        # exactly one hand-over site (child error -> accumulator)
        if len(a["sites"]) != 1:
            R.bad("C11.CONV", body, "the arm of `%s` has %d report sites, expected the single hand-over of the child's error%s" % (f["ident"], len(a["sites"]), where), b.span)
        return
    fn = conv["fn"]
    calls = [("direct", u["bb"], u) for u in user_here if u["path"].split("::")[-1] == fn] + \
            [("closure", cbb, u) for (cbb, cp, u) in closure_user if u["path"].split("::")[-1] == fn]
    others = [u for u in user_here if u["path"].split("::")[-1] != fn]
    if len(calls) != 1 or others:
        R.bad("C11.CONV", body, "expected exactly one call of %s in the arm of `%s` (found %d, %d other user calls)%s" % (fn, f["ident"], len(calls), len(others), where), b.span)
        return
    how, cbb, u = calls[0]
    # by reference or by value: what the user function itself is handed (directly here, or inside the adapting closure)
    if how == "closure":
        cp = [cp_ for (cb_, cp_, u_) in closure_user if u_ is u][0]
        cv_ = sk.closures[cp][0]
        ua = cv_.blocks[u["bb"]]["term"]["args"]
        passed_ref = bool(ua) and cv_.origin(ua[-1])[0] == "ref"
    else:
        ua = v.blocks[cbb]["term"]["args"]
        passed_ref = bool(ua) and v.origin(ua[-1])[0] == "ref"
    if passed_ref != bool(conv["by_ref"]):
        R.bad("C11.CONV", body, "by-reference flag of %s is not honoured%s" % (fn, where), b.span)
    # control dependence: only when the child succeeded
    if ok_t is None or not v.dominates(ok_t, cbb) or (err_t is not None and cbb in v.reachable(err_t) and not v.dominates(ok_t, cbb)):
        R.bad("C11.CONV", body, "%s can run although the intermediate value of `%s` failed to deserialise%s" % (fn, f["ident"], where), b.span)
    # argument = Ok payload of the child
    t = v.blocks[cbb]["term"]
    arg = canon(v, v.origin(t["args"][-1]))
    if arg[0] == "agg" and arg[1] == "tuple" and arg[2]:
        arg = arg[2][0]
    arg = strip_refs(arg)
    if not (arg[0] == "field" and arg[2] == "Ok" and arg[1][0] == "call" and arg[1][1] == ch["bb"]):
        R.bad("C11.CONV", body, "%s does not receive the freshly deserialised intermediate value%s" % (fn, where), b.span, fmt(arg))
    # intermediate type
    if ch["self_ty"] is not None:
        got_ty = crate.types[ch["self_ty"]]["s"].replace("std::string::", "")
        if got_ty != conv["ty"]:
            R.bad("C11.CONV", body, "the intermediate value of `%s` is deserialised as %s instead of %s%s" % (f["ident"], got_ty, conv["ty"], where), b.span)
    if f["try_from"]:
        R.add("C11.TRYFROM")
        # sites of the arm: child hand-over + (None-merge, accumulate-merge, collapsed stop-merge)
        merges = [s for s in a["sites"] if s.kind == "merge"]
        first = [s for s in merges if s.self_none]
        # (the container-level hand-over of the field's answer may be written once - after recording whether the field's
        # error type said Break - or twice, once per answer)
        if len(a["sites"]) not in (3, 4) or len(first) != 1:
            R.bad("C11.TRYFROM", body, "the failure of %s is not handed over exactly once (to the field's error type, then to the container's)%s" % (fn, where), b.span,
                  "sites=%d none-self merges=%d" % (len(a["sites"]), len(first)))
        else:
            s1 = first[0]
            # whatever the field's error type answers (Continue or Break), that answer is handed to the container's error type
            handed = set()
            for m_ in merges:
                if m_ is s1:
                    continue
                for a_ in v.alts(m_.payload):
                    a_ = strip_refs(canon(v, a_))
                    if a_[0] == "field" and a_[2] in ("Continue", "Break") and isinstance(a_[1], tuple) and a_[1][0] == "call" and a_[1][1] == s1.bb:
                        handed.add(a_[2])
            if handed != {"Continue", "Break"}:
                R.bad("C11.TRYFROM", body, "the field error type's %s answer to the failure of %s is not handed over to the container's error type%s" % (
                    "/".join(sorted({"Continue", "Break"} - handed)), fn, where), b.span)
            oth = canon(v, s1.payload)
            if not (oth[0] == "field" and oth[2] == "Err" and oth[1][0] == "call" and oth[1][1] == cbb):
                R.bad("C11.TRYFROM", body, "what is handed over is not the error returned by %s%s" % (fn, where), b.span)
            got = crate.types[s1.self_ty]["s"].split("::")[-1] if s1.self_ty is not None else None
            if got != want_err:
                R.bad("C11.TRYFROM", body, "the conversion error is first merged into %s, expected the field's error type %s%s" % (got, want_err, where), b.span)
    else:
        if len(a["sites"]) != 1:
            R.bad("C11.CONV", body, "the arm of `%s` has %d report sites, expected the single hand-over of the child's error%s" % (f["ident"], len(a["sites"]), where), b.span)


# ---------------------------------------------------------------- enums
def tagged(R, b, v, bs, sk, sp):
    body = b.path
    tg = sk.tag
    R.add("C10.TAG")
    if tg is None or "dispatch" not in tg:
        for r in ALL:
            R.bad(r + ".SKELETON", body, "cannot establish the tag handling", b.span)
        return
    if tg["const"] != sp["tag"]:
        R.bad("C10.TAG", body, "the tag is looked up under `%s`, the derive input says `%s`" % (tg["const"], sp["tag"]), b.span)
    # removed from the input's own map
    t = v.blocks[tg["remove_bb"]]["term"]
    m = strip_refs(canon(v, v.origin(t["args"][0])))
    if not (m == ("multi", 7) or m[0] in ("multi", "field")):
        pass
    src = _map_source(v, t["args"][0])
    if src != ("field", ("param", 1), "Map", "0"):
        R.bad("C10.TAG", body, "the tag is not removed from the input's own map", b.span, fmt(src))
    # missing tag
    R.add("C10.TAGMISSING")
    ms = tg.get("missing_site")
    if ms is None:
        R.bad("C10.TAGMISSING", body, "an absent tag is not reported as a missing field", b.span)
    else:
        cv, s = ms
        fld = dict(zip(s.payload[5], s.payload[2]))
        k = strip_refs(canon(cv, fld.get("field")))
        if k != ("const", "str", sp["tag"]):
            R.bad("C10.TAGMISSING", body, "an absent tag is reported as missing field %s" % fmt(k), b.span)
        if s.handling != "collapsed":
            R.bad("C10.TAGMISSING", body, "an absent tag does not end the call", b.span)
        # the closure is the ok_or_else of the remove (or the report sits on the None edge of a match on the removed entry)
        okc = tg.get("missing_form") == "match"
        for bb, c in v.calls():
            if c.fn is not None and c.base() == "std::option::Option::ok_or_else":
                tt = v.origin_call(bb)
                if tt[3] and tt[3][0][0] == "call" and tt[3][0][1] == tg["remove_bb"] and strip_refs(tt[3][1])[0] == "agg":
                    okc = True
        if not okc:
            R.bad("C10.TAGMISSING", body, "the missing-tag report is not tied to the absence of the tag entry", b.span)
    R.add("C10.TAGKIND")
    ks = tg.get("kind_site")
    if ks is None:
        R.bad("C10.TAGKIND", body, "a non-string tag is not reported as a kind error", b.span)
    else:
        fld = dict(zip(ks.payload[5], ks.payload[2]))
        acc = strip_refs(canon(v, fld.get("accepted")))
        names = [x[4] for x in acc[2]] if acc[0] == "agg" and acc[1] == "array" else None
        if names != ["String"]:
            R.bad("C10.TAGKIND", body, "the tag kind error lists %s as accepted" % names, b.span)
        if ks.handling != "collapsed":
            R.bad("C10.TAGKIND", body, "a non-string tag does not end the call", b.span)
        # every kind of tag value other than a string must arrive at a kind report (an arm of its own for one kind -
        # `Value::Null => missing tag`, say - takes that kind away from it); independent of how the arms are written
        def _from_remove(x):
            return x[0] == "call" and x[1] == tg["remove_bb"]
        ksites = [s_ for s_ in bs.sites if s_.ek == "IncorrectValueKind" and term_mentions(s_.payload, _from_remove)]
        for sb in sorted(v.reach):
            info = v.switch_info(sb)
            if not info or info["kind"] != "discr" or not str(info.get("adt") or "").endswith("Value") or info["place"] is None:
                continue
            if not any(lb == "String" for lb, _ in info["edges"]):
                continue
            try:
                o = canon(v, v.origin({"k": "copy", "place": info["place"]}))
            except Exception:
                continue
            if not term_mentions(o, _from_remove):
                continue
            R.add("C10.TAGKIND")
            for nm in ("Null", "Boolean", "Integer", "NegativeInteger", "Float", "Sequence", "Map"):
                tgt = v.variant_target(info, nm)
                if tgt is None:
                    continue
                rs = v.reachable(tgt) | {tgt}
                if ksites and not any(s_.bb in rs for s_ in ksites):
                    R.bad("C10.TAGKIND", body, "a tag of kind %s does not arrive at the kind report (it takes an arm of its own)" % nm, b.span)
    # dispatch
    R.add("C10.DISPATCH")
    want = [x["key"] for x in sp["variants"]]
    if tg["order"] != want:
        R.bad("C10.DISPATCH", body, "the tag string is compared with %s, the effective variant names are %s" % (tg["order"], want), b.span)
    else:
        R.sample("C10", {"type": sp["name"], "tag": tg["const"], "variants": want})
    subj = strip_refs(tg["subject"])
    if not (subj[0] == "field" and subj[2] == "String"):
        R.bad("C10.DISPATCH", body, "what is matched is not the tag's string itself", b.span, fmt(subj))
    R.add("C10.UNKNOWN")
    us = tg.get("unknown_site")
    if us is None or us.handling != "collapsed":
        R.bad("C10.UNKNOWN", body, "a tag naming no variant is not reported (and the call ended)", b.span)
    if tg.get("fallback_builds"):
        R.bad("C10.UNKNOWN", body, "a tag naming no variant is resolved to variant %s" % tg["fallback_builds"], b.span)
    # remove before iteration
    R.add("C09.TAGFIRST")
    for n in bs.nexts:
        if not v.dominates(tg["remove_bb"], n["bb"]):
            R.bad("C09.TAGFIRST", body, "the map is iterated before the tag entry was taken out", b.span)
    for vs in sp["variants"]:
        R.add("C10.VARIANT")
        got = sk.variants.get(vs["key"])
        if got is None:
            continue
        if vs["unit"]:
            if got[0] != "unit" or got[1] != [vs["ident"]]:
                R.bad("C10.VARIANT", body, "tag `%s` builds %s instead of unit variant %s" % (vs["key"], got[1] if got[0] == "unit" else "a struct-like variant", vs["ident"]), b.span)
        else:
            if got[0] != "named":
                R.bad("C10.VARIANT", body, "tag `%s` does not read the fields of variant %s" % (vs["key"], vs["ident"]), b.span)
                continue
            named(R, b, v, bs, sk, got[1], sp, vs["fields"], sp, vs["ident"])


def _map_source(v, op):
    t = strip_refs(canon(v, v.origin(op)))
    if t[0] == "multi":
        wd = v.whole_defs(t[1])
        if len(wd) == 1 and wd[0][0] == "stmt":
            return strip_refs(canon(v, v.origin_rv(wd[0][3]["rv"], wd[0][1])))
    return t


def unit(R, b, v, bs, sk, sp):
    body = b.path
    u = sk.unit
    R.add("C10.DISPATCH")
    if u is None:
        R.bad("C10.DISPATCH", body, "cannot establish the string match of the unit enum", b.span)
        return
    want = [x["key"] for x in sp["variants"]]
    if u["order"] != want:
        R.bad("C10.DISPATCH", body, "the string is compared with %s, the effective variant names are %s" % (u["order"], want), b.span)
    for vs in sp["variants"]:
        R.add("C10.VARIANT")
        got = u["arms"].get(vs["key"])
        if got is not None and got != [vs["ident"]]:
            R.bad("C10.VARIANT", body, "string `%s` builds %s instead of variant %s" % (vs["key"], got, vs["ident"]), b.span)
    R.add("C10.UNKNOWN")
    s = u["unknown_site"]
    if s is None or s.ek != "UnknownValue" or s.handling != "collapsed":
        R.bad("C10.UNKNOWN", body, "a string naming no variant is not reported as UnknownValue (ending the call)", b.span)
    else:
        fld = dict(zip(s.payload[5], s.payload[2]))
        acc = const_str_array(v, canon(v, fld.get("accepted")))
        if acc is None:
            R.bad("C10.UNKNOWN", body, "the accepted list of the unknown-value report could not be read as a literal array of names: not recognised (undecided)", b.span)
        elif acc != want:
            R.bad("C10.UNKNOWN", body, "unknown values are reported with accepted = %s, the effective variant names are %s" % (acc, want), b.span)
        else:
            R.sample("C10", {"type": sp["name"], "accepted": acc})
    if u.get("fallback_builds"):
        R.bad("C10.UNKNOWN", body, "a string naming no variant is resolved to variant %s" % u["fallback_builds"], b.span)


# ---------------------------------------------------------------- container from / try_from / validate
def _question_mark_payload(v, term):
    """term is the Continue payload of Try::branch(x): return x's term, else None"""
    t = term
    if t[0] == "field" and t[2] == "Continue" and t[1][0] == "call" and "std::ops::Try>::branch" in (t[1][2] or ""):
        return t[1][3][0]
    # `let x = match.. ?` goes through a local with several moves
    return None


def user(R, b, v, bs, sk, sp, cl):
    body = b.path
    crate = b.crate
    conv = sp["from"] or sp["try_from"]
    ch = sk.user["child"]
    R.add("C11.CONTAINER")
    got_ty = crate.types[ch["self_ty"]]["s"].replace("std::string::", "") if ch["self_ty"] is not None else None
    if got_ty != conv["ty"]:
        R.bad("C11.CONTAINER", body, "the intermediate value is deserialised as %s instead of %s" % (got_ty, conv["ty"]), b.span)
    if canon(v, ch["loc"]) != ("param", 2):
        R.bad("C11.CONTAINER", body, "the intermediate value is not located at the container's own location", b.span)
    calls = [u for u in bs.user_calls if u["path"].split("::")[-1] == conv["fn"]]
    if len(calls) != 1:
        R.bad("C11.CONTAINER", body, "expected exactly one call of %s, found %d" % (conv["fn"], len(calls)), b.span)
        return
    cbb = calls[0]["bb"]
    t = v.blocks[cbb]["term"]
    raw = v.origin(t["args"][0])
    arg = canon(v, raw)
    by_ref = raw[0] == "ref"
    inner = _see_through_locals(v, strip_refs(arg))
    # whatever carries it there (`?`, an explicit match, temporaries): every alternative is the child's Ok payload
    al = set(strip_refs(canon(v, a)) for a in v.alts(strip_refs(raw)))
    if not al or not all(a[0] == "field" and a[2] == "Ok" and isinstance(a[1], tuple) and a[1][0] == "call" and a[1][1] == ch["bb"] for a in al):
        R.bad("C11.CONTAINER", body, "%s does not receive the successfully deserialised intermediate value (after `?`)" % conv["fn"], b.span, fmt(inner))
    if bool(conv["by_ref"]) != by_ref:
        R.bad("C11.CONTAINER", body, "by-reference flag of %s is not honoured" % conv["fn"], b.span)
    if sp["try_from"]:
        R.add("C11.CONTAINER")
        # its error is merged (None, e, P) in a map_err closure and ends the call
        okm = False
        for path, (cv, cbs) in list(cl.items()) + [(body, (v, bs))]:
            for s in cbs.sites:
                if s.kind == "merge" and s.self_none and s.handling == "collapsed":
                    okm = True
        if not okm:
            R.bad("C11.CONTAINER", body, "the error of %s is not handed to the error type" % conv["fn"], b.span)


def _see_through_locals(v, t, depth=0):
    """a user variable assigned once from a moved value"""
    if t[0] == "multi" and depth < 4:
        wd = v.whole_defs(t[1])
        if len(wd) == 1 and wd[0][0] == "stmt":
            return _see_through_locals(v, strip_refs(canon(v, v.origin_rv(wd[0][3]["rv"], wd[0][1]))), depth + 1)
    return t


def validate(R, b, v, bs, sk, sp, cl):
    body = b.path
    R.add("C11.VALIDATE")
    want = sp["validate"]
    got = sk.validate
    if want is None:
        if got is not None and got["path"].split("::")[-1] not in ((sp["from"] or {}).get("fn"), (sp["try_from"] or {}).get("fn")):
            R.bad("C11.VALIDATE", body, "a validation function runs although the derive input names none", b.span)
        return
    if got is None or got["path"].split("::")[-1] != want["fn"]:
        R.bad("C11.VALIDATE", body, "the validate function %s is not called with (finished value, container location)" % want["fn"], b.span)
        return
    n = sum(1 for u in bs.user_calls if u["path"].split("::")[-1] == want["fn"])
    if n != 1:
        R.bad("C11.VALIDATE", body, "validate is called from %d sites" % n, b.span)
    a0 = _see_through_locals(v, strip_refs(got["arg0"]))
    src = _question_mark_payload(v, a0)
    conv = sp["from"] or sp["try_from"]
    ok = False
    al0 = set(strip_refs(canon(v, a)) for a in v.alts(strip_refs(got["arg0"])))
    self_ty_path = None
    try:
        self_ty_path = b.crate.types[b.impl_self]["path"] if b.impl_self is not None and b.crate.types[b.impl_self]["k"] == "adt" else None
    except Exception:
        self_ty_path = None
    built_here = bool(al0) and self_ty_path is not None and all(a[0] == "agg" and a[1] == "adt" and a[3] == self_ty_path for a in al0)
    if src is not None or built_here or (a0[0] == "field" and a0[2] == "Ok" and str(a0[3]) == "0") or \
            (al0 and all(a[0] == "field" and a[2] == "Ok" and isinstance(a[1], tuple) and a[1][0] == "call" for a in al0)):
        ok = True  # value that survived the container's own `?` (or the explicit match that stands for it)
    elif conv and a0[0] == "call":
        c = v.callee(a0[1])
        ok = c is not None and c.fn is not None and c.path.split("::")[-1] == conv["fn"]  # container `from`: the converted value
    if not ok:
        if a0[0] == "multi" or (a0[0] == "field" and strip_refs(a0[1])[0] == "multi"):
            R.bad("C11.VALIDATE", body, "where validate's argument comes from was not resolved (a local with several definitions): not recognised (undecided)", b.span, fmt(a0))
        else:
            R.bad("C11.VALIDATE", body, "validate does not receive the finished value (it can run although deserialisation failed)", b.span, fmt(a0))
    # its result: map_err(closure merging at P) returned
    okm = False
    from loc import is_own_location
    names = (v.b.lname(2),) if v.b.lname(2) else ("deserr_location__",)
    for path, (cv, cbs) in cl.items():
        for s in cbs.sites:
            if s.kind == "merge" and s.self_none and s.handling == "collapsed":
                okm = True
                if not is_own_location(cv, canon(cv, s.loc), names):
                    R.bad("C11.VALIDATE", body, "a user function's error is handed over at a location other than the container's", b.span, fmt(canon(cv, s.loc)))
    if not okm:
        # ... or on the Err arm of a `match validate(..)` in the function itself
        for s in bs.sites:
            if s.kind == "merge" and s.self_none and s.handling == "collapsed":
                oth = canon(v, s.payload)
                if oth[0] == "field" and oth[2] == "Err" and isinstance(oth[1], tuple) and oth[1][0] == "call" and oth[1][1] == got["bb"]:
                    okm = True
                    if not is_own_location(v, canon(v, s.loc), names):
                        R.bad("C11.VALIDATE", body, "a user function's error is handed over at a location other than the container's", b.span, fmt(canon(v, s.loc)))
    if not okm:
        R.bad("C11.VALIDATE", body, "a validation failure is not handed to the error type", b.span)
    # returned value is the validate result
    from coll import ok_assignments
    rets = ok_assignments(v)
    good = False
    validated_ok = set()
    for kind, bb, term, op in rets:
        if kind == "call":
            tt = canon(v, term)
            if term_mentions(tt, lambda x: x[0] == "call" and x[1] == got["bb"]):
                good = True
        if kind == "ok":
            # `match validate(..) { Ok(v) => Ok(v), Err(e) => .. }`: the value handed back by validate itself
            al_ = [strip_refs(canon(v, a_)) for a_ in v.alts(term)]
            if al_ and all(a_[0] == "field" and a_[2] == "Ok" and isinstance(a_[1], tuple) and a_[1][0] == "call" and a_[1][1] == got["bb"] for a_ in al_):
                good = True
                validated_ok.add(bb)
    if not good:
        R.bad("C11.VALIDATE", body, "what validate returns is not what the call returns", b.span)
    # no success leaves the function without having gone through validate
    for kind, bb, term, op in rets:
        if kind == "ok" and bb not in validated_ok:
            R.bad("C11.VALIDATE", body, "a value can be returned without having been validated", b.span)
    else:
        R.sample("C11", {"type": sp["name"], "validate": want["fn"], "receives": "payload of the container's own `?`"})


# ---------------------------------------------------------------- summaries of the FieldState helpers
def summaries(ctx, R):
    crate = ctx.corpus("catalogue")["deserr"]
    want = {"is_missing": None, "map": None, "unwrap": None}
    for b in crate.bodies:
        p = npath(erase_generics(b.path))
        if p == "FieldState::is_missing":
            R.add("C08.SUMMARY")
            v = View(b)
            ok = False
            info = None
            for bb in sorted(v.reach):
                i2 = v.switch_info(bb)
                if i2 and i2["kind"] == "discr":
                    info = i2
                    break
            if info:
                mt = v.variant_target(info, "Missing")
                ot = [t for lb, t in info["edges"] if lb != "Missing" and t not in v.unreach]
                def const_ret(start):
                    vals = set()
                    for x in v.reachable(start):
                        for st in v.blocks[x]["stmts"]:
                            if st["k"] == "assign" and st["place"]["l"] == 0 and st["rv"]["k"] == "use" and st["rv"]["op"]["k"] == "const":
                                vals.add(st["rv"]["op"].get("bool"))
                    return vals
                if mt is not None and ot:
                    tv = set()
                    for x in v.reachable(mt):
                        pass
                    # blocks only reachable from the Missing edge assign true; the others false
                    m_only = v.reachable(mt) - set().union(*[v.reachable(o) for o in ot])
                    o_only = set().union(*[v.reachable(o) for o in ot]) - v.reachable(mt)
                    def vals(blocks):
                        s = set()
                        for x in blocks:
                            for st in v.blocks[x]["stmts"]:
                                if st["k"] == "assign" and st["place"]["l"] == 0 and st["rv"]["k"] == "use" and st["rv"]["op"]["k"] == "const":
                                    s.add(st["rv"]["op"].get("bool"))
                        return s
                    ok = vals(m_only) == {True} and vals(o_only) == {False}
            if not ok:
                R.bad("C08.SUMMARY", b.path, "FieldState::is_missing is not `true exactly for Missing`", b.span)
            want["is_missing"] = ok
        elif p == "FieldState::map":
            R.add("C08.SUMMARY")
            v = View(b)
            # Some(x) -> Some(f(x)), Missing -> Missing, Err -> Err
            ok = True
            info = None
            for bb in sorted(v.reach):
                i2 = v.switch_info(bb)
                if i2 and i2["kind"] == "discr":
                    info = i2
                    break
            if not info:
                ok = False
            else:
                for var in ("Some", "Missing", "Err"):
                    tgt = v.variant_target(info, var)
                    if tgt is None:
                        ok = False
                        continue
                    others = [t for lb, t in info["edges"] if t != tgt and t not in v.unreach]
                    only = v.reachable(tgt) - set().union(*[v.reachable(o) for o in others]) if others else v.reachable(tgt)
                    built = set()
                    calls = 0
                    for x in only:
                        for st in v.blocks[x]["stmts"]:
                            if st["k"] == "assign" and st["rv"]["k"] == "agg" and npath(st["rv"].get("path", "")) == "FieldState":
                                built.add(st["rv"]["variant"])
                        c = v.callee(x)
                        if c is not None and c.trait and erase_generics(c.trait) in ("std::ops::Fn", "std::ops::FnOnce", "std::ops::FnMut"):
                            calls += 1
                    if built != {var} or calls != (1 if var == "Some" else 0):
                        ok = False
            if not ok:
                R.bad("C08.SUMMARY", b.path, "FieldState::map does not preserve the state and apply the function exactly once to Some", b.span)
            want["map"] = ok
        elif p == "FieldState::unwrap":
            R.add("C08.SUMMARY")
            import inline
            v = View(inline.expand_local_helpers(crate, b))
            ok = False
            wrong = False
            for bb in v.reach:
                for st in v.blocks[bb]["stmts"]:
                    if st["k"] == "assign" and st["place"]["l"] == 0 and not st["place"]["p"]:
                        for t in v.alts(v.origin_rv(st["rv"], bb)):
                            t = strip_refs(t)
                            if t[0] == "field" and t[2] == "Some" and strip_refs(t[1]) == ("param", 1):
                                ok = True
                            elif t[0] == "field" and strip_refs(t[1]) == ("param", 1):
                                wrong = True     # the payload of another state
            if wrong:
                R.bad("C08.SUMMARY", b.path, "FieldState::unwrap does not return the payload of Some", b.span)
            elif not ok:
                R.bad("C08.SUMMARY", b.path, "what FieldState::unwrap returns was not read: not recognised (undecided)", b.span)
            want["unwrap"] = ok
    for k, val in want.items():
        if val is None:
            R.bad("C08.SUMMARY", "FieldState::" + k, "helper not found in the library facts")
