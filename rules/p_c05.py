"""C05 — scalars accept exactly the representable values and say why not (structural clauses):
KINDS (dispatch/table agreement), EXACT (no lossy conversion; Ok payload = checked TryFrom of the
matched payload), BOUND (the domain report names the payload and the violated bound of Self)."""
import re

from analysis import View, strip_refs, erase_generics, term_mentions
from check import PropResult
from lin import Finding
from loc import canon, fmt, call_name
from scope import deser_roots, closures_of
from sites import BodySites, npath

INTS = {"u8": (0, 2 ** 8 - 1), "u16": (0, 2 ** 16 - 1), "u32": (0, 2 ** 32 - 1), "u64": (0, 2 ** 64 - 1), "u128": (0, 2 ** 128 - 1),
        "usize": (0, 2 ** 64 - 1), "i8": (-2 ** 7, 2 ** 7 - 1), "i16": (-2 ** 15, 2 ** 15 - 1), "i32": (-2 ** 31, 2 ** 31 - 1),
        "i64": (-2 ** 63, 2 ** 63 - 1), "i128": (-2 ** 127, 2 ** 127 - 1), "isize": (-2 ** 63, 2 ** 63 - 1)}
BAD_NAME = re.compile(r"(wrapping_|saturating_|overflowing_|_unchecked|unchecked_|from_bits|to_bits|transmute|as_$)")


def classify(s):
    """scalar class of a Self type string"""
    if s in ("bool", "()", "char", "std::string::String", "f32", "f64"):
        return {"bool": "bool", "()": "unit", "char": "char", "std::string::String": "string", "f32": "float", "f64": "float"}[s]
    if s in INTS:
        return "int"
    m = re.match(r"^std::num::NonZero<(\w+)>$", s)
    if m and m.group(1) in INTS:
        return "nonzero"
    return None


def inner_int(s):
    m = re.match(r"^std::num::NonZero<(\w+)>$", s)
    return m.group(1) if m else s


def fnd(rule, v, what, bb=None, detail=""):
    at = v.blocks[bb]["term"].get("at", "") if bb is not None else v.b.span
    return Finding(rule, v.b.path, what, at, detail)


def accepted_of(site_view, s):
    f = dict(zip(s.payload[5], s.payload[2]))
    acc = strip_refs(canon(site_view, f.get("accepted")))
    if acc[0] == "agg" and acc[1] == "array":
        return [x[4] for x in acc[2] if x[0] == "agg"]
    return None


def casts_in(v):
    out = []
    for bb in sorted(v.reach):
        for st in v.blocks[bb]["stmts"]:
            if st["k"] == "assign" and st["rv"]["k"] == "cast":
                out.append((bb, st["rv"]["ck"], v.b.crate.tys(st["rv"]["from"]), v.b.crate.tys(st["rv"]["to"]), st["rv"]))
    return out


def check_impl(crate, b, res):
    s = b.impl_self_str()
    cls = classify(s)
    if cls is None:
        return None
    import inline
    v = View(inline.inlined(crate, b))
    bs = BodySites(v)
    cl = [(View(inline.inlined(crate, c)), None) for c in closures_of(crate, b)]
    cl = [(cv, BodySites(cv)) for cv, _ in cl]
    out = []
    ob = 0
    # ------------------------------------------------------------ KINDS
    info = v.switch_info(0)
    ob += 1
    if not (info and info["kind"] == "discr" and info["place"] and info["place"]["l"] == 1 and not info["place"]["p"]):
        out.append(fnd("C05.KINDS", v, "the impl does not dispatch on the kind of its input"))
        return out, ob, cls
    handled = sorted(set(lb for lb, t in info["edges"] if lb is not None))
    other_t = [t for lb, t in info["edges"] if lb is None and t not in v.unreach]
    kind_sites = []
    for x in [(v, bs)] + cl:
        for st in x[1].sites:
            if st.ek == "IncorrectValueKind":
                kind_sites.append((x[0], st))
    if len(kind_sites) != 1:
        out.append(fnd("C05.KINDS", v, "expected exactly one kind report, found %d" % len(kind_sites)))
    else:
        sv, st = kind_sites[0]
        acc = accepted_of(sv, st)
        if acc is None or sorted(acc) != handled:
            out.append(fnd("C05.KINDS", v, "kinds with an arm of their own %s differ from the accepted list of the kind error %s" % (handled, sorted(acc) if acc else acc), st.bb))
        # the fall-through edge is the one that reports
        if not other_t:
            out.append(fnd("C05.KINDS", v, "no fall-through arm for inadmissible kinds"))
        else:
            reach = v.reachable(other_t[0])
            if sv is v:
                if st.bb not in reach:
                    out.append(fnd("C05.KINDS", v, "the kind report is not on the fall-through arm", st.bb))
            else:
                called = [bb for bb, c in v.calls() if bb in reach and c.fn is not None and c.trait and erase_generics(c.trait) in ("std::ops::Fn", "std::ops::FnOnce", "std::ops::FnMut")]
                if not called:
                    out.append(fnd("C05.KINDS", v, "the kind report is not on the fall-through arm"))
            for lb, t in info["edges"]:
                if lb is not None and t in reach and other_t[0] not in v.reachable(t) and False:
                    pass
    expected = {"bool": ["Boolean"], "unit": ["Null"], "char": ["String"], "string": ["String"], "float": ["Float", "Integer", "NegativeInteger"]}
    if cls in expected:
        ob += 1
        if handled != sorted(expected[cls]):
            out.append(fnd("C05.KINDS", v, "%s admits kinds %s, the statement says %s" % (s, handled, sorted(expected[cls]))))
    if cls in ("int", "nonzero"):
        ob += 1
        lo, hi = INTS[inner_int(s)]
        want = ["Integer"] if lo == 0 else ["Integer", "NegativeInteger"]
        if handled != want:
            out.append(fnd("C05.KINDS", v, "%s admits kinds %s, expected %s" % (s, handled, want)))
    # ------------------------------------------------------------ EXACT
    views = [v] + [cv for cv, _ in cl]
    for vv in views:
        for bb, c in vv.calls():
            if c.fn is not None and c.name and BAD_NAME.search(c.name):
                ob += 1
                out.append(fnd("C05.EXACT", vv, "lossy / unchecked conversion %s" % c.full, bb))
        for bb, ck, fr, to, rv in casts_in(vv):
            if ck.startswith("PointerCoercion") or ck.startswith("Transmute") and False:
                continue
            ob += 1
            if cls == "float" and ck in ("IntToFloat", "FloatToFloat"):
                src = canon(vv, vv.origin(rv["op"]))
                if not (src[0] == "field" and src[1] == ("param", 1) and src[2] in ("Integer", "NegativeInteger", "Float")):
                    out.append(fnd("C05.EXACT", vv, "float result is not the IEEE conversion of the payload itself", bb, fmt(src)))
                if to != s:
                    out.append(fnd("C05.EXACT", vv, "payload converted to %s instead of %s" % (to, s), bb))
                continue
            if ck.startswith("PointerCoercion"):
                continue
            out.append(fnd("C05.EXACT", vv, "`as` cast %s -> %s (%s) in a scalar impl" % (fr, to, ck), bb))
    if cls in ("int", "nonzero"):
        by_path = {cv.b.path: (cv, cbs) for cv, cbs in cl}

        def closures_created(view, blocks_):
            res_ = []
            for bb_ in blocks_:
                for st_ in view.blocks[bb_]["stmts"]:
                    if st_["k"] == "assign" and st_["rv"]["k"] == "agg" and st_["rv"].get("ak") == "closure" and st_["rv"].get("path") in by_path:
                        res_.append(st_["rv"]["path"])
            return res_

        for var, src_ty in (("Integer", "u64"), ("NegativeInteger", "i64")):
            if var not in handled:
                continue
            ob += 1
            tgt = v.variant_target(info, var)
            region = v.reachable(tgt)
            own = set(bb for bb in region if v.dominates(tgt, bb))
            # closures of this arm (and the closures they create)
            arm_cl = []
            work = closures_created(v, own)
            while work:
                pth = work.pop()
                if pth in arm_cl:
                    continue
                arm_cl.append(pth)
                cv0, _ = by_path[pth]
                work.extend(closures_created(cv0, cv0.reach))
            scopes_ = [(v, own)] + [(by_path[pth][0], set(by_path[pth][0].reach)) for pth in arm_cl]
            payload = ("field", ("param", 1), var, "0")

            def is_payload(view, term):
                t_ = strip_refs(canon(view, term))
                if view is v:
                    return t_ == payload
                # inside a closure: the captured binding of the payload, or the value the combinator hands in
                return (t_[0] == "field" and strip_refs(t_[1]) == ("param", 1) and t_[2] is None) or (t_[0] == "param" and t_[1] >= 2)

            convs = []      # (view, bb, kind, target type string, arg ok)
            for view, blocks_ in scopes_:
                for bb in sorted(blocks_):
                    c = view.callee(bb)
                    if c is None or c.fn is None:
                        continue
                    nm = call_name(view, ("call", bb))
                    tt = view.blocks[bb]["term"]
                    if nm == "std::convert::TryFrom::try_from" and tt["args"]:
                        convs.append((view, bb, "try_from", crate.tys(c.self_ty) if c.self_ty is not None else "?", is_payload(view, view.origin(tt["args"][0]))))
                    elif c.base() in ("std::num::NonZero::new",) and tt["args"]:
                        convs.append((view, bb, "nz_new", crate.tys(v.b.crate.types[tt["dest"]["ty"]]["args"][0]) if False else c.full, is_payload(view, view.origin(tt["args"][0]))))
                    elif nm == "std::convert::TryInto::try_into" and tt["args"]:
                        convs.append((view, bb, "try_from", crate.tys(c.gargs[0]) if c.gargs and isinstance(c.gargs[0], int) else "?", is_payload(view, view.origin(tt["args"][0]))))
            to_self = [x for x in convs if x[2] == "try_from" and x[3] == s]
            if not to_self:
                out.append(fnd("C05.EXACT", v, "no checked conversion (TryFrom) into %s found on the %s arm" % (s, var)))
            for view, bb, kind, to, argok in convs:
                if not argok:
                    out.append(fnd("C05.EXACT", view, "a conversion on the %s arm is not applied to the payload itself" % var, bb))
            if cls == "nonzero":
                want_first = "NonZero<u64>" if var == "Integer" else "NonZero<i64>"
                firsts = [x for x in convs if (x[2] == "try_from" and want_first in x[3]) or (x[2] == "nz_new" and want_first.replace("<", "::<") in x[3])]
                if not firsts:
                    out.append(fnd("C05.EXACT", v, "the %s payload is not first turned into a %s (checked)" % (var, want_first)))
            # hand-made Ok / Some values on this arm
            for view, blocks_ in scopes_:
                for bb in sorted(blocks_):
                    for st in view.blocks[bb]["stmts"]:
                        if st["k"] == "assign" and st["rv"]["k"] == "agg" and st["rv"].get("ak") == "adt" and st["rv"].get("variant") in ("Ok", "Some") \
                                and st["rv"].get("path") in ("std::result::Result", "std::option::Option") and st["rv"]["ops"]:
                            srcs = view.alts(view.origin(st["rv"]["ops"][0]))
                            conv_bbs = set(x[1] for x in convs if x[0] is view)
                            okv = bool(srcs) and all(term_mentions(a, lambda y: y[0] == "call" and y[1] in conv_bbs) for a in srcs)
                            if not okv:
                                out.append(fnd("C05.EXACT", view, "an Ok value is built on the %s arm without a checked conversion" % var, bb))
            # what the arm returns comes out of those conversions
            rets = [bb for bb in own if v.blocks[bb]["term"]["k"] == "call" and v.blocks[bb]["term"]["dest"]["l"] == 0 and not v.blocks[bb]["term"]["dest"]["p"]]
            conv_main = set(x[1] for x in convs if x[0] is v)
            for bb in rets:
                t = canon(v, v.origin_call(bb))
                okr = term_mentions(t, lambda y: (y[0] == "call" and y[1] in conv_main) or (y[0] == "agg" and y[1] == "closure" and y[3] in arm_cl))
                if not okr and not any(s2.bb in own for s2 in bs.sites):
                    out.append(fnd("C05.EXACT", v, "result of the %s arm is produced by %s, not by the checked conversion" % (var, call_name(v, t)), bb))
            # ---------------------------------------------------- BOUND
            ob += 1
            want_bound = hi if var == "Integer" else lo
            bits = {"8": 8, "16": 16, "32": 32, "64": 64, "128": 128, "size": 64}[inner_int(s).lstrip("ui")]
            okb = False
            for pth in arm_cl:
                cv0, cbs0 = by_path[pth]
                if _closure_reports_bound(cv0, cbs0, want_bound, alt=(want_bound % (2 ** bits)) if cls == "nonzero" else None,
                                          scopes=[v] + [x_[0] for x_ in cl]):
                    okb = True
            # ... or directly on the arm (`match <$t>::try_from(x) { Ok(n) => Ok(n), Err(_) => Err(<report>) }`)
            if not okb and _closure_reports_bound(v, bs, want_bound, alt=(want_bound % (2 ** bits)) if cls == "nonzero" else None, payload=payload, region=own):
                okb = True
            if not okb:
                out.append(fnd("C05.BOUND", v, "the out-of-range report of the %s arm does not name the payload and the bound %d of %s" % (var, want_bound, s)))
        if cls == "nonzero":
            # zero is rejected explicitly on every integer arm
            for var in handled:
                ob += 1
                tgt = v.variant_target(info, var)
                okz = False
                for bb in v.reachable(tgt):
                    for st in v.blocks[bb]["stmts"]:
                        if st["k"] == "assign" and st["rv"]["k"] == "binop" and st["rv"]["op"] == "Eq":
                            a = canon(v, v.origin(st["rv"]["a"]))
                            bterm = canon(v, v.origin(st["rv"]["b"]))
                            if a[0] == "field" and a[1] == ("param", 1) and a[2] == var and bterm == ("const", "int", 0):
                                i2 = v.switch_info(bb)
                                tt = v.edge_target(i2, True) if i2 and i2["kind"] == "bool" else None
                                if tt is not None and any(s2.ek == "Unexpected" and s2.bb in v.reachable(tt) and s2.handling == "collapsed" for s2 in bs.sites):
                                    okz = True
                if not okz:
                    # `Value::Integer(0) => ..`: a switch on the payload itself whose 0 edge reports
                    for bb in v.reachable(tgt):
                        i2 = v.switch_info(bb)
                        if i2 and i2["kind"] == "int":
                            dt = strip_refs(canon(v, v.origin(v.blocks[bb]["term"]["discr"])))
                            if dt == ("field", ("param", 1), var, "0"):
                                for lb, t2 in i2["edges"]:
                                    if lb == 0 and any(s2.ek == "Unexpected" and s2.bb in v.reachable(t2) and s2.handling == "collapsed" for s2 in bs.sites):
                                        okz = True
                if not okz:
                    out.append(fnd("C05.BOUND", v, "a zero %s payload is not rejected with a report of its own" % var))
    if cls in ("bool", "string"):
        ob += 1
        var = "Boolean" if cls == "bool" else "String"
        oks = _ok_terms(v)
        if len(oks) != 1 or canon(v, oks[0][1]) != ("field", ("param", 1), var, "0"):
            out.append(fnd("C05.EXACT", v, "the result is not the payload unchanged"))
    if cls == "unit":
        ob += 1
        oks = _ok_terms(v)
        nt = v.variant_target(info, "Null")
        if len(oks) != 1 or nt is None or not v.dominates(nt, oks[0][0]):
            out.append(fnd("C05.EXACT", v, "() is produced for an input other than null"))
    if cls == "char":
        ob += 3
        oks = _ok_terms(v)
        nexts = [bb for bb, c in v.calls() if c.fn is not None and c.name == "next" and "Chars" in c.full]
        okc = False
        first = second = None
        if len(nexts) == 2:
            first, second = (nexts[0], nexts[1]) if v.dominates(nexts[0], nexts[1]) else (nexts[1], nexts[0])
        if len(oks) == 1 and first is not None:
            t = canon(v, oks[0][1])
            from_first = t[0] == "field" and t[2] == "Some" and t[1] == ("next", first)
            # the Ok block is only reachable when the second step returned None
            proves_none = False
            for bb2 in sorted(v.reach):
                i2 = v.switch_info(bb2)
                if not i2:
                    continue
                if i2["kind"] == "bool":
                    src = canon(v, v.origin(v.blocks[bb2]["term"]["discr"]))
                    if src[0] == "call" and call_name(v, src) == "std::option::Option::is_none" and strip_refs(src[3][0]) == ("next", second):
                        tt = v.edge_target(i2, True)
                        if tt is not None and v.dominates(tt, oks[0][0]):
                            proves_none = True
                elif i2["kind"] == "discr" and i2["place"] is not None:
                    pl = strip_refs(canon(v, v.origin_place(i2["place"])))
                    if pl == ("next", second):
                        nt = v.variant_target(i2, "None")
                        st_ = v.variant_target(i2, "Some")
                        if nt is not None and nt != st_ and v.dominates(nt, oks[0][0]) and (st_ is None or oks[0][0] not in v.reachable(st_) or v.dominates(nt, oks[0][0])):
                            proves_none = True
            src = canon(v, v.origin(v.blocks[first]["term"]["args"][0]))
            on_input = term_mentions(src, lambda x: x[0] == "field" and x[1] == ("param", 1) and x[2] == "String")
            okc = from_first and proves_none and on_input
        if not okc:
            out.append(fnd("C05.EXACT", v, "char does not return the first character exactly when there is no second one"))
        # both domain errors exist (empty / more than one), and the long one names the string and its length in characters
        unexp = [s2 for s2 in bs.sites if s2.ek == "Unexpected"]
        separate = len(unexp) == 2
        if len(unexp) == 1:
            # one report whose message is chosen beforehand: two different texts arrive at it
            s1 = unexp[0]
            fld = dict(zip(s1.payload[5], s1.payload[2])) if s1.payload and len(s1.payload) > 5 else {}
            msg_t = fld.get("msg")
            separate = msg_t is not None and len(set(v.alts(msg_t))) >= 2
        if len(unexp) == 0:
            out.append(fnd("C05.BOUND", v, "char must report the empty string and the too long string separately"))
        elif not separate:
            f_ = fnd("C05.BOUND", v, "char must report the empty string and the too long string separately: the %d reports found were not recognised as these two (undecided)" % len(unexp))
            f_.undecided = True
            out.append(f_)
        if unexp:
            okb = False
            for bb2, c2 in v.calls():
                if c2.fn is not None and "fmt::rt::Argument" in (c2.path or ""):
                    a2 = canon(v, v.origin(v.blocks[bb2]["term"]["args"][0]))
                    a2d = a2
                    # `let len = 2 + iter.count();`
                    if strip_refs(a2)[0] == "multi":
                        for d in v.whole_defs(strip_refs(a2)[1]):
                            if d[0] == "stmt":
                                a2d = canon(v, v.origin_rv(d[3]["rv"], d[1]))
                    if term_mentions(a2d, lambda x: x[0] == "call" and call_name(v, x) == "std::iter::Iterator::count"):
                        okb = True
                    if term_mentions(a2d, lambda x: x[0] == "call" and (call_name(v, x) or "").endswith("str::len")) or \
                            term_mentions(a2d, lambda x: x[0] == "call" and (call_name(v, x) or "") == "std::string::String::len"):
                        out.append(fnd("C05.BOUND", v, "the length reported for a too long string is its size in bytes, not its number of characters", bb2))
                        okb = True
            if not okb:
                out.append(fnd("C05.BOUND", v, "the report for a too long string does not state its length in characters"))
    return out, ob, cls


def _ok_terms(v):
    out = []
    for bb in sorted(v.reach):
        for st in v.blocks[bb]["stmts"]:
            if st["k"] == "assign" and st["place"]["l"] == 0 and st["rv"]["k"] == "agg" and st["rv"].get("variant") == "Ok":
                out.append((bb, v.origin(st["rv"]["ops"][0])))
    return out


def _exact_chain(crate, v, t, var, self_s, cls, src_ty, closures):
    """t is the receiver of or_else: TryFrom::try_from(payload) [int] or the NonZero chain"""
    payload = ("field", ("param", 1), var, "0")
    if cls == "int":
        if t[0] == "call" and call_name(v, t) == "std::convert::TryFrom::try_from":
            c = v.callee(t[1])
            if crate.tys(c.self_ty) != self_s:
                return "conversion targets %s" % crate.tys(c.self_ty)
            if canon(v, t[3][0]) != payload:
                return "converted value is %s" % fmt(t[3][0])
            return True
        return "receiver is %s" % fmt(t)
    # nonzero: and_then(map_err(NonZero{U,I}64::try_from(x)), |res| map_err(Self::try_from(res)))
    if not (t[0] == "call" and call_name(v, t) == "std::result::Result::and_then" and len(t[3]) == 2):
        return "receiver is %s" % fmt(t)
    first, clo = t[3]
    if not (first[0] == "call" and call_name(v, first) == "std::result::Result::map_err"):
        return "first stage is %s" % fmt(first)
    base = first[3][0]
    if not (base[0] == "call" and call_name(v, base) == "std::convert::TryFrom::try_from"):
        return "first stage is %s" % fmt(base)
    c = v.callee(base[1])
    want_first = "std::num::NonZero<u64>" if var == "Integer" else "std::num::NonZero<i64>"
    if crate.tys(c.self_ty) != want_first:
        return "first stage converts to %s" % crate.tys(c.self_ty)
    if canon(v, base[3][0]) != payload:
        return "first stage converts %s" % fmt(base[3][0])
    clo = strip_refs(clo)
    if not (clo[0] == "agg" and clo[1] == "closure"):
        return "second stage is not a closure"
    for cv, cbs in closures:
        if cv.b.path == clo[3]:
            # closure: map_err(Self::try_from(param 2))
            for bb in cv.reach:
                tt = cv.blocks[bb]["term"]
                if tt["k"] == "call" and tt["dest"]["l"] == 0:
                    r = canon(cv, cv.origin_call(bb))
                    if call_name(cv, r) == "std::result::Result::map_err":
                        inner = r[3][0]
                        if inner[0] == "call" and call_name(cv, inner) == "std::convert::TryFrom::try_from":
                            c2 = cv.callee(inner[1])
                            if crate.tys(c2.self_ty) == self_s and canon(cv, inner[3][0]) == ("param", 2):
                                return True
                            return "second stage converts %s into %s" % (fmt(inner[3][0]), crate.tys(c2.self_ty))
            return "second stage not recognised"
    return "closure body not found"


def _resolve_upvar(cv, name, scopes):
    """term (in the creating body) of what a closure captured under `name`: scopes = views that may create the closure"""
    ups = cv.b.d.get("upvars") or []
    if name not in ups:
        return None
    idx = ups.index(name)
    for pv in scopes:
        for bb in pv.reach:
            for st in pv.blocks[bb]["stmts"]:
                if st["k"] == "assign" and st["rv"]["k"] == "agg" and st["rv"].get("ak") == "closure" and st["rv"].get("path") == cv.b.path and idx < len(st["rv"]["ops"]):
                    return strip_refs(canon(pv, pv.origin(st["rv"]["ops"][idx])))
    return None


def _closure_reports_bound(cv, cbs, want_bound, alt=None, payload=None, region=None, scopes=()):
    """the closure builds Unexpected{msg: format!(.. x .. bound ..)} : among the format arguments one is the captured payload, one the constant bound"""
    if not any(s.ek == "Unexpected" and s.handling == "collapsed" and (region is None or s.bb in region) for s in cbs.sites):
        return False
    saw_x = False
    saw_bound = False
    for bb, c in cv.calls():
        if region is not None and bb not in region:
            continue
        if c.fn is not None and c.path and "fmt::rt::Argument" in c.path:
            a = cv.origin(cv.blocks[bb]["term"]["args"][0])
            a = strip_refs(canon(cv, a))
            if payload is None and a[0] == "field" and strip_refs(a[1]) == ("param", 1) and a[2] is None:
                up_ = _resolve_upvar(cv, a[3], scopes) if scopes else None
                if up_ is None or (up_[0] == "field" and up_[2] in ("Integer", "NegativeInteger")) or (up_[0] == "field" and strip_refs(up_[1]) == ("param", 1) and up_[2] is None):
                    saw_x = True     # the captured payload (whatever the binding is called)
            if payload is not None and a == payload:
                saw_x = True
            if a == ("const", "int", want_bound) or (alt is not None and a == ("const", "int", alt)):
                saw_bound = True  # (NonZero constants are exported as the raw bits of their integer)
            if a[0] == "field" and strip_refs(a[1]) == ("param", 1) and a[2] is None and scopes:
                # a captured `let max = <T>::MAX;` of the enclosing function
                up = _resolve_upvar(cv, a[3], scopes)
                if up is not None and (up == ("const", "int", want_bound) or (alt is not None and up == ("const", "int", alt))):
                    saw_bound = True
                    continue
            if a[0] == "multi":
                # `let bound = <T>::MAX;` style temporaries
                for d in cv.whole_defs(a[1]):
                    if d[0] == "stmt":
                        o = canon(cv, cv.origin_rv(d[3]["rv"], d[1]))
                        if o == ("const", "int", want_bound) or (alt is not None and o == ("const", "int", alt)):
                            saw_bound = True
    return saw_x and saw_bound


def run(ctx):
    res = PropResult("C05")
    res.level = "other"
    crate = ctx.libcrate("deserr")
    by = {}
    for b in deser_roots(crate):
        r = check_impl(crate, b, res)
        if r is None:
            continue
        fs, ob, cls = r
        by[cls] = by.get(cls, 0) + 1
        res.add("C05.KINDS/EXACT/BOUND", ob, fs)
        if len(res.samples) < 8 and cls not in [x["class"] for x in res.samples]:
            res.samples.append({"impl": b.impl_self_str(), "class": cls, "obligations": ob, "violations": len(fs)})
    res.analysed["scalar_impls_by_class"] = by
    for k, n in (("int", 12), ("nonzero", 12), ("float", 2), ("bool", 1), ("unit", 1), ("char", 1), ("string", 1)):
        res.floor("scalar impls of class " + k, by.get(k, 0), n)
    res.trusted_base = ["rustc nightly MIR construction and const evaluation (<T>::MAX / MIN)", "mirfacts extractor", "rules/p_c05.py",
                        "core: TryFrom between integer / NonZero types succeeds exactly for representable values and returns the same number; `as` to float is the IEEE conversion"]
    res.assumptions = ["numeric exactness itself is delegated to core's TryFrom (trusted); message wording is not decided; usize/isize are 64-bit on the analysed target"]
    res.explanation = ("KINDS: the Value variants with an arm of their own equal, as a set, the accepted list of the impl's single kind report, which sits on the fall-through arm. "
                       "EXACT: no narrowing/sign-changing `as`, no wrapping_/saturating_/unchecked calls; every integer Ok is or_else(TryFrom::<Self>::try_from(matched payload)) "
                       "(NonZero: via NonZeroU64/NonZeroI64 then Self); bool/String return the payload; () only on null; char returns the first char only where the second next() is None; floats only cast the payload. "
                       "BOUND: the or_else closure reports Unexpected whose format arguments are the captured payload and the constant <Self>::MAX (Integer arm) / MIN (NegativeInteger arm); NonZero zero arms are guarded by == 0.")
    return res
