"""C12 — deserialize never panics: census of panic-capable sites in the deserialisation code and a
guard rule that discharges each one; anything else is reported (fail closed)."""
import os

import coll
import extract
from analysis import View, strip_refs, erase_generics, term_mentions
from check import PropResult
from common import scopes
from lin import Finding
from loc import canon, fmt, call_name, item_of, loop_of
from scope import deser_roots, closures_of
from sites import BodySites, npath, follow_local_use
import skeleton

# std / core functions that can panic on some input (curated; everything else in std is assumed total)
PANICKY = {
    "std::option::Option::unwrap", "std::option::Option::expect", "std::result::Result::unwrap", "std::result::Result::expect",
    "std::result::Result::unwrap_err", "std::result::Result::expect_err", "std::ops::Index::index", "std::ops::IndexMut::index_mut",
    "std::vec::Vec::remove", "std::vec::Vec::insert", "std::vec::Vec::swap_remove", "std::vec::Vec::drain", "std::vec::Vec::split_off",
    "std::vec::Vec::extend_from_within", "std::vec::Vec::swap", "std::vec::Vec::reserve", "std::vec::Vec::reserve_exact",
    "core::slice::copy_from_slice", "core::slice::clone_from_slice", "core::slice::split_at", "core::slice::split_at_mut",
    "core::slice::swap", "core::slice::chunks", "core::slice::chunks_exact", "core::slice::windows", "core::slice::rotate_left",
    "core::slice::rotate_right", "core::str::split_at", "std::string::String::remove", "std::string::String::insert",
    "std::string::String::insert_str", "std::string::String::truncate", "std::string::String::drain", "std::string::String::replace_range",
    "std::string::String::split_off", "std::cell::RefCell::borrow", "std::cell::RefCell::borrow_mut", "std::iter::Iterator::step_by",
    "std::char::from_digit", "std::process::exit", "std::process::abort", "std::hint::unreachable_unchecked",
    "std::collections::VecDeque::remove", "std::collections::VecDeque::swap", "std::iter::Iterator::array_chunks",
    "std::option::Option::unwrap_unchecked", "std::result::Result::unwrap_unchecked", "std::iter::Iterator::sum", "std::iter::Iterator::product",
    "std::num::NonZero::new_unchecked", "std::mem::transmute", "std::mem::zeroed", "std::mem::MaybeUninit::assume_init",
    "std::slice::from_raw_parts", "std::str::from_utf8_unchecked", "std::time::Instant::duration_since", "std::time::Duration::from_secs_f64",
    "std::thread::sleep", "std::sync::Mutex::lock", "std::iter::Iterator::nth_back", "std::iter::repeat_n", "std::iter::Iterator::rev",
}
PANICKY.discard("std::iter::Iterator::rev")
PANIC_ENTRY = ("core::panicking::", "std::rt::panic", "std::rt::begin_panic", "std::panicking::", "core::panic::")


def is_panic_call(c):
    if c.fn is None:
        return False
    p = c.path or ""
    if any(p.startswith(x) for x in PANIC_ENTRY):
        return True
    return False


def callee_name(c):
    if c.fn is None:
        return None
    if c.trait is not None and c.krate in ("std", "core", "alloc"):
        return erase_generics(c.trait) + "::" + (c.name or "")
    return erase_generics(c.path)


class Site:
    def __init__(self, crate, b, v, bb, kind, desc):
        self.crate = crate
        self.b = b
        self.v = v
        self.bb = bb
        self.kind = kind
        self.desc = desc
        self.discharged = None


def census(crate, b, v, local_panicky):
    sites = []
    for bb in sorted(v.reach):
        t = v.blocks[bb]["term"]
        if t["k"] == "assert":
            sites.append(Site(crate, b, v, bb, "assert", t["msg"].split("(")[0] + " check"))
        elif t["k"] == "call":
            c = v.callee(bb)
            if c.fn is None:
                continue
            if is_panic_call(c):
                sites.append(Site(crate, b, v, bb, "panic", "explicit panic (%s)" % "/".join(t.get("macros", [])[:2])))
                continue
            nm = callee_name(c)
            if nm in PANICKY:
                sites.append(Site(crate, b, v, bb, "call", "call of " + nm))
            elif c.krate in ("deserr",) and npath(erase_generics(c.path)) in local_panicky:
                sites.append(Site(crate, b, v, bb, "call", "call of " + npath(erase_generics(c.path)) + " (can panic)"))
    return sites


def local_panicky_fns(crate):
    """library functions that contain an explicit panic of their own (e.g. FieldState::unwrap)"""
    res = set()
    for b in crate.bodies:
        if b.kind not in ("Fn", "AssocFn") or b.impl_trait is not None:
            continue
        v = View(b)
        for bb, c in v.calls():
            if is_panic_call(c):
                res.add(npath(erase_generics(b.path)))
    return res


def acc_some_dominates(v, bs, d):
    """some `acc = Some(..)` assignment of an accumulator dominates block d (or sits earlier in d)"""
    for acc in bs.accumulators():
        for df in v.whole_defs(acc):
            if df[0] != "stmt":
                continue
            rv = df[3]["rv"]
            if rv["k"] == "agg" and rv.get("variant") == "None":
                continue
            t = v.origin_rv(rv, df[1])
            # Some(Continue payload) possibly through a temporary
            if df[1] == d or v.dominates(df[1], d):
                return True
    return False


def acc_none_edge_dominates(v, bs, bb):
    for acc in bs.accumulators():
        for x in v.reach:
            info = v.switch_info(x)
            if info and info["kind"] == "discr" and info["place"] and info["place"]["l"] == acc and not info["place"]["p"]:
                nt = v.variant_target(info, "None")
                st = v.variant_target(info, "Some")
                if nt is not None and nt != st and v.dominates(nt, bb):
                    return True
    return False


def discharge_lib(site, bs):
    """guard rules for the hand-written library impls"""
    v = site.v
    b = site.b
    bb = site.bb
    t = v.blocks[bb]["term"]
    c = v.callee(bb) if t["k"] == "call" else None
    nm = callee_name(c) if c else None
    kind = coll.self_kind(b) if (b.impl_self is not None and b.path == b.root and b.name == "deserialize_from_value") else None
    # C12.ARITY: k-th `iter.next().unwrap()` under a dominating `len != N => return`
    if nm == "std::option::Option::unwrap":
        arg = canon(v, v.origin(t["args"][0]))
        if arg[0] == "next":
            lc = coll._len_check(v, bs)
            if lc and lc["const"][0] == "const" and lc["const"][1] == "int" and lc["op"] in ("Ne", "Eq"):
                n = lc["const"][2]
                good = lc["false"] if lc["op"] == "Ne" else lc["true"]
                nexts = [x for x in bs.nexts if x["kind"] == "Sequence::Iter"]
                if good is not None and v.dominates(good, arg[1]) and len(nexts) <= n and all(loop_of(v, x["bb"]) is None for x in nexts):
                    names, src = coll.iterator_chain(v, arg[1])
                    srcc = canon(v, src)
                    if all(nm2 in coll.ITER_CHAIN_OK for nm2 in names) and strip_refs(lc["seq"]) == srcc:
                        return "C12.ARITY", "step %d of %d under the dominating length check" % (len([x for x in nexts if v.dominates(x["bb"], arg[1])]), n)
        # C12.TUPLEOPT: per-element Option locals: None only after the accumulator became Some; unwrap on its None edge
        if arg[0] == "multi":
            l = arg[1]
            ok = True
            some = 0
            for df in v.whole_defs(l):
                if df[0] != "stmt":
                    ok = False
                    continue
                rv = df[3]["rv"]
                if rv["k"] == "agg" and rv.get("path") == "std::option::Option" and rv.get("variant") == "Some":
                    some += 1
                elif rv["k"] == "agg" and rv.get("path") == "std::option::Option" and rv.get("variant") == "None":
                    if not acc_some_dominates(v, bs, df[1]):
                        ok = False
                else:
                    ok = False
            if ok and some and acc_none_edge_dominates(v, bs, bb):
                return "C12.TUPLEOPT", "None is only assigned after the accumulator became Some; unwrap sits on the accumulator's None edge"
    # C12.TUPLEOPT, path-sensitive form: on every path to this unwrap its argument is known to be Some (helpers expanded;
    # the path on which an element failed has the accumulator Some and leaves before any unwrap)
    root_kind = kind
    root_body = b
    if kind is None and b.root != b.path:
        # a closure of the impl (e.g. `finish(error, || (a.unwrap(), b.unwrap()))`): judged inside the impl it belongs to
        for rb in b.crate.bodies:
            if rb.path == b.root and rb.impl_self is not None and rb.name == "deserialize_from_value":
                root_kind = coll.self_kind(rb)
                root_body = rb
    if nm == "std::option::Option::unwrap" and root_kind == "tuple":
        import inline
        import varpaths
        b = root_body
        ib = inline.inlined(b.crate, b)
        iv = View(ib)
        at = t.get("at")
        cands = [x for x in iv.reach if iv.blocks[x]["term"]["k"] == "call" and iv.blocks[x]["term"].get("at") == at and
                 iv.callee(x) is not None and callee_name(iv.callee(x)) == "std::option::Option::unwrap"]
        if cands and all(varpaths.always_variant(iv, x) is True for x in cands):
            return "C12.TUPLEOPT", "on every path that reaches it the element is Some (a failed element makes the accumulator Some, and that path returns Err before any unwrap)"
        # element steps written with combinators (`T::deserialize_from_value(..).map(Some).or_else(|e| ..)?`): the same with them written out
        eb = inline.combinators_expanded(b.crate, ib)
        if eb is not ib:
            ev = View(eb)
            cands = [x for x in ev.reach if ev.blocks[x]["term"]["k"] == "call" and ev.blocks[x]["term"].get("at") == at and
                     ev.callee(x) is not None and callee_name(ev.callee(x)) == "std::option::Option::unwrap"]
            if cands and all(varpaths.always_variant(ev, x) is True for x in cands):
                return "C12.TUPLEOPT", "on every path that reaches it the element is Some (combinators written out; a failed element makes the accumulator Some, and that path returns Err before any unwrap)"
    # C12.ARRAY: panic on the Err edge of Vec<T>::try_into::<[T; N]>
    if site.kind == "panic" and root_kind == "array":
        und_ = [False]

        def array_guard(v_, bs_, bbs):
            for x in v_.reach:
                cx = v_.callee(x)
                if cx is not None and cx.fn is not None and (cx.name == "try_into" or (cx.name == "try_from" and cx.self_ty is not None and v_.b.crate.types[cx.self_ty]["k"] == "array")):
                    k2, sbb, info, cur = follow_local_use(v_, x, v_.blocks[x]["term"]["dest"]["l"])
                    if k2 == "switch":
                        et = v_.variant_target(info, "Err")
                        okt = v_.variant_target(info, "Ok")
                        if et is not None and et != okt and all(v_.dominates(et, y) for y in bbs) and not bs_.accumulators():
                            # the element faults are recorded somewhere this rule does not see (a captured accumulator that a
                            # closure updates): neither "no element failed here" nor its contrary was read
                            und_[0] = True
                        elif et is not None and et != okt and all(v_.dominates(et, y) for y in bbs) and acc_none_edge_dominates(v_, bs_, x):
                            fs, ob = coll.c_array(v_, bs_)
                            if not fs:
                                return True
                            if all(getattr(f, "undecided", False) for f in fs):
                                und_[0] = True
            return False
        why = "the vector holds exactly N elements here (arity check, one push per element, no element failed)"
        if root_body is b and array_guard(v, bs, [bb]):
            return "C12.ARRAY", why
        # the element loop may live in a helper shared with the other sequence containers, the panic in the closure of an
        # `unwrap_or_else`: judged with helpers expanded and combinators written out
        import inline
        at = t.get("at")
        ib = inline.inlined(root_body.crate, root_body)
        for variant_body in (ib, inline.combinators_expanded(root_body.crate, ib)):
            if variant_body is b:
                continue
            iv = View(variant_body)
            cands = [x for x in iv.reach if iv.blocks[x]["term"].get("at") == at and iv.blocks[x]["term"]["k"] == t["k"]]
            if cands and array_guard(iv, BodySites(iv), cands):
                return "C12.ARRAY", why
        if und_[0]:
            return "C12.UNDECIDED", "the panic sits on the Err edge of the checked conversion, with no element failed; how the vector was filled was not recognised"
    # C12.ITERCOUNT: `i += 1` of a hand-written iteration counter over the payload's own iterator (same bound as Iterator::enumerate)
    if site.kind == "assert" and "Overflow(Add" in t["msg"]:
        import loc as _loc
        for st in v.blocks[bb]["stmts"]:
            if st["k"] == "assign" and st["rv"]["k"] == "binop" and st["rv"]["op"] in ("Add", "AddWithOverflow"):
                a = v.origin(st["rv"]["a"])
                b2 = v.origin(st["rv"]["b"])
                if a[0] == "multi" and b2 == ("const", "int", 1):
                    for nx in bs.nexts:
                        if _loc.loop_of(v, nx["bb"]) is not None and bb in [bd for h, bd in v.loops() if nx["bb"] in bd][0]:
                            uses = [ch["bb"] for ch in bs.children] or [bb]
                            if _loc.is_iteration_counter(v, a[1], nx["bb"], uses[0]):
                                return "C12.ITERCOUNT", "one increment per item of the payload's iterator (the bound Iterator::enumerate relies on)"
    # C12.CHARCOUNT: 2 + chars().count()
    if site.kind == "assert" and "Overflow(Add" in t["msg"]:
        for st in v.blocks[bb]["stmts"]:
            if st["k"] == "assign" and st["rv"]["k"] == "binop":
                a = canon(v, v.origin(st["rv"]["a"]))
                bb_ = canon(v, v.origin(st["rv"]["b"]))
                for x, y in ((a, bb_), (bb_, a)):
                    if x[0] == "const" and x[1] == "int" and 0 <= x[2] <= 16 and y[0] == "call" and call_name(v, y) == "std::iter::Iterator::count":
                        return "C12.CHARCOUNT", "small constant + number of chars of an in-memory string (bounded by isize::MAX)"
    return None


def discharge_value_source(site):
    """serde_json bridge and Infallible"""
    v = site.v
    b = site.b
    st = b.impl_self_str() or ""
    if "std::convert::Infallible" in st and site.kind == "panic":
        return "C12.INFALLIBLE", "the receiver type is uninhabited"
    if site.kind == "panic" and "serde_json::Value" in st and b.name in ("into_value", "kind"):
        # the panic sits after the three representation tests u64 / i64 / f64
        tests = []
        for bb, c in v.calls():
            if c.fn is not None and c.path.startswith("serde_json::Number::") and c.name in ("as_u64", "as_i64", "as_f64", "is_u64", "is_i64", "is_f64"):
                tests.append((bb, c.name))
        kinds = sorted(set(n.split("_")[1] for _, n in tests))
        if kinds == ["f64", "i64", "u64"] and all(site.bb in v.reachable(bb) for bb, _ in tests):
            if not arbitrary_precision_enabled():
                return "C12.JSONNUM", "after as_u64/as_i64/as_f64 all failed; serde_json's arbitrary_precision is not enabled in the workspace"
    # the same ladder written with Option combinators: the panic is the last resort of a chain, in a closure of the function
    # that consults all three accessors (itself or in sibling closures of the same chain)
    if site.kind == "panic" and b.kind == "Closure" and "serde_json::Value" in (b.impl_self_str() or "") :
        kinds = set()
        for ob_ in b.crate.bodies:
            if ob_.root == b.root:
                ov = View(ob_)
                for _bb, c in ov.calls():
                    if c.fn is not None and c.path.startswith("serde_json::Number::") and c.name in ("is_u64", "is_i64", "is_f64", "as_u64", "as_i64", "as_f64"):
                        kinds.add(c.name.split("_")[1])
        if kinds == {"u64", "i64", "f64"} and not arbitrary_precision_enabled():
            return "C12.JSONNUM", "last resort of a chain that consulted as_u64 / as_i64 / as_f64 (one of them answers for every Number without arbitrary_precision)"
    return None


_AP = None


def arbitrary_precision_enabled():
    global _AP
    if _AP is None:
        _AP = False
        for root, dirs, files in os.walk(extract.REPO):
            dirs[:] = [d for d in dirs if d not in ("target", ".git")]
            for f in files:
                if f == "Cargo.toml":
                    try:
                        if "arbitrary_precision" in open(os.path.join(root, f)).read():
                            _AP = True
                    except OSError:
                        pass
    return _AP


def discharge_lensum(site):
    """`a.len() + b.len()`, `"lit".len() + s.len()`, `s.len() + 2`: lengths of objects in memory are at most isize::MAX each, so
    the sum of at most two of them and a small constant fits usize"""
    v = site.v
    t = v.blocks[site.bb]["term"]
    if not (site.kind == "assert" and "Overflow(Add" in t.get("msg", "")):
        return None
    for st in v.blocks[site.bb]["stmts"]:
        if st["k"] == "assign" and st["rv"]["k"] == "binop" and st["rv"]["op"] in ("AddWithOverflow", "Add"):
            lens = 0
            ok = True

            def leaf(tm, depth=0):
                nonlocal lens, ok
                tm = strip_refs(canon(v, tm))
                if tm[0] == "const" and tm[1] == "int" and isinstance(tm[2], int) and 0 <= tm[2] < (1 << 32):
                    return
                if tm[0] == "call" and (call_name(v, tm) or "").split("::")[-1] == "len" and \
                        any((call_name(v, tm) or "").startswith(p_) for p_ in ("std::string::String::len", "core::str::", "std::str::", "str::len", "std::vec::Vec", "core::slice::", "std::slice::", "slice::len", "<[")):
                    lens += 1
                    return
                if tm[0] == "field" and isinstance(tm[1], tuple) and tm[1][0] == "binop" and depth < 2:
                    # a previous checked sum (`(a + b).0`)
                    for o in tm[1][2:4]:
                        if isinstance(o, tuple):
                            leaf(o, depth + 1)
                    return
                ok = False
            leaf(v.origin(st["rv"]["a"]))
            leaf(v.origin(st["rv"]["b"]))
            if ok and lens <= 2:
                return "C12.LENSUM", "sum of at most two in-memory lengths and a small constant (each length is at most isize::MAX)"
    return None


def discharge_error_type(site):
    v = site.v
    t = v.blocks[site.bb]["term"]
    if site.kind == "assert" and "Overflow(Add" in t["msg"]:
        # `*count += 1` in a self-recursive walk over an in-memory slice: at most one increment per element
        selfrec = any(c.fn is not None and c.krate == "deserr" and npath(c.path) == npath(site.b.path) for _, c in v.calls())
        has_slice = any(site.b.crate.types[l_["ty"]]["s"].startswith("&[") for l_ in site.b.locals)
        for st in v.blocks[site.bb]["stmts"]:
            if st["k"] == "assign" and st["rv"]["k"] == "binop" and st["rv"]["op"] in ("AddWithOverflow", "Add"):
                a = v.origin(st["rv"]["a"])
                b2 = canon(v, v.origin(st["rv"]["b"]))
                walks = selfrec or bool(v.loops())
                is_counter = (a[0] == "deref" and a[1][0] == "param") or a[0] == "param" or \
                    (a[0] == "multi" and site.b.ltys(a[1]) == "usize")
                if b2 == ("const", "int", 1) and is_counter and walks and has_slice:
                    return "C12.COUNTER", "one increment per element of an in-memory slice (bounded by isize::MAX)"
    c = v.callee(site.bb) if t["k"] == "call" else None
    if c is not None and callee_name(c) == "std::result::Result::unwrap":
        arg = canon(v, v.origin(t["args"][0]))
        if arg[0] == "call" and call_name(v, arg) == "serde_json::to_string":
            return "C12.SERIALIZE", "serialising a serde_json::Value (string keys) cannot fail (trusted)"
        if arg[0] == "call" and call_name(v, arg) in ("std::fmt::Write::write_fmt", "std::fmt::Write::write_str", "std::fmt::Write::write_char"):
            cw = v.callee(arg[1])
            if cw.self_ty is not None and site.b.crate.tys(cw.self_ty) == "std::string::String":
                return "C12.FMTSTRING", "writing into a String cannot fail (its fmt::Write impl always returns Ok; the formatted values are integers / strings)"
        # the same through `write!(s, ..).and_then(|()| helper(&mut s, ..))` chains and match arms: every fmt::Result that can arrive
        # here was produced by writing into a String
        a0 = t["args"][0]
        if a0["k"] in ("move", "copy") and site.b.crate.tys(a0["place"]["ty"]) == "std::result::Result<(), std::fmt::Error>":
            if _only_string_writes(site.b.crate, site.b, set()):
                return "C12.FMTSTRING", "every fmt::Result made in this function, its closures and the local helpers it calls comes from writing into a String (which cannot fail)"
    return None


FMT_RESULT = "std::result::Result<(), std::fmt::Error>"
FMT_COMBINATORS = ("std::result::Result::and_then", "std::result::Result::map", "std::result::Result::or", "std::result::Result::and", "std::ops::Try::branch",
                   "std::ops::FromResidual::from_residual", "std::result::Result::unwrap", "std::result::Result::expect", "std::ops::FnOnce::call_once",
                   "std::ops::FnMut::call_mut", "std::ops::Fn::call", "std::iter::Iterator::try_for_each", "std::iter::Iterator::try_fold")


def _only_string_writes(crate, body, seen, subst=None):
    subst = subst or {}
    key_ = (body.path, tuple(sorted(subst.items())))
    if key_ in seen:
        return True
    if len(seen) > 16:
        return False
    seen.add(key_)
    v = View(body)
    writes = 0
    for x in v.reach:
        for st in v.blocks[x]["stmts"]:
            if st["k"] == "assign" and st["rv"]["k"] == "agg":
                if st["rv"].get("path") == "std::fmt::Error":
                    return False
                if st["rv"].get("ak") == "closure":
                    cb = next((b2 for b2 in crate.bodies if b2.path == st["rv"].get("path")), None)
                    if cb is not None and not _only_string_writes(crate, cb, seen, subst):
                        return False
        tm = v.blocks[x]["term"]
        if tm["k"] != "call":
            continue
        c = v.callee(x)
        dty = crate.tys(tm["dest"]["ty"]) if tm["dest"].get("ty") is not None else ""
        if c is None or c.fn is None:
            if dty == FMT_RESULT:
                return False
            continue
        nm = callee_name(c)
        if nm in ("std::fmt::Write::write_fmt", "std::fmt::Write::write_str", "std::fmt::Write::write_char"):
            st_ = crate.tys(c.self_ty) if c.self_ty is not None else None
            if subst.get(st_, st_) != "std::string::String":
                return False
            continue
        if dty != FMT_RESULT:
            continue
        if nm in FMT_COMBINATORS:
            continue
        if c.krate == crate.name or c.krate == "deserr":
            hb = next((b2 for b2 in crate.bodies if npath(b2.path) == npath(c.path) and b2.kind in ("Fn", "AssocFn")), None)
            if hb is not None:
                gnames = [g for g in (hb.d.get("generics") or []) if not g.startswith("'")]
                gargs = [g for g in (c.gargs or []) if isinstance(g, int)]
                sub2 = {n_: subst.get(crate.tys(g), crate.tys(g)) for n_, g in zip(gnames, gargs)} if len(gnames) == len(gargs) else {}
                if _only_string_writes(crate, hb, seen, sub2):
                    continue
        return False
    return True


def discharge_derived(site, bs, sk):
    """FieldState::unwrap in the final construction of derived code"""
    v = site.v
    t = v.blocks[site.bb]["term"]
    c = v.callee(site.bb) if t["k"] == "call" else None
    if c is None or c.fn is None or npath(erase_generics(c.path)) != "FieldState::unwrap":
        return None
    nfs = []
    if sk.named is not None:
        nfs.append(sk.named)
    for k, val in sk.variants.items():
        if val[0] == "named":
            nfs.append(val[1])
    arg = canon(v, v.origin(t["args"][0]))
    if not (arg[0] == "call" and call_name(v, arg) == "FieldState::map" and arg[3] and arg[3][0][0] == "multi"):
        return None
    fl = arg[3][0][1]
    for nf in nfs:
        for name, l in nf.F.items():
            if l != fl:
                continue
            if nf.errors or nf.final_test is None or nf.final_test["none"] is None:
                return None
            if not v.dominates(nf.final_test["none"], site.bb):
                return None
            # every Err state is created after the accumulator became Some
            for x in v.reach:
                for st in v.blocks[x]["stmts"]:
                    if st["k"] == "assign" and st["rv"]["k"] == "agg" and npath(st["rv"].get("path", "")) == "FieldState" \
                            and st["rv"]["variant"] == "Err" and x in nf.loop_body and x in skeleton.dominated(v, nf.entry):
                        if not acc_some_dominates(v, bs, x):
                            return None
            init = nf.init.get(name)
            if init is None:
                return None
            if init[0] == "agg" and init[4] == "Some":
                return "C12.FIELDSTATE", "starts Some; arms assign Some, or Err only after the accumulator became Some; built on the accumulator's None edge"
            if init[0] == "agg" and init[4] == "Missing":
                ms = [m for m in nf.missing if m["field"] == name and not m["in_loop"]]
                for m in ms:
                    sw = [s for s in m["sites"] if s.handling == "switched" and s.acc == nf.acc
                          and m["true_t"] is not None and v.postdominates(s.bb, m["true_t"])]
                    if sw and v.dominates(m["bb"], nf.final_test["bb"]):
                        return "C12.FIELDSTATE", "Missing at the end is reported (accumulator Some) before the value is built on the accumulator's None edge"
                return None
    return None


def run(ctx):
    res = PropResult("C12")
    res.level = "other"
    total = 0
    by_rule = {}
    lib = None
    for label, sc, local in scopes(ctx, inline=True):
        lib_crate = [c for c in sc.crates if c.name == "deserr"][0]
        panicky = local_panicky_fns(lib_crate)
        skels = {}
        for c, b, role in sc.members:
            v = sc.view(c, b)
            bs = BodySites(v)
            sites = census(c, b, v, panicky)
            if not sites:
                continue
            sk = None
            if c.name != "deserr":
                root = [r for cc, r in sc.roots if cc is c and r.path == b.root]
                if root:
                    key = (c.name, root[0].path)
                    if key not in skels:
                        rv = sc.view(c, root[0])
                        cl = {}
                        for cb in closures_of(c, root[0]):
                            cv = sc.view(c, cb)
                            cl[cb.path] = (cv, BodySites(cv))
                        skels[key] = (skeleton.extract(rv, BodySites(rv), cl), BodySites(rv))
                    sk = skels[key]
            for s in sites:
                total += 1
                if c.name == "deserr" and npath(erase_generics(b.path)).startswith("FieldState::"):
                    # the panic inside FieldState::unwrap itself is accounted for at its call sites
                    d = ("C12.CALLER", "library helper whose call sites are census items themselves")
                else:
                    d = discharge_lib(s, bs) or discharge_lensum(s)
                    if d is None and sk is not None:
                        d = discharge_derived(s, sk[1], sk[0])
                if d is None:
                    res.findings.append(Finding("C12.SITE", b.path, "%s is not covered by any guard rule" % s.desc,
                                                v.blocks[s.bb]["term"].get("at", "")))
                elif d[0] == "C12.UNDECIDED":
                    res.findings.append(Finding("C12.SITE", b.path, "%s: %s (undecided)" % (s.desc, d[1]), v.blocks[s.bb]["term"].get("at", ""), undecided=True))
                else:
                    by_rule[d[0]] = by_rule.get(d[0], 0) + 1
                    if len(res.samples) < 10 and d[0] not in [x["rule"] for x in res.samples]:
                        res.samples.append({"rule": d[0], "body": b.path, "site": s.desc, "why": d[1]})
        # the library's own value source and built-in error types (default-feature configurations only have serde_json)
        for b in lib_crate.bodies:
            it = npath(b.impl_trait) if b.impl_trait else None
            if it in ("IntoValue", "Map", "Sequence") or (it in ("DeserializeError", "MergeWithError")) or \
                    (b.kind in ("Fn", "Closure") and b.path.startswith("errors::")):
                if b.kind in ("Fn", "AssocFn"):
                    # a private helper that holds part of the function (the number ladder of the bridge, a step of a
                    # description) is judged where it is used, with the guards of its caller
                    import inline
                    b = inline.expand_local_helpers(lib_crate, b)
                v = View(b)
                for s in census(lib_crate, b, v, panicky):
                    total += 1
                    d = discharge_value_source(s) or discharge_error_type(s) or discharge_lensum(s)
                    if d is None:
                        res.findings.append(Finding("C12.SITE", b.path, "%s is not covered by any guard rule" % s.desc,
                                                    v.blocks[s.bb]["term"].get("at", "")))
                    else:
                        by_rule[d[0]] = by_rule.get(d[0], 0) + 1
                        if len(res.samples) < 12 and d[0] not in [x["rule"] for x in res.samples]:
                            res.samples.append({"rule": d[0], "body": b.path, "site": s.desc, "why": d[1]})
    res.rules["C12.SITE"] = [total, total - len(set(f.key() for f in res.findings))]
    import controls

    def ctl_runner(crate, b, v, bs):
        out = []
        for s in census(crate, b, v, set()):
            if discharge_lib(s, bs) is None:
                out.append(Finding("C12.SITE", b.path, "%s is not covered by any guard rule" % s.desc, ""))
        return out
    controls.run(ctx, res, "C12", ctl_runner)
    res.analysed = {"panic_capable_sites": total, "discharged_by_rule": by_rule}
    res.floor("panic-capable sites found by the census", total, 19)
    if not getattr(ctx, "degraded", None):
        res.floor("sites discharged by C12.FIELDSTATE (derived code)", by_rule.get("C12.FIELDSTATE", 0), 100)
    res.floor("sites discharged by C12.ARITY/TUPLEOPT (tuples)", by_rule.get("C12.ARITY", 0) + by_rule.get("C12.TUPLEOPT", 0), 5)
    res.trusted_base = ["rustc nightly MIR construction (overflow/bounds checks appear as Assert terminators)", "mirfacts extractor", "rules/p_c12.py",
                        "curated table of panicking std APIs (PANICKY); other std functions are assumed total",
                        "serde_json: a Number is one of u64/i64/f64 without arbitrary_precision; to_string of a Value cannot fail"]
    res.assumptions = ["Sequence::len equals the number of items its iterator yields", "stack exhaustion by deep nesting, allocation failure, panics inside user functions / the user's error type / a foreign IntoValue impl are out of scope",
                       "derived code: per catalogue entry"]
    res.explanation = ("Census of Assert terminators, explicit panics, calls of panicking std APIs and of panicking library helpers in every body reachable from "
                       "deserialize_from_value (library impls, derive output of the catalogue, the serde_json value source, built-in error types). Each site must match a guard rule: "
                       "ARITY (k-th next().unwrap() under len != N => return), TUPLEOPT / FIELDSTATE (relational typestate 'state is not Some => accumulator is Some', consumed on the accumulator's None edge), "
                       "ARRAY (try_into after exactly N pushes), JSONNUM, INFALLIBLE, SERIALIZE, CHARCOUNT.")
    return res
