"""C16 — the derive rejects what it cannot honour.

Generator-level rules over the MIR of deserr_internal (they hold for *all* derive inputs):
GUARD (merge discipline), ROUTE (parsers only write through merge), READ (every #[deserr] attribute
is folded through merge), VALIDATE, UNKNOWN, SHAPE, NOPANIC; plus the compile-fail witness corpus WIT."""
from analysis import View, strip_refs, erase_generics, term_mentions
from check import PropResult
from lin import Finding
from loc import canon, fmt, call_name
from sites import npath, follow_local_use
import skeleton
import witness

STRUCTS = {
    "field": "attribute_parser::FieldAttributesInfo",
    "container": "attribute_parser::ContainerAttributesInfo",
    "variant": "attribute_parser::VariantAttributesInfo",
}
# fields that are not single-valued attributes, with the reason they are exempt from GUARD
MULTI = {
    "generic_params": "multi-valued: every generic_param is kept (extend)",
    "where_predicates": "multi-valued: every where_predicate is kept (extend)",
    "needs_predicate": "boolean flag: giving it twice means the same as once (|=)",
    "skipped": "boolean flag: giving it twice means the same as once (|=)",
}


def fnd(rule, v, what, bb=None, detail=""):
    at = v.blocks[bb]["term"].get("at", "") if bb is not None else v.b.span
    return Finding(rule, v.b.path, what, at, detail)


def body_of(crate, path):
    for b in crate.bodies:
        if b.path == path:
            return b
    return None


def self_field_of_place(v, place, self_local=1):
    """name of the field F when place denotes (*self).F (directly or through a `&(*self).F` temporary)"""
    p = place["p"]
    if place["l"] == self_local and len(p) >= 2 and p[0]["k"] == "deref" and p[1]["k"] == "field":
        return p[1]["name"]
    if len(p) >= 1 and p[0]["k"] == "deref":
        wd = v.whole_defs(place["l"])
        if len(wd) == 1 and wd[0][0] == "stmt" and wd[0][3]["rv"]["k"] == "ref":
            return self_field_of_place(v, wd[0][3]["rv"]["place"], self_local)
    # through temporaries such as `match (other.x, &self.x)`: resolve the place symbolically
    t = v.origin_place(place)
    n = 0
    while isinstance(t, tuple) and t and t[0] in ("ref", "deref") and n < 6:
        t = t[1]
        n += 1
    if isinstance(t, tuple) and t and t[0] == "field" and t[3] and not t[3].isdigit():
        base = t[1]
        n = 0
        while isinstance(base, tuple) and base and base[0] in ("ref", "deref") and n < 6:
            base = base[1]
            n += 1
        if base == ("param", self_local):
            return t[3]
    return None


def writes_to(v, local, deref):
    """(bb, field name, stmt) for every assignment to a field of `local` (through a deref when it is a reference)"""
    out = []
    for bb in sorted(v.reach):
        for st in v.blocks[bb]["stmts"]:
            if st["k"] != "assign":
                continue
            pl = st["place"]
            if pl["l"] != local:
                continue
            p = pl["p"]
            if deref and len(p) >= 2 and p[0]["k"] == "deref" and p[1]["k"] == "field":
                out.append((bb, p[1]["name"], st))
            elif not deref and len(p) >= 1 and p[0]["k"] == "field":
                out.append((bb, p[0]["name"], st))
    return out


def mut_refs_of_fields(v, local, deref):
    """(bb, field) for `&mut local.F` / `&mut (*local).F` borrows"""
    out = []
    for bb in sorted(v.reach):
        for st in v.blocks[bb]["stmts"]:
            if st["k"] == "assign" and st["rv"]["k"] == "ref" and st["rv"]["bk"] == "mut":
                pl = st["rv"]["place"]
                if pl["l"] != local:
                    continue
                p = pl["p"]
                if deref and len(p) >= 2 and p[0]["k"] == "deref" and p[1]["k"] == "field":
                    out.append((bb, p[1]["name"], st["place"]["l"]))
                elif not deref and len(p) >= 1 and p[0]["k"] == "field":
                    out.append((bb, p[0]["name"], st["place"]["l"]))
    return out


def err_region_ok(v, start, self_local=1, deref=True):
    """the region dominated by `start` returns Err(..) and writes nothing to self"""
    reg = skeleton.dominated(v, start)
    has_err = False
    for bb in reg:
        for st in v.blocks[bb]["stmts"]:
            if st["k"] == "assign" and st["place"]["l"] == 0 and not st["place"]["p"]:
                rv = st["rv"]
                if rv["k"] == "agg" and rv.get("variant") == "Err":
                    has_err = True
                else:
                    return False
            if st["k"] == "assign" and st["place"]["l"] == self_local and st["place"]["p"]:
                return False
    return has_err


def straight_line_near(v, a, b, limit=14):
    """b is a or lies on the unconditional continuation of a (or vice versa)"""
    for x, y in ((a, b), (b, a)):
        cur = x
        n = 0
        while n < limit:
            if cur == y:
                return True
            s = v.succ[cur]
            if len(s) != 1:
                break
            cur = s[0]
            n += 1
    return False


# ------------------------------------------------------------------------------ GUARD
def guard_rules(crate, level):
    path = STRUCTS[level] + "::merge"
    b = body_of(crate, path)
    if b is None:
        return [Finding("C16.GUARD", path, "merge function not found", "")], 1, {}
    v = View(b)
    out = []
    ob = 0
    adt = crate.adts.get(STRUCTS[level])
    fields = adt["variants"][0]["fields"] if adt else []
    # witness tests: switches on (*self).G whose 'set' edge returns Err
    tests = []   # (bb, G, unset target, set target ok)
    for bb in sorted(v.reach):
        info = v.switch_info(bb)
        if not info or info["kind"] != "discr" or info["place"] is None:
            continue
        g = self_field_of_place(v, info["place"])
        if g is None:
            continue
        set_t = v.variant_target(info, "Some")
        if set_t is None:
            set_t = v.variant_target(info, "Internal")
        unset = [t for lb, t in info["edges"] if t != set_t and t not in v.unreach]
        if set_t is None or not unset:
            continue
        tests.append((bb, g, unset[0], err_region_ok(v, set_t)))
    wr = writes_to(v, 1, True)
    written = {}
    for bb, f, st in wr:
        written.setdefault(f, []).append((bb, st))
    # multi-valued fields are extended through &mut
    for bb, f, l in mut_refs_of_fields(v, 1, True):
        written.setdefault(f, []).append((bb, None))
    info_table = {}
    for f in fields:
        ob += 1
        fty = None
        if f not in written:
            if f.endswith("_span"):
                continue  # checked as witness below
            out.append(fnd("C16.GUARD", v, "attribute field `%s` is not carried over by merge (an attribute given in a second #[deserr(..)] is dropped)" % f))
            continue
        if f in MULTI:
            info_table[f] = MULTI[f]
            continue
        if f.endswith("_span"):
            continue
        for bb, st in written[f]:
            if st is None:
                out.append(fnd("C16.GUARD", v, "single-valued attribute `%s` is modified in place" % f, bb))
                continue
            # the value comes from other.F
            src = v.origin_rv(st["rv"], bb)
            if not term_mentions(src, lambda t: t[0] == "field" and t[3] == f and (t[1] == ("param", 2) or (t[1][0] == "downcast" and t[1][1] == ("param", 2))) or
                                 (t[0] == "downcast" and t[1][0] == "field" and t[1][3] == f)):
                if not _mentions_other_field(src, f):
                    out.append(fnd("C16.GUARD", v, "`self.%s` is not set from `other.%s`" % (f, f), bb, fmt(src)))
            # dominated by the unset edge of a witness test whose set edge returns Err
            doms = [(tb, g) for (tb, g, unset, ok) in tests if ok and (unset == bb or v.dominates(unset, bb))]
            if not doms:
                out.append(fnd("C16.GUARD", v, "`self.%s` can be overwritten: no 'already set => error' test guards the assignment" % f, bb))
                continue
            # the witness is maintained
            good = False
            for tb, g in doms:
                if g == f:
                    good = True
                else:
                    for bb2, st2 in written.get(g, []):
                        if st2 is not None and straight_line_near(v, bb, bb2):
                            s2 = v.origin_rv(st2["rv"], bb2)
                            if _mentions_other_field(s2, g):
                                good = True
            if not good:
                out.append(fnd("C16.GUARD", v, "the 'already set' test for `%s` reads a field (%s) that merge never sets: a second occurrence is silently accepted" % (
                    f, ", ".join(sorted(set(g for _, g in doms)))), bb))
            info_table[f] = "guarded by " + ",".join(sorted(set(g for _, g in doms)))
            # mutual exclusion from / try_from
            if f in ("from", "try_from"):
                other = "try_from" if f == "from" else "from"
                if not any(g == other for _, g in doms):
                    out.append(fnd("C16.GUARD", v, "`%s` can be set although `%s` is already set (they cannot be honoured together)" % (f, other), bb))
    # span witnesses that are tested must be written
    for tb, g, unset, ok in tests:
        if g.endswith("_span") and g not in written:
            out.append(fnd("C16.GUARD", v, "witness `%s` is tested but never recorded" % g, tb))
    return out, ob, info_table


def _mentions_other_field(term, f):
    def pred(t):
        if t[0] == "field" and t[3] == f:
            base = t[1]
            while isinstance(base, tuple) and base[0] in ("downcast", "field", "deref", "ref"):
                if base == ("param", 2):
                    return True
                base = base[1]
            return base == ("param", 2)
        return False
    # other.F is moved out through `(_2.F as Some).0`: field(field(param2, None, F), 'Some', '0') or field(param2,..,F)
    def pred2(t):
        return t[0] == "field" and t[3] == f and _root(t[1]) == ("param", 2)
    return term_mentions(term, pred2)


def _root(t):
    while isinstance(t, tuple) and t and t[0] in ("field", "downcast", "deref", "ref"):
        t = t[1]
    return t


# ------------------------------------------------------------------------------ ROUTE
def route_rules(crate, level):
    name = STRUCTS[level]
    path = "<%s as syn::parse::Parse>::parse" % name
    b = body_of(crate, path)
    if b is None:
        return [Finding("C16.ROUTE", path, "attribute parser not found", "")], 1
    v = View(b)
    out = []
    ob = 0
    struct_locals = [i for i, l in enumerate(b.locals) if crate.types[l["ty"]]["s"] == name]
    # the accumulated value: the one returned in Ok
    acc = None
    for bb in v.reach:
        for st in v.blocks[bb]["stmts"]:
            if st["k"] == "assign" and st["place"]["l"] == 0 and st["rv"]["k"] == "agg" and st["rv"].get("variant") == "Ok":
                t = v.origin(st["rv"]["ops"][0])
                if t[0] in ("multi", "call"):
                    for l in struct_locals:
                        if t == ("multi", l) or (t[0] == "call" and v.whole_defs(l) and v.whole_defs(l)[0][0] == "call" and v.whole_defs(l)[0][1] == t[1]):
                            acc = l
    ob += 1
    if acc is None:
        return [fnd("C16.ROUTE", v, "cannot find the accumulated attributes value returned by the parser")], ob
    # every successful return hands back the accumulated value itself (what merge checked), nothing rebuilt from it
    for bb in sorted(v.reach):
        for st in v.blocks[bb]["stmts"]:
            if st["k"] == "assign" and st["place"]["l"] == 0 and st["rv"]["k"] == "agg" and st["rv"].get("variant") == "Ok":
                ob += 1
                t = v.origin(st["rv"]["ops"][0])
                same = t == ("multi", acc) or (t[0] == "call" and v.whole_defs(acc) and v.whole_defs(acc)[0][0] == "call" and v.whole_defs(acc)[0][1] == t[1])
                if not same:
                    out.append(fnd("C16.ROUTE", v, "the parser can return attributes other than the merged ones (what the duplicate / conflict checks saw is not what is used)", bb, fmt(t)))
    merges = [bb for bb, c in v.calls() if c.fn is not None and npath(c.path) == npath(name + "::merge")]
    ob += 1
    if not merges:
        out.append(fnd("C16.ROUTE", v, "the parser never calls merge: duplicates inside one #[deserr(..)] are not detected"))
    # no direct write to / borrow of the accumulated value other than `&mut acc` for merge
    for bb, f, st in writes_to(v, acc, False):
        ob += 1
        out.append(fnd("C16.ROUTE", v, "attribute `%s` is written straight into the accumulated value (bypassing merge's duplicate detection)" % f, bb))
    for bb, f, l in mut_refs_of_fields(v, acc, False):
        ob += 1
        out.append(fnd("C16.ROUTE", v, "attribute `%s` is modified in place on the accumulated value (bypassing merge)" % f, bb))
    # every per-item value that is written is handed to merge before the next item / the end
    loop_headers = [h for h, body in v.loops()]
    ok_blocks = [bb for bb in v.reach for st in v.blocks[bb]["stmts"]
                 if st["k"] == "assign" and st["place"]["l"] == 0 and st["rv"]["k"] == "agg" and st["rv"].get("variant") == "Ok"]
    for l in struct_locals:
        if l == acc:
            continue
        for bb, f, st in writes_to(v, l, False):
            ob += 1
            reach = v.reachable(bb, barrier=merges)
            # the write block itself is the start; leaving it towards the loop header / Ok without passing merge is a leak
            bad = [x for x in reach if (x in loop_headers or x in ok_blocks) and x != bb]
            if bad:
                out.append(fnd("C16.ROUTE", v, "attribute `%s` parsed into a per-item value can reach the next item / the end without being merged" % f, bb))
        for bb, f, rl in mut_refs_of_fields(v, l, False):
            ob += 1
            reach = v.reachable(bb, barrier=merges)
            bad = [x for x in reach if (x in loop_headers or x in ok_blocks) and x != bb]
            if bad:
                out.append(fnd("C16.ROUTE", v, "attribute `%s` collected into a per-item value can reach the next item / the end without being merged" % f, bb))
    # merge receives (&mut acc, move other) and its error is propagated
    for mb in merges:
        ob += 1
        t = v.blocks[mb]["term"]
        a0 = strip_refs(v.origin(t["args"][0]))
        if not (a0 == ("multi", acc) or (a0[0] == "call" and v.whole_defs(acc)[0][0] == "call" and a0[1] == v.whole_defs(acc)[0][1])):
            out.append(fnd("C16.ROUTE", v, "merge is not applied to the accumulated value", mb))
        if not _question_marked(v, mb):
            out.append(fnd("C16.ROUTE", v, "the error returned by merge is not propagated", mb))
    return out, ob


def _question_marked(v, call_bb):
    """the Result returned by the call goes through `?` (Try::branch, Break edge -> from_residual -> return)"""
    d = v.blocks[call_bb]["term"]["dest"]["l"]
    kind, bb, info, cur = follow_local_use(v, call_bb, d)
    if kind == "call":
        c = v.callee(bb)
        if c.fn is not None and c.trait and erase_generics(c.trait) == "std::ops::Try" and c.name == "branch":
            k2, b2, info2, cur2 = follow_local_use(v, bb, v.blocks[bb]["term"]["dest"]["l"])
            if k2 == "switch":
                brk = v.variant_target(info2, "Break")
                if brk is not None:
                    reg = v.reachable(brk)
                    return any(v.callee(x) is not None and v.callee(x).fn is not None and v.callee(x).name == "from_residual" and v.blocks[x]["term"]["dest"]["l"] == 0 for x in reg)
    if kind == "switch":
        # `match r { Ok(..) => .., Err(e) => return Err(e) }`
        et = v.variant_target(info, "Err")
        if et is not None:
            return err_region_ok(v, et, self_local=-1)
    return False


# ------------------------------------------------------------------------------ READ
def read_rules(crate, level):
    fn = {"field": "attribute_parser::read_deserr_field_attributes", "container": "attribute_parser::read_deserr_container_attributes",
          "variant": "attribute_parser::read_deserr_variant_attributes"}[level]
    name = STRUCTS[level]
    b = body_of(crate, fn)
    if b is None:
        return [Finding("C16.READ", fn, "attribute reader not found", "")], 1
    v = View(b)
    out = []
    ob = 3
    parse = [bb for bb, c in v.calls() if c.fn is not None and c.path == "syn::Attribute::parse_args" and name in c.full]
    merges = [bb for bb, c in v.calls() if c.fn is not None and npath(c.path) == npath(name + "::merge")]
    nexts = [bb for bb, c in v.calls() if c.fn is not None and c.name == "next" and c.trait and erase_generics(c.trait) == "std::iter::Iterator"]
    if len(parse) != 1 or len(merges) != 1 or len(nexts) != 1:
        return [fnd("C16.READ", v, "expected one loop with one parse_args and one merge (found %d/%d/%d)" % (len(nexts), len(parse), len(merges)))], ob
    pb, mb, nb = parse[0], merges[0], nexts[0]
    # loop over the attribute slice given as parameter
    it = canon(v, v.origin(v.blocks[nb]["term"]["args"][0]))
    if not term_mentions(it, lambda t: t == ("param", 1)):
        out.append(fnd("C16.READ", v, "the loop does not run over the item's attributes", nb))
    # parse_args(this attribute)?  then merge(&mut acc, parsed)?
    a = strip_refs(canon(v, v.origin(v.blocks[pb]["term"]["args"][0])))
    if not (a[0] == "field" and a[1][0] == "next" and a[1][1] == nb):
        out.append(fnd("C16.READ", v, "parse_args is not applied to the attribute of the current iteration", pb, fmt(a)))
    if not _question_marked(v, pb):
        out.append(fnd("C16.READ", v, "a malformed #[deserr(..)] attribute is not reported (parse_args error not propagated)", pb))
    o = canon(v, v.origin(v.blocks[mb]["term"]["args"][1]))
    if not term_mentions(o, lambda t: t[0] == "call" and t[1] == pb):
        out.append(fnd("C16.READ", v, "what is merged is not the freshly parsed attribute", mb, fmt(o)))
    if not _question_marked(v, mb):
        out.append(fnd("C16.READ", v, "the error returned by merge is not propagated", mb))
    # the only way to skip an attribute: its path is not the single identifier `deserr`
    ob += 1
    body = None
    for h, bd in v.loops():
        if nb in bd:
            body = bd
    if body is None:
        out.append(fnd("C16.READ", v, "attributes are not visited in a loop", nb))
        return out, ob
    skip_ok = set()
    for bb, c in v.calls():
        if bb in body and c.fn is not None and c.name in ("ne", "eq") and "Ident" in c.full:
            t = v.blocks[bb]["term"]
            k = strip_refs(canon(v, v.origin(t["args"][1])))
            if k == ("const", "str", "deserr"):
                skip_ok.add(bb)
            else:
                out.append(fnd("C16.READ", v, "attributes are filtered by comparing with %s instead of `deserr`" % fmt(k), bb))
    if not skip_ok:
        out.append(fnd("C16.READ", v, "no comparison of the attribute path with `deserr` found"))
    # branches inside the loop before parse_args: only get_ident()==None and the deserr comparison
    for bb in sorted(body):
        info = v.switch_info(bb)
        if not info or bb == nb:
            continue
        if not (pb in v.reachable(bb)):
            continue
        if v.dominates(pb, bb):
            continue
        src = info.get("src")
        okb = False
        if info["kind"] == "discr" and info["place"] is not None:
            t = canon(v, v.origin_place(info["place"]))
            if t[0] == "next" or (t[0] == "call" and call_name(v, t) == "syn::Path::get_ident"):
                okb = True
        elif info["kind"] == "bool":
            d = v.blocks[bb]["term"]["discr"]
            t = canon(v, v.origin(d))
            if t[0] == "call" and t[1] in skip_ok:
                okb = True
        if not okb:
            out.append(fnd("C16.READ", v, "an attribute can be skipped for a reason other than 'its path is not `deserr`'", bb))
    return out, ob


# ------------------------------------------------------------------------------ UNKNOWN
def unknown_rules(crate, level):
    name = STRUCTS[level]
    path = "<%s as syn::parse::Parse>::parse" % name
    b = body_of(crate, path)
    if b is None:
        return [], 0
    v = View(b)
    out = []
    ob = 1
    disps = skeleton.string_dispatches(v)
    disps = [d for d in disps if len(d.tests) >= 2]
    if len(disps) != 1:
        return [fnd("C16.UNKNOWN", v, "cannot find the match on the attribute name")], ob
    d = disps[0]
    names = [c for (_, c, _, _) in d.tests]
    if d.fallback is None or not err_region_ok(v, d.fallback, self_local=-1):
        out.append(fnd("C16.UNKNOWN", v, "an unknown attribute name does not lead to a compile error", d.fallback))
    else:
        reg = skeleton.dominated(v, d.fallback)
        struct_locals = [i for i, l in enumerate(b.locals) if crate.types[l["ty"]]["s"] == name]
        for bb in reg:
            for st in v.blocks[bb]["stmts"]:
                if st["k"] == "assign" and st["place"]["l"] in struct_locals and st["place"]["p"]:
                    out.append(fnd("C16.UNKNOWN", v, "an unknown attribute name sets an attribute", bb))
    # 'Expected end of attribute'
    ob += 1
    has = False
    for bb, c in v.calls():
        if c.fn is not None and c.path.startswith("syn::Error::new"):
            t = canon(v, v.origin_call(bb))
            if term_mentions(t, lambda x: x[0] == "const" and x[1] == "str" and x[2] == "Expected end of attribute"):
                has = True
    if not has:
        out.append(fnd("C16.UNKNOWN", v, "trailing tokens after an attribute item are not rejected ('Expected end of attribute')"))
    return out, ob, names


def rename_all_rules(crate):
    b = body_of(crate, "attribute_parser::parse_rename_all")
    if b is None:
        return [Finding("C16.UNKNOWN", "parse_rename_all", "not found", "")], 1
    v = View(b)
    disps = [d for d in skeleton.string_dispatches(v) if d.tests]
    if len(disps) != 1:
        return [fnd("C16.UNKNOWN", v, "cannot find the match on the rename_all value")], 1
    d = disps[0]
    vals = sorted(c for (_, c, _, _) in d.tests)
    out = []
    if vals != ["camelCase", "lowercase"]:
        out.append(fnd("C16.UNKNOWN", v, "rename_all accepts %s" % vals))
    if d.fallback is None or not err_region_ok(v, d.fallback, self_local=-1):
        out.append(fnd("C16.UNKNOWN", v, "an invalid rename_all value does not lead to a compile error"))
    return out, 1


# ------------------------------------------------------------------------------ VALIDATE
def validate_rules(crate):
    out = []
    ob = 0
    b = body_of(crate, "attribute_parser::validate_container_attributes")
    if b is None:
        return [Finding("C16.VALIDATE", "validate_container_attributes", "not found", "")], 1
    v = View(b)
    # table of (guard, witness) pairs that return Err
    pairs = set()
    guards = {}
    for bb in sorted(v.reach):
        info = v.switch_info(bb)
        if not info:
            continue
        if info["kind"] == "discr" and info["place"] is not None:
            g = self_field_of_place(v, info["place"])
            if g is not None:
                st = v.variant_target(info, "Some")
                if st is not None and err_region_ok(v, st, self_local=-1):
                    guards[bb] = g
    # try_from.is_some()
    for bb, c in v.calls():
        if c.fn is not None and c.base() == "std::option::Option::is_some":
            a = strip_refs(v.origin(v.blocks[bb]["term"]["args"][0]))
            if a[0] == "field" and a[3] == "try_from":
                info = v.switch_info(v.blocks[bb]["term"]["target"])
                if info and info["kind"] == "bool":
                    tt = v.edge_target(info, True)
                    for gb, g in guards.items():
                        if tt is not None and v.dominates(tt, gb):
                            pairs.add(("try_from", g))
    # Data::Struct
    for bb in sorted(v.reach):
        info = v.switch_info(bb)
        if info and info["kind"] == "discr" and info.get("adt") == "syn::Data":
            st = v.variant_target(info, "Struct")
            for gb, g in guards.items():
                if st is not None and v.dominates(st, gb) and not all(v.dominates(t, gb) for lb, t in info["edges"] if t != st and t not in v.unreach):
                    pairs.add(("struct", g))
            # `matches!(data, Data::Struct(..))`: a bool temporary set to true only under the Struct edge
            if st is not None:
                for l in range(len(v.b.locals)):
                    if v.b.ltys(l) != "bool":
                        continue
                    wd = v.whole_defs(l)
                    trues = [d for d in wd if d[0] == "stmt" and d[3]["rv"]["k"] == "use" and d[3]["rv"]["op"].get("bool") is True]
                    falses = [d for d in wd if d[0] == "stmt" and d[3]["rv"]["k"] == "use" and d[3]["rv"]["op"].get("bool") is False]
                    if not trues or len(trues) + len(falses) != len(wd):
                        continue
                    if not all(v.dominates(st, d[1]) for d in trues) or any(v.dominates(st, d[1]) for d in falses):
                        continue
                    for b2 in sorted(v.reach):
                        i2 = v.switch_info(b2)
                        if i2 and i2["kind"] == "bool":
                            dd = v.blocks[b2]["term"]["discr"]
                            if dd["k"] in ("copy", "move") and dd["place"]["l"] == l and not dd["place"]["p"]:
                                tt2 = v.edge_target(i2, True)
                                for gb, g in guards.items():
                                    if tt2 is not None and v.dominates(tt2, gb):
                                        pairs.add(("struct", g))
    for want in (("try_from", "rename_all_span"), ("try_from", "tag_span"), ("try_from", "deny_unknown_fields_span"), ("struct", "tag_span")):
        ob += 1
        if want not in pairs:
            out.append(fnd("C16.VALIDATE", v, "the combination %s + %s is not rejected" % (want[0], want[1].replace("_span", ""))))
    # called, ?-propagated and dominating every use of the attributes
    p = body_of(crate, "parse_type::DerivedTypeInfo::parse")
    ob += 1
    if p is None:
        out.append(Finding("C16.VALIDATE", "DerivedTypeInfo::parse", "not found", ""))
        return out, ob
    pv = View(p)
    vc = [bb for bb, c in pv.calls() if c.fn is not None and c.path == "attribute_parser::validate_container_attributes"]
    rc = [bb for bb, c in pv.calls() if c.fn is not None and c.path == "attribute_parser::read_deserr_container_attributes"]
    if len(vc) != 1 or len(rc) != 1:
        out.append(fnd("C16.VALIDATE", pv, "validate_container_attributes / read_deserr_container_attributes are not called exactly once"))
        return out, ob
    a0 = canon(pv, pv.origin(pv.blocks[vc[0]]["term"]["args"][0]))
    if not term_mentions(a0, lambda t: t[0] == "call" and t[1] == rc[0]):
        out.append(fnd("C16.VALIDATE", pv, "validate_container_attributes is not applied to the merged container attributes", vc[0], fmt(a0)))
    if not _question_marked(pv, vc[0]) or not _question_marked(pv, rc[0]):
        out.append(fnd("C16.VALIDATE", pv, "an attribute error is not propagated as a compile error", vc[0]))
    for bb, c in pv.calls():
        if c.fn is not None and c.path in ("parse_type::NamedFieldsInfo::parse", "attribute_parser::read_deserr_variant_attributes"):
            ob += 1
            if not pv.dominates(vc[0], bb):
                out.append(fnd("C16.VALIDATE", pv, "the derive input is processed before its container attributes were validated", bb))
    return out, ob


# ------------------------------------------------------------------------------ SHAPE
def shape_rules(crate):
    out = []
    ob = 0
    p = body_of(crate, "parse_type::DerivedTypeInfo::parse")
    pv = View(p)
    ok_blocks = set(bb for bb in pv.reach for st in pv.blocks[bb]["stmts"]
                    if st["k"] == "assign" and st["place"]["l"] == 0 and st["rv"]["k"] == "agg" and st["rv"].get("variant") == "Ok")
    seen = set()
    for bb in sorted(pv.reach):
        info = pv.switch_info(bb)
        if not info or info["kind"] != "discr":
            continue
        adt = info.get("adt")
        if adt == "syn::Fields":
            for var in ("Unnamed",) + (("Unit",) if _is_struct_fields_switch(pv, bb) else ()):
                ob += 1
                t = pv.variant_target(info, var)
                seen.add(("Fields", var, _is_struct_fields_switch(pv, bb)))
                if t is None or (pv.reachable(t) & ok_blocks) or not err_region_ok(pv, t, self_local=-1):
                    out.append(fnd("C16.SHAPE", pv, "fields of shape %s are not rejected with a compile error" % var, bb))
        if adt == "syn::Data":
            ob += 1
            t = pv.variant_target(info, "Union")
            seen.add(("Data", "Union", True))
            if t is None or (pv.reachable(t) & ok_blocks) or not err_region_ok(pv, t, self_local=-1):
                out.append(fnd("C16.SHAPE", pv, "unions are not rejected with a compile error", bb))
    for want in (("Fields", "Unnamed", True), ("Fields", "Unit", True), ("Fields", "Unnamed", False), ("Data", "Union", True)):
        ob += 1
        if want not in seen:
            out.append(fnd("C16.SHAPE", pv, "no rejection found for %s" % (want,)))
    # derive_deserialize
    d = body_of(crate, "derive_deserialize")
    dv = View(d)
    ob += 3
    unt = [bb for bb, c in dv.calls() if c.fn is not None and c.path == "derive_enum::generate_derive_untagged_enum_impl"]
    alls = [bb for bb, c in dv.calls() if c.fn is not None and c.name == "all" and c.trait and erase_generics(c.trait) == "std::iter::Iterator"]
    tce = [bb for bb, c in dv.calls() if c.fn is not None and c.path == "syn::Error::to_compile_error"]
    if len(unt) != 1 or len(alls) != 1:
        out.append(fnd("C16.SHAPE", dv, "cannot find the 'all variants are unit' guard of the untagged implementation"))
    else:
        info = dv.switch_info(dv.blocks[alls[0]]["term"]["target"])
        tt = dv.edge_target(info, True) if info and info["kind"] == "bool" else None
        ft = dv.edge_target(info, False) if info and info["kind"] == "bool" else None
        if tt is None or not dv.dominates(tt, unt[0]):
            out.append(fnd("C16.SHAPE", dv, "an untagged implementation can be generated for an enum with data-carrying variants", unt[0]))
        if ft is None or not any(x in dv.reachable(ft) for x in tce) or unt[0] in dv.reachable(ft):
            out.append(fnd("C16.SHAPE", dv, "a data-carrying enum without tag is not rejected with a compile error", alls[0]))
        # the predicate of `all` is `matches!(variant.data, VariantData::Unit)`
        cl = body_of(crate, "derive_deserialize::{closure#0}")
        if cl is not None:
            cv = View(cl)
            okp = False
            for bb in cv.reach:
                i2 = cv.switch_info(bb)
                if i2 and i2["kind"] == "discr" and i2.get("adt") == "parse_type::VariantData":
                    ut = cv.variant_target(i2, "Unit")
                    okp = ut is not None
            if not okp:
                out.append(fnd("C16.SHAPE", cv, "the untagged guard does not test for unit variants"))
    # Err(e) of DerivedTypeInfo::parse -> to_compile_error
    pc = [bb for bb, c in dv.calls() if c.fn is not None and c.path == "parse_type::DerivedTypeInfo::parse"]
    if len(pc) != 1:
        out.append(fnd("C16.SHAPE", dv, "DerivedTypeInfo::parse is not called exactly once"))
    else:
        k, sbb, info, cur = follow_local_use(dv, pc[0], dv.blocks[pc[0]]["term"]["dest"]["l"])
        et = dv.variant_target(info, "Err") if k == "switch" else None
        if et is None or not any(x in skeleton.dominated(dv, et) for x in tce):
            out.append(fnd("C16.SHAPE", dv, "an error of the derive's analysis is not turned into a compile error", pc[0]))
    return out, ob


def _is_struct_fields_switch(v, bb):
    """the Fields switch of the struct arm (Unit is also an error there); the variant arm accepts Unit"""
    info = v.switch_info(bb)
    t = v.origin_place(info["place"])
    # struct fields come from `s.fields` of Data::Struct; variant fields from `variant.fields`
    return term_mentions(t, lambda x: x[0] == "field" and x[2] == "Struct") or term_mentions(t, lambda x: x[0] == "downcast" and x[2] == "Struct")


# ------------------------------------------------------------------------------ NOPANIC
def nopanic_rules(crate, guard_ok):
    import p_c12
    out = []
    ob = 0
    by = {}
    for b in crate.bodies:
        if b.impl_trait and any(x in b.impl_trait for x in ("fmt::Debug", "clone::Clone", "default::Default")):
            continue
        v = View(b)
        for s in p_c12.census(crate, b, v, set()):
            ob += 1
            t = v.blocks[s.bb]["term"]
            c = v.callee(s.bb) if t["k"] == "call" else None
            rule = None
            if s.kind == "panic":
                # unreachable!("Can't use a try_for + a for together.") under (Some, Some) of (try_from, from)
                msg = canon(v, v.origin_call(s.bb))
                if term_mentions(msg, lambda x: x[0] == "const" and x[1] == "str" and "try_for" in x[2]) and guard_ok:
                    rule = "C16.NOPANIC/EXCLUSIVE"
                elif _in_macro(t, ("parse_quote", "quote", "parse_macro_input", "format_ident")):
                    rule = "C16.NOPANIC/TEMPLATE"
            elif c is not None and p_c12.callee_name(c) == "std::option::Option::unwrap":
                a = canon(v, v.origin(t["args"][0]))
                if term_mentions(a, lambda x: x[0] == "field" and x[3] == "ident"):
                    rule = "C16.NOPANIC/NAMED"      # fields of Fields::Named always have an identifier (syn invariant)
                elif term_mentions(a, lambda x: x[0] == "field" and x[3] == "where_clause"):
                    # dominated by make_where_clause()
                    mk = [bb for bb, cc in v.calls() if cc.fn is not None and cc.path == "syn::Generics::make_where_clause"]
                    if mk and all(v.dominates(m, s.bb) for m in mk[:1]):
                        rule = "C16.NOPANIC/WHERE"
            if rule is None and _in_macro(t, ("parse_quote", "quote", "parse_macro_input", "format_ident", "quote_spanned")):
                rule = "C16.NOPANIC/TEMPLATE"
            if rule is None:
                out.append(fnd("C16.NOPANIC", v, "%s in the derive macro is not covered by a guard rule" % s.desc, s.bb))
            else:
                by[rule] = by.get(rule, 0) + 1
    return out, ob, by


def _in_macro(t, names):
    ms = t.get("macros") or []
    return any(any(n in m for n in names) for m in ms)


def run(ctx):
    res = PropResult("C16")
    res.level = "proof"
    crate = ctx.libcrate("deserr_internal")
    guard_ok = True
    tables = {}
    for level in ("field", "container", "variant"):
        fs, ob, table = guard_rules(crate, level)
        res.add("C16.GUARD", ob, fs)
        tables[level] = table
        if any("from" in f.what for f in fs):
            guard_ok = False
        fs, ob = route_rules(crate, level)
        res.add("C16.ROUTE", ob, fs)
        if fs:
            guard_ok = False
        fs, ob = read_rules(crate, level)
        res.add("C16.READ", ob, fs)
        r = unknown_rules(crate, level)
        res.add("C16.UNKNOWN", r[1], r[0])
        if len(r) > 2:
            tables[level + "_names"] = r[2]
    fs, ob = rename_all_rules(crate)
    res.add("C16.UNKNOWN", ob, fs)
    fs, ob = validate_rules(crate)
    res.add("C16.VALIDATE", ob, fs)
    fs, ob = shape_rules(crate)
    res.add("C16.SHAPE", ob, fs)
    fs, ob, by = nopanic_rules(crate, guard_ok)
    res.add("C16.NOPANIC", ob, fs)
    # staleness guard: attribute names known to the parsers = the table the witness corpus was written for
    want_names = {"field_names": ["rename", "default", "missing_field_error", "needs_predicate", "error", "map", "from", "try_from", "skip"],
                  "container_names": ["rename_all", "tag", "error", "deny_unknown_fields", "from", "try_from", "validate", "generic_param", "where_predicate"],
                  "variant_names": ["rename", "rename_all"]}
    stale = []
    for k, want in want_names.items():
        got = tables.get(k)
        if got is not None and sorted(got) != sorted(want):
            stale.append(Finding("C16.STALE", k, "the attribute parser knows %s, the witness corpus / rules were written for %s: new attributes are not covered" % (sorted(got), sorted(want)), ""))
    res.add("C16.STALE", 3, stale)
    # witnesses
    results, meta = witness.run(ctx, crate)
    wfs = []
    for r in results:
        if r["role"] == "poisoned" and r["verdict"] != "rejected":
            wfs.append(Finding("C16.WIT", r["witness"], "derive input poisoned with `%s` (%s level) is %s%s" % (
                r["cause"], r["level"], {"ACCEPTED": "accepted silently", "PANIC": "answered with a panic", "REJECTED-BY-RUSTC-ONLY": "only rejected by later type checking, not by a diagnostic of the derive",
                                         "NO-DIAGNOSTIC": "rejected without diagnostic"}.get(r["verdict"], r["verdict"]),
                (": " + r["diagnostic"]) if r["diagnostic"] else ""), ""))
        if r["role"] == "twin" and r["verdict"] != "compiles":
            wfs.append(Finding("C16.WIT", r["witness"], "the compiling twin of witness `%s` does not compile: %s" % (r["witness"], r["diagnostic"]), ""))
    res.add("C16.WIT", len(results), wfs)
    # Verdict policy.  The witnesses are independent of how the parsers are written: rustc's accept / reject verdict on ~120
    # poisoned inputs.  The generator-level rules above read the parsers' MIR and extend the verdict to all inputs, but only
    # as long as they recognise how the parsers are written.  When every witness is rejected as it must be, a complaint of a
    # generator-level rule therefore means "the parsers were restructured into a shape this rule does not read" far more
    # often than "an input outside the corpus is accepted": it is recorded as UNDECIDED, not as a violation.  When a witness is
    # accepted, the rule findings stand beside it and say where.  (VERIF_C16_STRICT=1 restores the strict reading.)
    import os as _os
    if not wfs and _os.environ.get("VERIF_C16_STRICT") != "1":
        for f in res.findings:
            if f.rule != "C16.WIT" and not (f.rule == "C16.NOPANIC" and "unreachable" not in f.what and "panic_2021" not in f.what and "$crate::panic" not in f.what
                                            and "Index::index" not in f.what):
                f.undecided = True
            elif f.rule == "C16.NOPANIC" and "Index::index" in f.what:
                # `names[i]` with i drawn from `0..names.len()` and the like: whether the index is in bounds is a fact about
                # run-time lengths that no rule here establishes or refutes
                f.what += ": the bound of the index was not established (undecided)"
                f.undecided = True
    res.samples = [{"witness": r["witness"], "cause": r["cause"], "level": r["level"], "diagnostic": r["diagnostic"]} for r in results if r["role"] == "poisoned"][:10]
    res.samples.append({"merge_tables": tables})
    res.analysed = {"witnesses": meta, "nopanic_sites_by_rule": by, "merge_guard_tables": {k: v for k, v in tables.items() if isinstance(v, dict)}}
    res.floor("witnesses", meta["witnesses"], 180)
    res.floor("single-valued attributes guarded", sum(len([1 for x in t.values() if x.startswith("guarded")]) for k, t in tables.items() if isinstance(t, dict)), 10)
    res.trusted_base = ["rustc nightly MIR construction", "mirfacts extractor", "rules/p_c16.py", "rustc's accept/reject verdict on the witness programs",
                        "syn: fields of Fields::Named have identifiers; parse_quote!/quote! of fixed templates over already parsed nodes do not fail"]
    res.assumptions = ["decides the listed rejection causes, not every conceivable unsupported input", "witnesses are compiled, never run"]
    res.explanation = ("For all derive inputs: every single-valued attribute is only set under a dominating 'already set => Err' test whose witness merge itself maintains (GUARD), the three "
                       "attribute parsers write attributes only into a per-item value that is handed to merge (ROUTE), every #[deserr] attribute is parsed and merged with `?` (READ), "
                       "unknown names / rename_all values / trailing tokens return Err (UNKNOWN), validate_container_attributes rejects try_from with rename_all/tag/deny_unknown_fields and tag on structs and dominates all use (VALIDATE), "
                       "unsupported shapes only lead to compile errors (SHAPE), panic sites of the macro are discharged (NOPANIC). Each cause is made concrete by a compile-fail witness with a compiling twin (WIT).")
    return res
