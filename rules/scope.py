"""Which bodies are 'deserialisation code' (the set B of DESIGN §5)."""
from analysis import View, norm_path
from sites import npath


def is_deser_root(b):
    return b.kind == "AssocFn" and b.name == "deserialize_from_value" and b.impl_trait is not None \
        and npath(b.impl_trait) == "Deserr" and b.path == b.root


def deser_roots(crate):
    return [b for b in crate.bodies if is_deser_root(b)]


def closures_of(crate, root):
    return [b for b in crate.bodies if b.root == root.path and b.path != root.path]


class Scope:
    """deserialize_from_value impls of the given crates, their closures and the local helper
    functions they call (transitively, bounded)."""

    def __init__(self, crates, helper_crates=None, inline=True):
        self.crates = crates
        self.inline = inline
        self.inlined_helpers = set()
        self.views = {}
        self.roots = []
        self.members = []  # (crate, body, role)
        helper_crates = helper_crates or crates
        index = {}
        for c in helper_crates:
            for b in c.bodies:
                index[(c.name, npath(b.path))] = (c, b)
        seen = set()
        work = []
        for c in crates:
            for r in deser_roots(c):
                self.roots.append((c, r))
                work.append((c, r, "root", 0))
                for cl in closures_of(c, r):
                    work.append((c, cl, "closure", 0))
        # the public entry point
        for c in helper_crates:
            if c.name == "deserr":
                b = c.body("deserialize")
                if b is not None:
                    work.append((c, b, "entry", 0))
        while work:
            c, b, role, depth = work.pop()
            k = (c.name, b.path)
            if k in seen:
                continue
            seen.add(k)
            self.members.append((c, b, role))
            if depth >= 4:
                continue
            v = self.view(c, b)
            for bb, cal in v.calls():
                if cal.fn is None or cal.krate is None:
                    continue
                tgt = index.get((cal.krate, npath(cal.path)))
                if tgt is None and cal.resolved:
                    tgt = index.get((cal.fn.get("resolved_krate"), npath(cal.resolved)))
                if tgt is None:
                    continue
                tc, tb = tgt
                if tc.name != "deserr":
                    continue  # user functions named in attributes are opaque
                if tb.impl_trait and npath(tb.impl_trait) in ("Deserr", "DeserializeError", "MergeWithError"):
                    continue  # recursion through the trait / the error type's own business
                if tb.impl_trait and npath(tb.impl_trait) in ("IntoValue", "Map", "Sequence"):
                    continue  # the value source is a parameter of the properties
                work.append((tc, tb, "helper", depth + 1))
                for cl in closures_of(tc, tb):
                    work.append((tc, cl, "helper-closure", depth + 1))

        if inline:
            self._inline_helpers()

    def _inline_helpers(self):
        """Private helper functions of the library that carry part of the reporting protocol (a report site, a child
        call, the re-wrapping of an answer) are expanded at their call sites (rules/inline.py); such a helper is then
        judged through every one of its instances instead of standalone, where its parameters would be unknown."""
        import inline as inl
        per_crate = {}
        for c in self.crates:
            if c.name == "deserr":
                per_crate[id(c)] = {b.path: b for b in c.bodies}
        used_all = set()
        lib_idx = None
        for c in self.crates:
            if c.name == "deserr":
                lib_idx = per_crate[id(c)]
        for c, b, role in list(self.members):
            if role in ("helper", "helper-closure"):
                continue
            # generated code (user crate) may delegate to run-time helpers of the library: same expansion, across crates
            idx = per_crate.get(id(c)) if c.name == "deserr" else lib_idx
            if idx is None:
                continue
            nb, used = inl.inline_body(c, b, idx)
            if nb is not None:
                self.views[(c.name, c.file, b.path)] = View(nb)
                used_all |= used
                self.members = [(mc, nb if (mc is c and mb is b) else mb, mr) for mc, mb, mr in self.members]
                self.roots = [(rc, nb if (rc is c and rb is b) else rb) for rc, rb in self.roots]
        # helpers that stay functions of their own (too large, recursive, ..) are judged standalone - with the helpers *they*
        # call expanded in them
        for c, b, role in list(self.members):
            if role != "helper" or c.name != "deserr" or b.path in used_all:
                continue
            idx = per_crate.get(id(c))
            if idx is None:
                continue
            nb, used = inl.inline_body(c, b, idx)
            if nb is not None:
                self.views[(c.name, c.file, b.path)] = View(nb)
                used_all |= used
                self.members = [(mc, nb if (mc is c and mb is b) else mb, mr) for mc, mb, mr in self.members]
        if used_all:
            self.inlined_helpers = used_all
            # (a closure of an expanded helper that was not itself expanded - the function it hands to `try_fold`, `map_err` .. -
            # stays a member and is judged as the closures of the impls are)
            self.members = [(c, b, role) for c, b, role in self.members
                            if not (role == "helper" and c.name == "deserr" and b.path in used_all)
                            and not (role in ("closure", "helper-closure") and b.path in used_all)]   # a closure expanded where a helper calls it

    def view(self, crate, body):
        k = (crate.name, crate.file, body.path)
        v = self.views.get(k)
        if v is None:
            v = View(body)
            self.views[k] = v
        return v
