"""C06 — containers keep structure: element correspondence and order, arity, None-iff-null,
entry-wise set/map construction, CS delegation.  Rules on the library's container impls."""
from analysis import term_calls, View, strip_refs, erase_generics, term_mentions
from sites import BodySites, npath
from loc import canon, item_of, next_kind, fmt, loop_of, call_name
from lin import Finding


def _und(rule, view, what, bb=None, detail=""):
    """the construct the rule reads was not found in this formulation of the impl: no verdict (DESIGN §14.5)"""
    f = finding(rule, view, what + ": not recognised (undecided)", bb, detail)
    f.undecided = True
    return f


def finding(rule, view, what, bb=None, detail=""):
    at = view.blocks[bb]["term"].get("at", "") if bb is not None else view.b.span
    return Finding(rule, view.b.path, what, at, detail)


def self_kind(b):
    """classify the Self type of a Deserr impl"""
    t = b.crate.types[b.impl_self]
    if t["k"] == "adt":
        p = t["path"]
        return {"std::vec::Vec": "vec", "std::collections::HashSet": "set", "std::collections::BTreeSet": "set",
                "std::collections::HashMap": "map", "std::collections::BTreeMap": "map",
                "std::option::Option": "option", "std::boxed::Box": "box", "serde_cs::vec::CS": "cs",
                "serde_json::Value": "jvalue"}.get(p)
    if t["k"] == "array":
        return "array"
    if t["k"] == "tuple" and len(t["ts"]) >= 2:
        return "tuple"
    return None


def ok_assignments(view):
    """(bb, operand term) for every `_0 = Ok(x)` ; also ('call', bb, term) when _0 is a call result"""
    out = []
    for bb in sorted(view.reach):
        for st in view.blocks[bb]["stmts"]:
            if st["k"] == "assign" and st["place"]["l"] == 0 and not st["place"]["p"]:
                rv = st["rv"]
                if rv["k"] == "agg" and rv.get("path") == "std::result::Result" and rv["variant"] == "Ok":
                    out.append(("ok", bb, view.origin(rv["ops"][0]), rv["ops"][0]))
                elif rv["k"] == "agg" and rv.get("path") == "std::result::Result" and rv["variant"] == "Err":
                    pass
                else:
                    term = view.origin_rv(rv, bb)
                    al = view.alts(term)
                    if al and all(a[0] == "agg" and a[1] == "adt" and a[3] == "std::result::Result" for a in al):
                        # `_0 = move r` where r was built as Ok(..) / Err(..) in several arms (e.g. an inlined helper)
                        for a in sorted(al, key=repr):
                            if a[4] == "Ok" and a[2]:
                                out.append(("ok", bb, a[2][0], None))
                        continue
                    out.append(("other", bb, term, None))
        t = view.blocks[bb]["term"]
        if t["k"] == "call" and t["dest"]["l"] == 0 and not t["dest"]["p"]:
            out.append(("call", bb, view.origin_call(bb), None))
    return out


def move_class(view, local):
    """locals that hold the same object as `local` at some time: connected by whole moves (`x = move y`)"""
    cls = {local}
    changed = True
    while changed:
        changed = False
        for bb in view.reach:
            for st in view.blocks[bb]["stmts"]:
                if st["k"] != "assign" or st["place"]["p"]:
                    continue
                rv = st["rv"]
                if rv["k"] == "use" and rv["op"]["k"] in ("move", "copy") and not rv["op"]["place"]["p"]:
                    a, b = st["place"]["l"], rv["op"]["place"]["l"]
                    if (a in cls) != (b in cls) and a != 0 and b != 0:
                        # only single-purpose temporaries / parameters of inlined helpers join the class
                        other = a if b in cls else b
                        if len(view.whole_defs(other)) == 1 or other == b:
                            cls.add(other)
                            changed = True
    return cls


def mut_borrow_consumers(view, local):
    """calls that receive `&mut local` (through reborrows, moves of the borrow, and tuples of arguments that are
    taken apart again): [(bb, callee, arg index)]"""
    res = []
    refs = set()
    tuple_refs = {}   # tuple local -> {field index}
    locals_ = move_class(view, local) if isinstance(local, int) else set(local)
    # locals that are &mut local or reborrows of them
    changed = True
    while changed:
        changed = False
        for bb in view.reach:
            for st in view.blocks[bb]["stmts"]:
                if st["k"] != "assign" or st["place"]["p"]:
                    continue
                rv = st["rv"]
                if rv["k"] == "ref" and rv["bk"] == "mut":
                    pl = rv["place"]
                    base = pl["l"]
                    if (base in locals_ and not any(e["k"] == "deref" for e in pl["p"])) or \
                            (base in refs and pl["p"] and pl["p"][0]["k"] == "deref"):
                        if st["place"]["l"] not in refs:
                            refs.add(st["place"]["l"])
                            changed = True
                if rv["k"] == "use" and rv["op"]["k"] in ("move", "copy") and rv["op"]["place"]["l"] in refs and not rv["op"]["place"]["p"]:
                    if st["place"]["l"] not in refs:
                        refs.add(st["place"]["l"])
                        changed = True
                if rv["k"] == "agg" and rv.get("ak") in ("tuple", "closure"):
                    for i, o in enumerate(rv["ops"]):
                        if o["k"] in ("move", "copy") and o["place"]["l"] in refs and not o["place"]["p"]:
                            if i not in tuple_refs.setdefault(st["place"]["l"], set()):
                                tuple_refs[st["place"]["l"]].add(i)
                                changed = True
                if rv["k"] == "use" and rv["op"]["k"] in ("move", "copy") and rv["op"]["place"]["l"] in tuple_refs:
                    pp = rv["op"]["place"]["p"]
                    if len(pp) == 1 and pp[0]["k"] == "field" and pp[0]["i"] in tuple_refs[rv["op"]["place"]["l"]]:
                        if st["place"]["l"] not in refs:
                            refs.add(st["place"]["l"])
                            changed = True
                    if not pp and st["place"]["l"] not in tuple_refs:
                        tuple_refs[st["place"]["l"]] = set(tuple_refs[rv["op"]["place"]["l"]])   # the environment moved on
                        changed = True
                # a reference to an environment that holds the borrow (`&mut closure` of an expanded FnMut call), and reborrows
                # through it: `&mut (*((*env).0))`
                if rv["k"] == "ref" and rv["place"]["l"] in tuple_refs:
                    pp = [e for e in rv["place"]["p"] if e["k"] != "deref"]
                    if not pp:
                        if st["place"]["l"] not in tuple_refs:
                            tuple_refs[st["place"]["l"]] = set(tuple_refs[rv["place"]["l"]])
                            changed = True
                    elif len(pp) == 1 and pp[0]["k"] == "field" and pp[0]["i"] in tuple_refs[rv["place"]["l"]]:
                        if st["place"]["l"] not in refs:
                            refs.add(st["place"]["l"])
                            changed = True
    for bb in sorted(view.reach):
        t = view.blocks[bb]["term"]
        if t["k"] == "call":
            for i, a in enumerate(t["args"]):
                if a["k"] in ("move", "copy") and not a["place"]["p"] and (a["place"]["l"] in refs or a["place"]["l"] in tuple_refs):
                    res.append((bb, view.callee(bb), i))
    return res


ITER_CHAIN_OK = ("Sequence::into_iter", "Map::into_iter", "std::iter::Iterator::enumerate", "std::iter::IntoIterator::into_iter")


def iterator_chain(view, next_bb):
    """callee names (outermost first) that built the iterator advanced at next_bb, and the source term"""
    t = view.blocks[next_bb]["term"]
    it = strip_refs(view.origin(t["args"][0]))
    # `iter` is a user variable assigned once
    names = []
    guard = 0
    while guard < 10:
        guard += 1
        if it[0] == "multi":
            wd = view.whole_defs(it[1])
            if len(wd) == 1 and wd[0][0] == "stmt":
                it = strip_refs(view.origin_rv(wd[0][3]["rv"], wd[0][1]))
                continue
            if len(wd) == 1 and wd[0][0] == "call":
                it = view.origin_call(wd[0][1])
                continue
            al = [strip_refs(a) for a in view.alts(it)]
            if len(al) == 1 and al[0] != it:
                it = al[0]
                continue
            break
        if it[0] == "field":
            # e.g. the iterator handed back by a helper through `?`: (Try::branch(r) as Continue).0 with r built in several arms
            al = [strip_refs(a) for a in view.alts(it)]
            if len(al) == 1 and al[0] != it:
                it = al[0]
                continue
        if it[0] == "call" and it[2]:
            c = view.callee(it[1])
            nm = None
            tr = c.deserr_trait()
            if tr in ("Sequence", "Map") and c.name == "into_iter":
                nm = tr + "::into_iter"
            elif c.trait:
                nm = erase_generics(c.trait) + "::" + c.name
            else:
                nm = c.base()
            names.append(nm)
            if not it[3]:
                break
            it = strip_refs(it[3][0])
            continue
        break
    return names, it


def check_seq_like(view, bs, kind):
    """Vec / sets / array / jvalue-array: fresh collection, one push/insert per iteration of the Ok payload
    of that iteration's child, iterator = the sequence's own into_iter (+ enumerate)."""
    out = []
    ob = 0
    # result collections: locals mutated by push/insert that flow into Ok
    cands = {}
    for bb, c in view.calls():
        if c.fn is None:
            continue
        base = c.base() or ""
        if base in ("std::vec::Vec::push", "std::collections::HashSet::insert", "std::collections::BTreeSet::insert",
                    "std::collections::HashMap::insert", "std::collections::BTreeMap::insert", "serde_json::Map::insert",
                    "std::vec::Vec::insert", "std::collections::VecDeque::push_front"):
            t = view.blocks[bb]["term"]
            tgt = strip_refs(view.origin(t["args"][0]))
            if tgt[0] in ("multi", "undef"):
                cands.setdefault(tgt[1], []).append((bb, c, base))
            else:
                wd = None
                # single-assignment collection local: origin resolves to the constructor call
                a0 = t["args"][0]
                cands.setdefault(("term", tgt), []).append((bb, c, base))
    return cands


def run_body(view, bs):
    """dispatch on the container kind; returns (findings, obligations, kind)"""
    kind = self_kind(view.b)
    if kind is None:
        return [], 0, None
    fn = {"vec": c_seq, "set": c_seq, "array": c_array, "tuple": c_tuple, "map": c_map, "option": c_option,
          "box": c_box, "cs": c_cs, "jvalue": c_jvalue}[kind]
    fs, ob = fn(view, bs)
    # "a fault at every position makes the call fail": the accumulator is never reset / replaced by something
    # that does not contain it once examination has begun
    import flow
    k_fs, k_ob = flow.acc_keep(view, bs, "C06.KEEP")
    f_fs, f_ob = flow.fold_keep(view.b.crate, view, "C06.KEEP")
    return fs + k_fs + f_fs, ob + k_ob + f_ob, kind


# ------------------------------------------------------------------ sequences
def _collection_locals(view, ctor_suffixes):
    """locals initialised by a fresh constructor call"""
    res = {}
    for l in range(len(view.b.locals)):
        wd = view.whole_defs(l)
        if len(wd) != 1 or wd[0][0] != "call":
            continue
        c = view.callee(wd[0][1])
        if c.fn is None:
            continue
        base = c.base() or ""
        if any(base.endswith(s) for s in ctor_suffixes):
            res[l] = (wd[0][1], base)
    return res


ADDERS = {"std::vec::Vec::push": 1, "std::collections::HashSet::insert": 1, "std::collections::BTreeSet::insert": 1,
          "std::collections::HashMap::insert": 2, "std::collections::BTreeMap::insert": 2, "serde_json::Map::insert": 2}


def seq_rules(view, bs, coll, want_enumerate=True, label="sequence"):
    """rules for one result collection local `coll` filled from a sequence loop"""
    out = []
    ob = 0
    children = {ch["bb"]: ch for ch in bs.children}
    cons = mut_borrow_consumers(view, coll)
    adds = []
    for bb, c, i in cons:
        ob += 1
        base = c.base() if c.fn else None
        if base in ADDERS and i == 0:
            adds.append((bb, c, base))
        else:
            if base is None or base in ("std::ops::FnMut::call_mut", "std::ops::FnOnce::call_once", "std::ops::Fn::call") or (c.fn is not None and c.krate == "deserr" and c.deserr_trait() is None) \
                    or (c.fn is not None and c.trait and erase_generics(c.trait) == "std::iter::Iterator"):
                out.append(_und("C06.SEQ", view, "the result collection is handed to %s, which this rule does not read" % (base or "a function value"), bb))
            else:
                out.append(finding("C06.SEQ", view, "the result collection is modified by %s (only push/insert of the element just deserialised is allowed)" % (base or "an indirect call"), bb))
    if not adds:
        out.append(_und("C06.SEQ", view, "no push/insert into the result collection found"))
    for bb, c, base in adds:
        ob += 1
        t = view.blocks[bb]["term"]
        val = canon(view, view.origin(t["args"][ADDERS[base]]))
        # Ok payload of a child call
        ok = val[0] == "field" and val[2] == "Ok" and val[1][0] == "call" and val[1][1] in children
        if not ok:
            # carried there by a helper (`keep_or_merge(&mut error, child_result, loc)?` -> `Ok(Some(v))`): every alternative counts
            al = [strip_refs(canon(view, a)) for a in view.alts(view.origin(t["args"][ADDERS[base]]))]
            if al and len(set(al)) == 1 and all(a[0] == "field" and a[2] == "Ok" and isinstance(a[1], tuple) and a[1][0] == "call" and a[1][1] in children for a in al):
                ok = True
                val = al[0]
            elif not (al and any(a[0] in ("const",) or (a[0] == "agg") for a in al)):
                f_ = finding("C06.SEQ", view, "the value added to the result is not the Ok payload of a child deserialisation", bb, fmt(val))
                f_.what += ": where the value comes from was not read: not recognised (undecided)"
                f_.undecided = True
                out.append(f_)
                continue
        if not ok:
            out.append(finding("C06.SEQ", view, "the value added to the result is not the Ok payload of a child deserialisation", bb, fmt(val)))
            continue
        ch = children[val[1][1]]
        cv = canon(view, ch["value"])
        it = item_of(cv[3][0]) if cv[0] == "call" and len(cv) > 3 and cv[3] else None
        if it is None:
            out.append(finding("C06.SEQ", view, "the child whose result is added does not examine an item of the payload iterator", bb, fmt(cv)))
            continue
        nbb = it[0]
        lp = loop_of(view, nbb)
        if lp is None or lp != loop_of(view, bb) or lp != loop_of(view, ch["bb"]):
            out.append(finding("C06.SEQ", view, "push/insert, child call and iterator step are not in the same loop iteration", bb))
        # exactly one add per iteration: no other adder in the loop
        names, src = iterator_chain(view, nbb)
        for nm in names:
            if nm not in ITER_CHAIN_OK:
                out.append(finding("C06.SEQ", view, "the payload iterator is adapted by %s (order/selection of elements may change)" % nm, nbb))
        srcc = canon(view, src)
        if not (srcc[0] == "field" and srcc[1] == ("param", 1) and srcc[2] in ("Sequence", "Map")):
            root_ = srcc
            while root_[0] in ("field", "downcast", "deref", "ref") and len(root_) > 1 and isinstance(root_[1], tuple):
                root_ = root_[1]
            if root_[0] == "call" and view.callee(root_[1]) is not None and view.callee(root_[1]).krate == "deserr" and view.callee(root_[1]).deserr_trait() is None:
                out.append(_und("C06.SEQ", view, "what the loop iterates over comes out of a local function (%s)" % call_name(view, root_), nbb, fmt(srcc)))
            else:
                out.append(finding("C06.SEQ", view, "the loop does not iterate over the input's own %s" % label, nbb, fmt(srcc)))
    # at most one adder per loop
    loops = {}
    for bb, c, base in adds:
        loops.setdefault(loop_of(view, bb), []).append(bb)
    for lp, bbs in loops.items():
        if len(bbs) > 1:
            out.append(finding("C06.SEQ", view, "more than one push/insert per loop iteration", bbs[1]))
    return out, ob, adds


def flows_unmodified(view, term, coll):
    """term (origin of the Ok payload) is the collection local itself (moves only)"""
    t = term
    return t == ("multi", coll) or (t[0] == "call" and t[1] == view.whole_defs(coll)[0][1])


def c_seq(view, bs):
    out = []
    ob = 0
    colls = _collection_locals(view, ("::with_capacity", "::new"))
    # the result: Ok payload
    oks = [x for x in ok_assignments(view) if x[0] == "ok"]
    if not oks:
        return [_und("C06.SEQ", view, "no Ok result found")], 1
    for _, bb, term, op in oks:
        ob += 1
        res_local = None
        # the Ok payload is (a move of) the collection local
        for c_l, (c_bb, _base) in colls.items():
            al = view.alts(term)
            if al and all(a == ("multi", c_l) or (a[0] == "call" and a[1] == c_bb) or (a[0] == "multi" and a[1] in move_class(view, c_l)) for a in al):
                res_local = c_l
        if res_local is None:
            out.append(_und("C06.SEQ", view, "the Ok result is not the collection that was filled element by element (it is transformed before being returned)", bb, fmt(term)))
            continue
        fs, o2, adds = seq_rules(view, bs, res_local)
        out += fs
        ob += o2
    return out, ob


def _len_check(view, bs):
    """the arity guard: (len_call_bb, const term compared with, switch bb, unequal target, equal target) or None"""
    for bb, c in view.calls():
        if c.deserr_trait() == "Sequence" and c.name == "len":
            d = view.blocks[bb]["term"]["dest"]["l"]
            # find binop using it
            for b2 in sorted(view.reach):
                for st in view.blocks[b2]["stmts"]:
                    if st["k"] == "assign" and st["rv"]["k"] == "binop":
                        rv = st["rv"]
                        ta = canon(view, view.origin(rv["a"]))
                        tb = canon(view, view.origin(rv["b"]))
                        len_t = None
                        other = None
                        if ta[0] == "call" and ta[1] == bb:
                            len_t, other = ta, tb
                        elif tb[0] == "call" and tb[1] == bb:
                            len_t, other = tb, ta
                        if len_t is None:
                            continue
                        info = view.switch_info(b2)
                        if not info or info["kind"] != "bool":
                            continue
                        t_true = view.edge_target(info, True)
                        t_false = view.edge_target(info, False)
                        return {"len_bb": bb, "op": rv["op"], "const": other, "sw": b2, "true": t_true, "false": t_false,
                                "seq": canon(view, view.origin(view.blocks[bb]["term"]["args"][0]))}
    return None


def arity_rules(view, bs, n_term, n_desc):
    out = []
    ob = 1
    lc = _len_check(view, bs)
    if lc is None:
        return [finding("C06.ARITY", view, "no arity check (Sequence::len compared with the arity) found")], ob, None
    if lc["op"] not in ("Ne", "Eq"):
        out.append(finding("C06.ARITY", view, "arity is compared with `%s` instead of != / ==" % lc["op"], lc["sw"]))
    if lc["const"] != n_term:
        out.append(finding("C06.ARITY", view, "length is compared with %s, the arity is %s" % (fmt(lc["const"]), n_desc), lc["sw"]))
    seq = strip_refs(lc["seq"])
    if not (seq[0] == "field" and seq[1] == ("param", 1) and seq[2] == "Sequence"):
        # (the sequence may have been taken out of the input by a helper: `let seq = expect_sequence(value, location)?;`)
        al = [strip_refs(canon(view, a)) for a in view.alts(seq)]
        if not (al and all(a[0] == "field" and a[1] == ("param", 1) and a[2] == "Sequence" for a in al)):
            out.append(finding("C06.ARITY", view, "the length measured is not that of the input sequence", lc["len_bb"], fmt(seq)))
    bad_t = lc["true"] if lc["op"] == "Ne" else lc["false"]
    good_t = lc["false"] if lc["op"] == "Ne" else lc["true"]
    # the unequal edge reports BadSequenceLen{actual: seq, expected: N} and returns
    site = None
    for s in bs.sites:
        if s.ek == "BadSequenceLen" and bad_t is not None and s.bb in view.reachable(bad_t):
            site = s
    ob += 1
    if site is None:
        out.append(finding("C06.ARITY", view, "a wrong length does not lead to a BadSequenceLen report", lc["sw"]))
    else:
        f = dict(zip(site.payload[5], site.payload[2]))
        exp = canon(view, f.get("expected"))
        if exp != n_term:
            out.append(finding("C06.ARITY", view, "BadSequenceLen.expected is %s, the arity is %s" % (fmt(exp), n_desc), site.bb))
        if site.handling != "collapsed":
            out.append(finding("C06.ARITY", view, "the arity report does not end the call", site.bb))
        if good_t is not None and site.bb in view.reachable(good_t):
            out.append(finding("C06.ARITY", view, "the arity report is reachable although the length was right", site.bb))
    # the check comes before any element work
    ob += 1
    for n in bs.nexts:
        if not view.dominates(lc["sw"], n["bb"]) or (bad_t is not None and n["bb"] in view.reachable(bad_t) and good_t is not None and n["bb"] not in view.reachable(good_t)):
            out.append(finding("C06.ARITY", view, "elements are examined before / regardless of the arity check", n["bb"]))
    for ch in bs.children:
        if not view.dominates(lc["sw"], ch["bb"]):
            out.append(finding("C06.ARITY", view, "a child is deserialised before the arity check", ch["bb"]))
    return out, ob, lc


def c_array(view, bs):
    out, ob, lc = arity_rules(view, bs, ("const", "other", "N"), "N")
    colls = _collection_locals(view, ("::with_capacity", "::new"))
    # result: Ok(payload of Vec<T>::try_into) of the filled vector
    oks = [x for x in ok_assignments(view) if x[0] == "ok"]
    ob += 1
    good = False
    for _, bb, term, op in oks:
        t = canon(view, term)
        if t[0] == "field" and t[2] == "Ok" and t[1][0] == "call":
            c = view.callee(t[1][1])
            is_conv = c.fn is not None and (c.name == "try_into" or (c.name == "try_from" and c.self_ty is not None and view.b.crate.types[c.self_ty]["k"] == "array"))
            if is_conv:
                src = strip_refs(t[1][3][0]) if t[1][3] else None
                if src and not (src[0] == "call" and src[1] in [v[0] for v in colls.values()]) and not (src[0] == "multi" and src[1] in colls):
                    # the vector comes back from the helper that filled it (`fill(seq, location, vec, Vec::push)?`)
                    al = set(strip_refs(canon(view, a)) for a in view.alts(src))
                    if len(al) == 1 and all((a[0] == "call" and a[1] in [v[0] for v in colls.values()]) or (a[0] == "multi" and a[1] in colls) for a in al):
                        src = list(al)[0]
                if src and src[0] == "call" and src[1] in [v[0] for v in colls.values()]:
                    coll = [l for l, v in colls.items() if v[0] == src[1]][0]
                    fs, o2, adds = seq_rules(view, bs, coll)
                    out += fs
                    ob += o2
                    good = True
                elif src and src[0] == "multi" and src[1] in colls:
                    fs, o2, adds = seq_rules(view, bs, src[1])
                    out += fs
                    ob += o2
                    good = True
    if not good:
        out.append(_und("C06.SEQ", view, "the Ok result is not the checked conversion (try_into / <[T; N]>::try_from) of the vector filled element by element"))
    return out, ob


def c_tuple(view, bs):
    b = view.b
    ts = b.crate.types[b.impl_self]["ts"]
    n = len(ts)
    out, ob, lc = arity_rules(view, bs, ("const", "int", n), str(n))
    # k-th step (dominance order) feeds child k with component type k, lands in field k
    nexts = sorted(bs.nexts, key=lambda x: sum(1 for y in bs.nexts if view.dominates(y["bb"], x["bb"])))
    ob += 1
    if len(nexts) != n:
        out.append(finding("C06.ARITY", view, "%d iterator steps for a tuple of arity %d" % (len(nexts), n)))
        return out, ob
    for nx in nexts:
        if loop_of(view, nx["bb"]) is not None:
            out.append(finding("C06.ARITY", view, "tuple elements are read in a loop", nx["bb"]))
        names, src = iterator_chain(view, nx["bb"])
        for nm in names:
            if nm not in ITER_CHAIN_OK:
                out.append(finding("C06.SEQ", view, "the payload iterator is adapted by %s" % nm, nx["bb"]))
    child_of_step = {}
    for ch in bs.children:
        cv = canon(view, ch["value"])
        it = item_of(cv[3][0]) if cv[0] == "call" and len(cv) > 3 and cv[3] else None
        if it:
            child_of_step[it[0]] = ch
    oks = [x for x in ok_assignments(view) if x[0] == "ok"]
    ob += 1
    if len(oks) != 1:
        out.append(_und("C06.ARITY", view, "expected exactly one Ok result"))
        return out, ob
    term = oks[0][2]
    if not (term[0] == "agg" and term[1] == "tuple" and len(term[2]) == n):
        out.append(finding("C06.ARITY", view, "the Ok result is not a tuple literal of the element results", oks[0][1], fmt(term)))
        return out, ob
    for k in range(n):
        ob += 1
        ch = child_of_step.get(nexts[k]["bb"])
        if ch is None:
            out.append(finding("C06.ARITY", view, "element #%d is not handed to a child deserialiser" % k, nexts[k]["bb"]))
            continue
        if ch["self_ty"] != ts[k]:
            out.append(finding("C06.ARITY", view, "element #%d is deserialised as %s instead of the tuple's component type %s" % (
                k, b.crate.tys(ch["self_ty"]), b.crate.tys(ts[k])), ch["bb"]))
        # field k = unwrap(local assigned Some(Ok payload of child k))
        fk = canon(view, term[2][k])
        # every value that can reach field k is the Ok payload of child k (however it is carried there:
        # Some(..)/unwrap, a helper's Ok(Some(..)) taken apart by `?`, plain temporaries)
        srcs = view.alts(term[2][k])
        okk = bool(srcs)
        for p in srcs:
            p = canon(view, p)
            if not (p[0] == "field" and p[2] == "Ok" and isinstance(p[1], tuple) and p[1][0] == "call" and p[1][1] == ch["bb"]):
                okk = False
        if not okk:
            f_ = finding("C06.ARITY", view, "field #%d of the result is not the value deserialised from element #%d" % (k, k), oks[0][1], fmt(fk))
            # a verdict when what reaches the field is a recognised value from elsewhere (another element's payload, a constant);
            # when it goes through calls the rule does not read (`.map(Some).or_else(|e| ..)?`), it is not one
            other_children = set(c2["bb"] for c2 in bs.children if c2["bb"] != ch["bb"])
            recognised_wrong = any((lambda q: (q[0] == "field" and q[2] == "Ok" and isinstance(q[1], tuple) and q[1][0] == "call" and q[1][1] in other_children) or q[0] == "const")(canon(view, p_)) for p_ in srcs)
            if not recognised_wrong:
                f_.what += ": what reaches the field goes through calls this rule does not read: not recognised (undecided)"
                f_.undecided = True
            out.append(f_)
    return out, ob


# ---------------------------------------------------------------------- maps
def c_map(view, bs, coll=None, key_parsed=True):
    out = []
    ob = 0
    colls = _collection_locals(view, ("::with_capacity", "::new"))
    oks = [x for x in ok_assignments(view) if x[0] == "ok"]
    res_local = coll
    if res_local is None:
        for _, bb, term, op in oks:
            t = term
            if t[0] == "multi" and t[1] in colls:
                res_local = t[1]
            elif t[0] == "call":
                for l, v in colls.items():
                    if v[0] == t[1]:
                        res_local = l
    ob += 1
    if res_local is None:
        return [_und("C06.MAP", view, "the Ok result is not the map that was filled entry by entry")], ob
    fs, o2, adds = seq_rules(view, bs, res_local, label="map")
    out += fs
    ob += o2
    children = {ch["bb"]: ch for ch in bs.children}
    for bb, c, base in adds:
        ob += 1
        t = view.blocks[bb]["term"]
        key = canon(view, view.origin(t["args"][1]))
        val = canon(view, view.origin(t["args"][2]))
        if not (val[0] == "field" and val[2] == "Ok" and val[1][0] == "call" and val[1][1] in children):
            continue
        ch = children[val[1][1]]
        cv = canon(view, ch["value"])
        it = item_of(cv[3][0]) if cv[0] == "call" and len(cv) > 3 and cv[3] else None
        if it is None:
            continue
        nbb = it[0]
        want_raw = ("field", ("field", ("next", nbb), "Some", "0"), None, "0")
        if key_parsed:
            okk = False
            if key[0] == "field" and key[2] == "Ok" and key[1][0] == "call":
                fc = view.callee(key[1][1])
                if fc.fn is not None and (fc.name == "from_str" or (fc.name == "parse" and fc.path.startswith("core::str::"))) \
                        and key[1][3] and strip_refs(key[1][3][0]) == want_raw:
                    okk = True
                    # the key is parsed for every entry: no path through one iteration avoids the parse
                    ob += 1
                    fb = key[1][1]
                    lp_h = loop_of(view, nbb)
                    if lp_h is not None:
                        body_ = [bd for h, bd in view.loops() if h == lp_h][0]
                        k2, sbb2, info2, cur2 = __import__("sites").follow_local_use(view, nbb, view.blocks[nbb]["term"]["dest"]["l"])
                        some_t = view.variant_target(info2, "Some") if k2 == "switch" else None
                        import flow as _flow
                        gs = _flow.gprime_succ(view, bs)
                        if some_t is not None:
                            seen_ = set()
                            st_ = [some_t]
                            skipped_parse = False
                            while st_:
                                x_ = st_.pop()
                                if x_ in seen_ or x_ == fb or x_ not in body_:
                                    continue
                                seen_.add(x_)
                                if x_ == lp_h:
                                    skipped_parse = True
                                    break
                                st_.extend(gs[x_])
                            if skipped_parse:
                                out.append(finding("C06.MAP", view, "the key of an entry is not always parsed (an unparsable key can go unreported when something else about the entry fails first)", fb))
                    # the Err edge of from_str reports an error that names the key
                    ob += 1
                    if not _fromstr_err_reports(view, bs, key[1][1], want_raw):
                        out.append(finding("C06.MAP", view, "an unparsable key is not reported naming that key", key[1][1]))
            if not okk:
                out.append(finding("C06.MAP", view, "the entry is not keyed by the parsed form of its own string key", bb, fmt(key)))
        else:
            if strip_refs(key) != want_raw:
                out.append(finding("C06.MAP", view, "the entry is not keyed by its own key", bb, fmt(key)))
    return out, ob


def _fromstr_err_reports(view, bs, fbb, key_term):
    """on the Err edge of the from_str call at fbb there is an `Unexpected` report whose message depends on the key"""
    d = view.blocks[fbb]["term"]["dest"]["l"]
    from sites import follow_local_use
    kind, sbb, info, cur = follow_local_use(view, fbb, d)
    if kind != "switch":
        return False
    err_t = view.variant_target(info, "Err")
    if err_t is None:
        return False
    region = view.reachable(err_t)
    for s in bs.sites:
        if s.bb in region and s.kind == "error" and s.ek == "Unexpected":
            def pred(t):
                return strip_refs(t) == key_term or t == key_term
            if term_mentions(canon(view, s.payload), pred) or _fmt_args_mention(view, s, key_term):
                return True
    return False


def _fmt_args_mention(view, s, key_term):
    """format!() arguments are built through `&local` of the key; search the body for Argument::new_display(&key)"""
    for bb, c in view.calls():
        if c.fn is not None and c.path and "fmt::rt::Argument" in c.path:
            t = canon(view, view.origin_call(bb))
            if term_mentions(t, lambda x: x == key_term):
                return True
    return False


# --------------------------------------------------------------- option / box
def c_option(view, bs):
    out = []
    ob = 0
    info = view.switch_info(0)
    ob += 1
    if not (info and info["kind"] == "discr" and info["place"] and info["place"]["l"] == 1 and not info["place"]["p"]):
        return [finding("C06.OPT", view, "Option<T> does not dispatch on the kind of its input")], ob
    null_t = view.variant_target(info, "Null")
    other_ts = set(t for lb, t in info["edges"] if lb != "Null" and t not in view.unreach)
    if null_t is None or null_t in other_ts:
        out.append(finding("C06.OPT", view, "the null case is not separated from the others", 0))
        return out, ob
    null_region = view.reachable(null_t)
    other_region = set()
    for t in other_ts:
        other_region |= view.reachable(t)
    oks_ = []
    for kind, bb, term, op in ok_assignments(view):
        if kind == "ok" and canon(view, term)[0] == "multi":
            # `Ok(match value { Null => None, v => Some(..) })`: the payload is built in several arms; judge each where it is built
            for bb3 in sorted(view.reach):
                for st3 in view.blocks[bb3]["stmts"]:
                    if st3["k"] == "assign" and not st3["place"]["p"] and st3["place"]["l"] == canon(view, term)[1]:
                        oks_.append(("ok", bb3, view.origin_rv(st3["rv"], bb3), None))
        else:
            oks_.append((kind, bb, term, op))
    for kind, bb, term, op in oks_:
        ob += 1
        if kind == "ok":
            t = canon(view, term)
            is_none = t[0] == "agg" and t[1] == "adt" and t[3] == "std::option::Option" and t[4] == "None"
            is_some_of_child = False
            some_arg = None
            if t[0] == "agg" and t[1] == "adt" and t[3] == "std::option::Option" and t[4] == "Some" and t[2]:
                some_arg = t[2][0]
            elif t[0] == "call" and (call_name(view, t) or "").endswith("::Some") and t[3]:
                some_arg = t[3][0]      # `Some` used as a function value
            if some_arg is not None:
                ch0 = child_ok_payload(view, bs, some_arg)
                if ch0 is not None and canon(view, ch0["loc"]) == ("param", 2) and not (bb in null_region and _only_via(view, bb, null_t)):
                    is_some_of_child = True   # `match T::deserialize(value, location) { Ok(x) => Ok(Some(x)), Err(e) => Err(e) }`, or with `?`
            if is_none:
                if bb in other_region and bb not in null_region or (bb in other_region and bb in null_region and not _only_via(view, bb, null_t)):
                    out.append(finding("C06.OPT", view, "None is produced for an input that is not null", bb))
            elif is_some_of_child:
                pass
            else:
                out.append(finding("C06.OPT", view, "an Ok value other than None is built without deferring to the content type", bb, fmt(t)))
        elif kind == "call":
            c = view.callee(bb)
            t = canon(view, term)
            okc = c.fn is not None and c.base() == "std::result::Result::map" and len(t[3]) == 2
            if okc:
                src, f = t[3]
                chs = [ch for ch in bs.children if ch["bb"] == (src[1] if src[0] == "call" else None)]
                okc = bool(chs) and chs[0]["delegating"] and f[0] == "fnconst" and f[1] in ("std::option::Option::Some", "std::prelude::v1::Some") \
                    and canon(view, chs[0]["loc"]) == ("param", 2)
                if okc and bb in null_region and _only_via(view, bb, null_t):
                    okc = False
            if not okc and passes_child_error(view, bs, bb, term) and not (bb in null_region and _only_via(view, bb, null_t)):
                okc = True
            if not okc:
                out.append(finding("C06.OPT", view, "a non-null input is not simply deferred to the content type and wrapped in Some", bb, fmt(t)))
        else:
            out.append(finding("C06.OPT", view, "unrecognised result construction", bb))
    # the null edge must not deserialise anything
    for ch in bs.children:
        if ch["bb"] in null_region and _only_via(view, ch["bb"], null_t):
            out.append(finding("C06.OPT", view, "null is handed to the content type", ch["bb"]))
    return out, ob


def _only_via(view, bb, via):
    """bb is reachable from entry only through block `via`"""
    return view.dominates(via, bb)


def child_ok_payload(view, bs, term, delegating=True):
    """the child call whose Ok payload `term` is on every alternative (through temporaries, `?`, Some/unwrap pairs), or None"""
    al = view.alts(term)
    found = None
    if not al:
        return None
    for a in al:
        a = canon(view, a)
        if not (a[0] == "field" and a[2] == "Ok" and isinstance(a[1], tuple) and a[1][0] == "call"):
            return None
        chs = [ch for ch in bs.children if ch["bb"] == a[1][1]]
        if not chs or (delegating and not chs[0]["delegating"]):
            return None
        if found is not None and found["bb"] != chs[0]["bb"]:
            return None
        found = chs[0]
    return found


def passes_child_error(view, bs, bb, term):
    """`_0 = from_residual(..)` of a child's `?`: only hands the child's own error on"""
    c = view.callee(bb)
    if c is None or c.fn is None or c.name != "from_residual":
        return False
    child_bbs = set(ch["bb"] for ch in bs.children)
    calls = [x for x in term_calls(term) if x[1] != bb]
    return bool(calls) and all(x[1] in child_bbs or (x[2] and "std::ops::Try>::branch" in x[2]) for x in calls) and any(x[1] in child_bbs for x in calls)


def c_box(view, bs):
    out = []
    ob = 1
    good = False
    for kind, bb, term, op in ok_assignments(view):
        if kind == "call":
            c = view.callee(bb)
            t = canon(view, term)
            if c.fn is not None and c.base() == "std::result::Result::map" and len(t[3]) == 2:
                src, f = t[3]
                chs = [ch for ch in bs.children if src[0] == "call" and ch["bb"] == src[1]]
                if chs and chs[0]["delegating"] and f[0] == "fnconst" and f[1].startswith("std::boxed::Box") and f[1].endswith("::new") \
                        and canon(view, chs[0]["loc"]) == ("param", 2):
                    good = True
                    continue
            if passes_child_error(view, bs, bb, term):
                continue
        if kind == "ok":
            # `Ok(Box::new(content))` with content = the delegating child's Ok payload
            t = canon(view, term)
            if t[0] == "call" and (call_name(view, t) or "").startswith("std::boxed::Box") and (call_name(view, t) or "").endswith("::new") and t[3]:
                ch = child_ok_payload(view, bs, t[3][0])
                if ch is not None and canon(view, ch["loc"]) == ("param", 2):
                    good = True
                    continue
        out.append(finding("C06.OPT", view, "Box<T> is not a pure delegation to T wrapped in Box::new", bb, fmt(term)))
    if not good and not out:
        out.append(finding("C06.OPT", view, "Box<T>: no delegation found"))
    return out, ob


def c_cs(view, bs):
    out = []
    ob = 1
    info = view.switch_info(0)
    if not (info and info["kind"] == "discr" and info["place"] and info["place"]["l"] == 1):
        return [finding("C06.CS", view, "CS<R> does not dispatch on the kind of its input")], ob
    s_t = view.variant_target(info, "String")
    fs = None
    for bb, c in view.calls():
        if c.fn is not None and c.name == "from_str" and c.impl_trait and erase_generics(c.impl_trait).endswith("FromStr") or \
                (c.fn is not None and c.name == "from_str" and "CS" in (c.full or "")):
            fs = bb
    if fs is None or s_t is None or fs not in view.reachable(s_t):
        return [finding("C06.CS", view, "the String case does not call CS::from_str")], ob
    arg = strip_refs(canon(view, view.origin(view.blocks[fs]["term"]["args"][0])))
    ob += 1
    if not (arg[0] == "field" and arg[1] == ("param", 1) and arg[2] == "String"):
        out.append(finding("C06.CS", view, "CS::from_str is not applied to the input string", fs, fmt(arg)))
    ob += 1
    oks = [x for x in ok_assignments(view) if x[0] == "ok"]
    for _, bb, term, op in oks:
        t = canon(view, term)
        if not (t[0] == "field" and t[2] == "Ok" and t[1][0] == "call" and t[1][1] == fs):
            out.append(finding("C06.CS", view, "the Ok result is not the result of CS::from_str", bb, fmt(t)))
    if not oks:
        out.append(finding("C06.CS", view, "no Ok result"))
    # Err arm reports Unexpected with the error's text
    ob += 1
    if not any(s.ek == "Unexpected" for s in bs.sites):
        out.append(finding("C06.CS", view, "a failing CS::from_str is not reported"))
    if not any(s.ek == "IncorrectValueKind" for s in bs.sites):
        out.append(finding("C06.CS", view, "non-string kinds are not reported"))
    return out, ob


def c_jvalue(view, bs):
    """Deserr for serde_json::Value: the array arm is a sequence build, the object arm a map build keyed by the raw key"""
    out = []
    ob = 0
    colls = _collection_locals(view, ("::with_capacity", "::new"))
    for l, (cbb, base) in sorted(colls.items()):
        if base.startswith("std::vec::Vec"):
            fs, o2, adds = seq_rules(view, bs, l)
            out += fs
            ob += o2
            ob += 1
            if not _flows_into_variant(view, l, "Array"):
                out.append(finding("C06.SEQ", view, "the rebuilt array is transformed before it is returned"))
        elif "Map" in base:
            fs, o2 = c_map(view, bs, coll=l, key_parsed=False)
            out += fs
            ob += o2
            ob += 1
            if not _flows_into_variant(view, l, "Object"):
                out.append(finding("C06.MAP", view, "the rebuilt object is transformed before it is returned"))
    if len(colls) < 2:
        out.append(finding("C06.SEQ", view, "expected an array and an object being rebuilt"))
    return out, ob


def _flows_into_variant(view, coll, variant):
    for bb in view.reach:
        for st in view.blocks[bb]["stmts"]:
            if st["k"] == "assign" and st["rv"]["k"] == "agg" and st["rv"].get("variant") == variant and st["rv"].get("path") == "serde_json::Value":
                t = view.origin(st["rv"]["ops"][0])
                made = view.whole_defs(coll)[0][1]
                if t == ("multi", coll) or (t[0] == "call" and t[1] == made):
                    return True
                # through the result of a helper (`rebuild(..).map(Value::Array)`): every alternative is the collection
                al = [strip_refs(a) for a in view.alts(t)]
                if al and all(a == ("multi", coll) or (a[0] == "call" and a[1] == made) for a in al):
                    return True
    return False
