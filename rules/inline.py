"""Inlining of the library's own private helper functions into the deserialisation code that calls them,
followed by threading of known enum variants, so that the site-based rules (C02, C03, C04, C06, C15) see
through helpers like

    fn keep_going<E>(answer: ControlFlow<E, E>) -> Result<Option<E>, E>      // Continue -> Ok(Some), Break -> Err
    fn incorrect_value_kind<E, V>(actual, accepted, location) -> E           // take_cf_content(E::error(None, ..))

exactly as if their body stood at the call site.  Works on the exported MIR facts (dicts), never on text.

inline_body(crate, body, index) -> (new Body | None, set of inlined callee paths)

Eligible callees: free / inherent functions of the `deserr` crate (no trait impl methods, no closures), not
recursive, at most MAX_BLOCKS blocks, whose body (transitively) contains something the rules care about: a
report site, a child deserialisation, a payload iterator step, or a ControlFlow / Result re-wrapping of an
answer it is handed.  Everything else (push_key, take_cf_content, did_you_mean, ...) keeps being a call."""
import copy
import re

from facts import Body

MAX_BLOCKS = 240
MAX_DEPTH = 3
PROTECTED = {"take_cf_content", "deserialize"}


# ------------------------------------------------------------------------------------------------ helpers
def _fn_of(term):
    f = term.get("func")
    if f and f.get("k") == "const" and "fn" in f:
        return f["fn"]
    return None


def _is_interesting(crate, body, index, depth=0, seen=None):
    """does the body contain a report site / child call / payload iterator step, or re-wrap a ControlFlow?"""
    seen = seen or set()
    if body.path in seen or depth > MAX_DEPTH:
        return False
    seen = seen | {body.path}
    for blk in body.blocks:
        if blk.get("cleanup"):
            continue
        t = blk["term"]
        if t["k"] != "call":
            continue
        fn = _fn_of(t)
        if fn is None:
            continue
        p = fn.get("path") or ""
        full = fn.get("full") or ""
        nm = fn.get("name") or ""
        if nm in ("error", "merge") and ("DeserializeError" in full or "MergeWithError" in full):
            return True
        if nm == "deserialize_from_value" and "Deserr" in full:
            return True
        if nm == "next" and "Iterator" in full:
            return True
        tgt = index.get(p)
        if tgt is not None and eligible(crate, tgt, index, depth + 1, seen):
            return True
    # the protocol may sit in a closure the helper creates (`seq.into_iter().try_fold(None, |error, item| ..)`)
    for blk in body.blocks:
        if blk.get("cleanup"):
            continue
        for st in blk["stmts"]:
            if st["k"] == "assign" and st["rv"]["k"] == "agg" and st["rv"].get("ak") == "closure":
                cb = index.get(st["rv"].get("path"))
                if cb is not None and cb.path not in seen and _is_interesting(crate, cb, index, depth + 1, seen):
                    return True
    # a pure re-wrapper: takes a ControlFlow parameter and switches on it
    for i in range(1, body.arg_count + 1):
        if body.ltys(i).startswith("std::ops::ControlFlow<"):
            return True
    # the last step of an impl: (accumulated error, how to build the value) -> Result
    if body.ltys(0).startswith("std::result::Result<") and any(body.ltys(i).startswith("std::option::Option<") for i in range(1, body.arg_count + 1)):
        return True
    return False


_ELIG = {}


def eligible(crate, callee, index, depth=0, seen=None):
    key = (id(crate), callee.path)
    if depth == 0 and key in _ELIG:
        return _ELIG[key]
    ok = True
    if callee.kind not in ("Fn", "AssocFn") or callee.impl_trait is not None:
        ok = False
    elif callee.path.split("::")[-1] in PROTECTED or callee.path != callee.root:
        ok = False
    elif len(callee.blocks) > MAX_BLOCKS:
        ok = False
    else:
        for blk in callee.blocks:
            t = blk["term"]
            if t["k"] == "call":
                fn = _fn_of(t)
                if fn is not None and fn.get("path") == callee.path:
                    ok = False     # recursive
            if t["k"] in ("yield",):
                ok = False
        if ok:
            ok = _is_interesting(crate, callee, index, depth, seen)
    if depth == 0:
        _ELIG[key] = ok
    return ok


def _map_place(p, off):
    p["l"] += off
    for e in p["p"]:
        if e["k"] == "index":
            e["l"] += off


def _map_op(o, off):
    if o["k"] in ("copy", "move"):
        _map_place(o["place"], off)


def _map_rv(rv, off):
    k = rv["k"]
    if k in ("use", "cast", "repeat"):
        _map_op(rv["op"], off)
    elif k in ("ref", "rawptr", "discr", "len"):
        if "place" in rv:
            _map_place(rv["place"], off)
    elif k == "binop":
        _map_op(rv["a"], off)
        _map_op(rv["b"], off)
    elif k == "unop":
        _map_op(rv["a"], off)
    elif k == "agg":
        for o in rv["ops"]:
            _map_op(o, off)
    else:
        for key in ("op", "a", "b"):
            if key in rv and isinstance(rv[key], dict) and "k" in rv[key]:
                _map_op(rv[key], off)
        if "place" in rv and isinstance(rv["place"], dict):
            _map_place(rv["place"], off)
        if "ops" in rv:
            for o in rv["ops"]:
                _map_op(o, off)


def _map_block(blk, loff, boff):
    for st in blk["stmts"]:
        if st["k"] == "assign":
            _map_place(st["place"], loff)
            _map_rv(st["rv"], loff)
        elif st["k"] in ("live", "dead"):
            st["l"] += loff
        else:
            if "place" in st and isinstance(st["place"], dict):
                _map_place(st["place"], loff)
    t = blk["term"]
    k = t["k"]
    if k == "goto":
        t["target"] += boff
    elif k == "switch":
        _map_op(t["discr"], loff)
        t["targets"] = [[v, b + boff] for v, b in t["targets"]]
        t["otherwise"] += boff
    elif k == "call":
        _map_op(t["func"], loff)
        for a in t["args"]:
            _map_op(a, loff)
        _map_place(t["dest"], loff)
        if t["target"] is not None:
            t["target"] += boff
    elif k == "drop":
        _map_place(t["place"], loff)
        t["target"] += boff
    elif k == "assert":
        _map_op(t["cond"], loff)
        t["target"] += boff
    elif k == "yield":
        _map_op(t["value"], loff)
        t["target"] += boff


# ---------------------------------------------------------------------------------- type substitution
def _subst_type(crate, ti, mapping, memo):
    """type index with the callee's type parameters replaced by the call's generic arguments"""
    if ti in memo:
        return memo[ti]
    t = crate.types[ti]
    k = t["k"]
    res = ti
    if k == "param":
        res = mapping.get(t.get("n"), ti)
    else:
        new = None
        if k in ("ref", "slice", "array") and "t" in t:
            s = _subst_type(crate, t["t"], mapping, memo)
            if s != t["t"]:
                new = dict(t)
                new["t"] = s
        elif k == "tuple":
            ts = [_subst_type(crate, x, mapping, memo) for x in t.get("ts", [])]
            if ts != t.get("ts", []):
                new = dict(t)
                new["ts"] = ts
        elif k in ("adt", "alias", "fndef") and t.get("args"):
            args = [_subst_type(crate, x, mapping, memo) if isinstance(x, int) else x for x in t["args"]]
            if args != t["args"]:
                new = dict(t)
                new["args"] = args
        if new is not None:
            new["s"] = _subst_text(t["s"], {name: crate.types[to]["s"] for name, to in mapping.items()})
            crate.types.append(new)
            res = len(crate.types) - 1
    memo[ti] = res
    return res


def _xlate_type(src, dst, ti, mapping, memo):
    """type index `ti` of crate `src` expressed in crate `dst`'s type table, with the callee's type parameters replaced"""
    key = ti
    if key in memo:
        return memo[key]
    t = src.types[ti]
    k = t["k"]
    if k == "param" and t.get("n") in mapping:
        memo[key] = mapping[t["n"]]
        return memo[key]
    new = dict(t)
    if k in ("ref", "slice", "array") and "t" in t:
        new["t"] = _xlate_type(src, dst, t["t"], mapping, memo)
    elif k == "tuple":
        new["ts"] = [_xlate_type(src, dst, x, mapping, memo) for x in t.get("ts", [])]
    elif k in ("adt", "alias", "fndef") and t.get("args"):
        new["args"] = [_xlate_type(src, dst, x, mapping, memo) if isinstance(x, int) else x for x in t["args"]]
    elif k == "closure" and t.get("upvars"):
        new["upvars"] = [_xlate_type(src, dst, x, mapping, memo) if isinstance(x, int) else x for x in t["upvars"]]
    new["s"] = _subst_text(t["s"], {name: dst.types[to]["s"] for name, to in mapping.items()})
    # reuse an identical entry of the destination table when there is one
    cache = getattr(dst, "_type_by_s", None)
    if cache is None:
        cache = {}
        for i, x in enumerate(dst.types):
            cache.setdefault((x["k"], x["s"]), i)
        dst._type_by_s = cache
    hit = cache.get((new["k"], new["s"]))
    if hit is not None:
        memo[key] = hit
        return hit
    dst.types.append(new)
    idx = len(dst.types) - 1
    cache[(new["k"], new["s"])] = idx
    memo[key] = idx
    return idx


def _retype(obj, f, names=None):
    """apply f to every type index inside a copied JSON fragment; printed paths of function constants are
    rewritten textually (`<T as Deserr<E>>::..` -> `<A as Deserr<E>>::..`)"""
    if isinstance(obj, dict):
        for key in ("ty", "to", "discr_ty", "elem", "self_ty"):
            if key in obj and isinstance(obj[key], int):
                obj[key] = f(obj[key])
        if "gargs" in obj and isinstance(obj["gargs"], list):
            obj["gargs"] = [f(x) if isinstance(x, int) else x for x in obj["gargs"]]
        if names and "fn" in obj and isinstance(obj["fn"], dict):
            fnd = obj["fn"]
            for key in ("full",):
                if isinstance(fnd.get(key), str):
                    fnd[key] = _subst_text(fnd[key], names)
            if isinstance(obj.get("s"), str):
                obj["s"] = _subst_text(obj["s"], names)
        for v in obj.values():
            _retype(v, f, names)
    elif isinstance(obj, list):
        for v in obj:
            _retype(v, f, names)


def _subst_text(s, names):
    """simultaneous replacement of whole-word type parameter names"""
    if not names:
        return s
    pat = r"(?<![\w:])(%s)(?![\w])" % "|".join(re.escape(n) for n in sorted(names, key=len, reverse=True))
    return re.sub(pat, lambda m: names[m.group(1)], s)


# ------------------------------------------------------------------------------------------ inlining
def inline_body(crate, body, index, depth=0, force=None):
    """returns (Body with eligible helper calls expanded, {paths of inlined helpers}) or (None, set())"""
    d = None
    used = set()
    bi = 0
    nblocks = len(body.blocks)
    while True:
        blocks = d["blocks"] if d is not None else body.blocks
        if bi >= len(blocks):
            break
        blk = blocks[bi]
        bi += 1
        if blk.get("cleanup"):
            continue
        t = blk["term"]
        if t["k"] != "call" or t.get("target") is None:
            continue
        fn = _fn_of(t)
        if fn is None:
            continue
        cpath = fn.get("path") or ""
        if fn.get("krate") != crate.name:
            # generated code of a user crate calling a run-time helper of the library
            if fn.get("krate") != "deserr" or not cpath.startswith("deserr::"):
                continue
            cpath = cpath[len("deserr::"):]
        callee = index.get(cpath)
        if callee is None or (callee.path == body.path and callee.crate is crate):
            continue
        if not (force(callee) if force is not None else eligible(callee.crate, callee, index)):
            continue
        if depth >= MAX_DEPTH:
            continue
        if len(t["args"]) != callee.arg_count:
            continue
        # nested helpers first
        inner, inner_used = inline_body(callee.crate, callee, index, depth + 1, force)
        src = inner if inner is not None else callee
        if d is None:
            d = copy.deepcopy(body.d)
            blocks = d["blocks"]
            blk = blocks[bi - 1]
            t = blk["term"]
        used.add(callee.path)
        used |= inner_used
        loff = len(d["locals"])
        boff = len(blocks)
        # generic arguments
        mapping = {}
        gnames = [g for g in (callee.d.get("generics") or []) if not g.startswith("'")]
        gargs = [x for x in (fn.get("gargs") or []) if isinstance(x, int)]
        if len(gnames) == len(gargs):
            mapping = dict(zip(gnames, gargs))
        memo = {}
        foreign = callee.crate is not crate

        def ty(i, _m=mapping, _memo=memo, _src=callee.crate, _foreign=foreign):
            if _foreign:
                return _xlate_type(_src, crate, i, _m, _memo)
            return _subst_type(crate, i, _m, _memo) if _m else i
        new_locals = copy.deepcopy(src.locals)
        for l in new_locals:
            l["ty"] = ty(l["ty"])
            l["inlined_from"] = callee.path
        d["locals"].extend(new_locals)
        new_blocks = copy.deepcopy(src.blocks)
        for nb in new_blocks:
            _map_block(nb, loff, boff)
            if mapping or foreign:
                _retype(nb, ty, {n_: crate.types[i_]["s"] for n_, i_ in mapping.items() if crate.types[i_]["s"] != n_})
            nb["inlined_from"] = callee.path
        # returns -> hand the value over and continue after the call
        dest = t["dest"]
        for nb in new_blocks:
            if nb["term"]["k"] == "return":
                at = t.get("at", "")
                nb["stmts"].append({"k": "assign", "place": copy.deepcopy(dest),
                                    "rv": {"k": "use", "op": {"k": "move", "place": {"l": loff, "p": [], "ty": new_locals[0]["ty"]}}}, "at": at})
                nb["term"] = {"k": "goto", "target": t["target"], "at": at, "exp": False, "macros": [], "false_edge": False, "false_unwind": False}
        # the call block: parameters := arguments, then enter the callee
        for i, a in enumerate(t["args"]):
            blk["stmts"].append({"k": "assign", "place": {"l": loff + 1 + i, "p": [], "ty": new_locals[1 + i]["ty"]},
                                 "rv": {"k": "use", "op": copy.deepcopy(a)}, "at": t.get("at", "")})
        blk["term"] = {"k": "goto", "target": boff, "at": t.get("at", ""), "exp": False, "macros": [], "false_edge": False, "false_unwind": False,
                       "inlined_call": callee.path}
        blocks.extend(new_blocks)
    if d is None:
        if depth == 0 and _bool_plans(body.d):
            d = copy.deepcopy(body.d)
            thread_known_bools(d)
            nb = Body(crate, d)
            nb.inlined = []
            return nb, set()
        return None, set()
    if depth == 0:
        _expand_combinators(crate, d)
        _inline_closure_calls(crate, d, index, used)
    thread_known_variants(crate, d)
    if depth == 0:
        thread_known_bools(d)
    nb = Body(crate, d)
    nb.inlined = sorted(used)
    return nb, used


# ------------------------------------------------------------------------------- closure calls
def _single_defs(blocks):
    """local -> its only whole definition (statement rvalue) or None when defined several times / by a call"""
    defs = {}
    for blk in blocks:
        if blk.get("cleanup"):
            continue
        for st in blk["stmts"]:
            if st["k"] == "assign" and not st["place"]["p"]:
                defs.setdefault(st["place"]["l"], []).append(st["rv"])
        tm = blk["term"]
        if tm["k"] == "call" and not tm["dest"]["p"]:
            defs.setdefault(tm["dest"]["l"], []).append(None)
    return {l: v[0] for l, v in defs.items() if len(v) == 1}


def _closure_of(local, sdefs, hops=8):
    """follow moves / borrows of a single-definition local back to the closure aggregate that it is"""
    l = local
    for _ in range(hops):
        rv = sdefs.get(l)
        if rv is None:
            return None
        if rv["k"] == "agg" and rv.get("ak") == "closure":
            return rv
        if rv["k"] == "use" and rv["op"]["k"] in ("move", "copy") and not rv["op"]["place"]["p"]:
            l = rv["op"]["place"]["l"]
            continue
        if rv["k"] == "ref" and not rv["place"]["p"]:
            l = rv["place"]["l"]
            continue
        if rv["k"] == "ref" and len(rv["place"]["p"]) == 1 and rv["place"]["p"][0]["k"] == "deref":
            l = rv["place"]["l"]
            continue
        return None
    return None


def _fnitem_of(local, sdefs, hops=8):
    """follow moves / borrows of a single-definition local back to the function item constant that it is"""
    l = local
    for _ in range(hops):
        rv = sdefs.get(l)
        if rv is None:
            return None
        if rv["k"] == "use" and rv["op"]["k"] == "const" and "fn" in rv["op"]:
            return rv["op"]
        if rv["k"] == "use" and rv["op"]["k"] in ("move", "copy") and not rv["op"]["place"]["p"]:
            l = rv["op"]["place"]["l"]
            continue
        if rv["k"] == "ref" and (not rv["place"]["p"] or (len(rv["place"]["p"]) == 1 and rv["place"]["p"][0]["k"] == "deref")):
            l = rv["place"]["l"]
            continue
        return None
    return None


def _inline_closure_calls(crate, d, index, used):
    """`add(&mut collection, value)` where `add` is a helper's closure parameter: after the helper was expanded the
    closure is a known aggregate of the caller, so its body can stand at the call (parameters: the environment, then
    the fields of the argument tuple)."""
    blocks = d["blocks"]
    for _round in range(4):
        sdefs = _single_defs(blocks)
        changed = False
        for bi in range(len(blocks)):
            blk = blocks[bi]
            if blk.get("cleanup"):
                continue
            t = blk["term"]
            if t["k"] != "call" or t.get("target") is None:
                continue
            fn = _fn_of(t)
            if fn is None or fn.get("name") not in ("call", "call_mut", "call_once") or len(t["args"]) != 2:
                continue
            if not any(x in (fn.get("full") or "") for x in ("std::ops::Fn", "std::ops::FnMut", "std::ops::FnOnce")):
                continue
            a0, a1 = t["args"]
            if a0["k"] not in ("move", "copy") or a0["place"]["p"]:
                continue
            unit_args = a1["k"] == "const"        # `f()`: the argument tuple is the unit constant
            if not unit_args and (a1["k"] not in ("move", "copy") or a1["place"]["p"]):
                continue
            clo = _closure_of(a0["place"]["l"], sdefs)
            if clo is None:
                fnitem = _fnitem_of(a0["place"]["l"], sdefs)
                targs = {"k": "agg", "ak": "tuple", "ops": []} if unit_args else sdefs.get(a1["place"]["l"])
                if fnitem is not None and targs is not None and targs["k"] == "agg" and targs.get("ak") == "tuple":
                    # a function item handed around as a value (`Vec::push`, `Some`, `Box::new`): call it directly
                    t["func"] = copy.deepcopy(fnitem)
                    t["args"] = [copy.deepcopy(o) for o in targs["ops"]]
                    t["devirtualised"] = True
                    changed = True
                continue
            cbody = index.get(clo.get("path"))
            if cbody is None or len(cbody.blocks) > MAX_BLOCKS:
                continue
            targs = {"k": "agg", "ak": "tuple", "ops": []} if unit_args else sdefs.get(a1["place"]["l"])
            if targs is None or targs["k"] != "agg" or targs.get("ak") != "tuple" or len(targs["ops"]) != cbody.arg_count - 1:
                continue
            loff = len(d["locals"])
            boff = len(blocks)
            new_locals = copy.deepcopy(cbody.locals)
            for l in new_locals:
                l["inlined_from"] = cbody.path
            d["locals"].extend(new_locals)
            new_blocks = copy.deepcopy(cbody.blocks)
            for nb in new_blocks:
                _map_block(nb, loff, boff)
                nb["inlined_from"] = cbody.path
            at = t.get("at", "")
            for nb in new_blocks:
                if nb["term"]["k"] == "return":
                    nb["stmts"].append({"k": "assign", "place": copy.deepcopy(t["dest"]),
                                        "rv": {"k": "use", "op": {"k": "move", "place": {"l": loff, "p": [], "ty": new_locals[0]["ty"]}}}, "at": at})
                    nb["term"] = {"k": "goto", "target": t["target"], "at": at, "exp": False, "macros": [], "false_edge": False, "false_unwind": False}
            blk["stmts"].append({"k": "assign", "place": {"l": loff + 1, "p": [], "ty": new_locals[1]["ty"]}, "rv": {"k": "use", "op": copy.deepcopy(a0)}, "at": at})
            for i in range(cbody.arg_count - 1):
                fty = new_locals[2 + i]["ty"]
                blk["stmts"].append({"k": "assign", "place": {"l": loff + 2 + i, "p": [], "ty": fty},
                                     "rv": {"k": "use", "op": {"k": "move", "place": {"l": a1["place"]["l"], "p": [{"k": "field", "i": i, "name": str(i), "variant": None, "ty": fty}], "ty": fty}}},
                                     "at": at})
            blk["term"] = {"k": "goto", "target": boff, "at": at, "exp": False, "macros": [], "false_edge": False, "false_unwind": False,
                           "inlined_call": cbody.path}
            blocks.extend(new_blocks)
            used.add(cbody.path)
            changed = True
        if not changed:
            break


# --------------------------------------------------------------------- combinators on an inlined helper's result
# `helper(..).map(Wrap)` / `.map_err(|e| ..)`: after the helper was expanded its result is assigned in the caller, and
# the combinator is the `match` it abbreviates.  Written out here (on the copy) so that the rules see the same shape as
# for the unfactored code; only results of expanded helpers are touched - the combinators of the code as written stay.
COMBINATORS = {
    # name -> (adt, variant the function is applied to, payload index in the adt's generic arguments, wraps the result again)
    ("std::result::Result", "map"): ("Ok", 0, True),
    ("std::result::Result", "map_err"): ("Err", 1, True),
    ("std::result::Result", "and_then"): ("Ok", 0, False),
    ("std::result::Result", "or_else"): ("Err", 1, False),
    ("std::option::Option", "map"): ("Some", 0, True),
    # `r.unwrap_or_else(|e| ..)`: the Ok payload itself, or what the function makes of the error (4th: the other arm is unwrapped)
    ("std::result::Result", "unwrap_or_else"): ("Err", 1, False, True),
}
GOTO = {"exp": False, "macros": [], "false_edge": False, "false_unwind": False}


def _type_index(crate, entry):
    cache = getattr(crate, "_type_by_s", None)
    if cache is None:
        cache = {}
        for i, x in enumerate(crate.types):
            cache.setdefault((x["k"], x["s"]), i)
        crate._type_by_s = cache
    hit = cache.get((entry["k"], entry["s"]))
    if hit is not None:
        return hit
    crate.types.append(entry)
    cache[(entry["k"], entry["s"])] = len(crate.types) - 1
    return len(crate.types) - 1


def _expand_combinators(crate, d, any_receiver=False):
    blocks = d["blocks"]
    from_helper = set()
    for blk in blocks:
        if blk.get("inlined_from"):
            for st in blk["stmts"]:
                if st["k"] == "assign" and not st["place"]["p"]:
                    from_helper.add(st["place"]["l"])
    changed = False
    for bi in range(len(blocks)):
        blk = blocks[bi]
        if blk.get("cleanup") or (blk.get("inlined_from") and not any_receiver):
            continue
        t = blk["term"]
        if t["k"] != "call" or t.get("target") is None or len(t["args"]) != 2 or t["dest"]["p"]:
            continue
        fn = _fn_of(t)
        if fn is None:
            continue
        r, f = t["args"]
        if r["k"] != "move" or r["place"]["p"] or (r["place"]["l"] not in from_helper and not any_receiver):
            continue
        rty = crate.types[r["place"]["ty"]]
        if rty["k"] != "adt":
            continue
        spec = COMBINATORS.get((rty["path"], fn.get("name")))
        if spec is None or not (fn.get("path") or "").startswith(rty["path"]):
            continue
        variant, pidx, wraps = spec[:3]
        unwraps_other = len(spec) > 3 and spec[3]
        adt = crate.adts.get(rty["path"])
        dty = crate.types[t["dest"]["ty"]]
        if not adt or ((dty["k"] != "adt" or dty["path"] != rty["path"]) and not unwraps_other):
            continue
        targs = [a for a in rty["args"] if isinstance(a, int)]
        dargs = [a for a in dty.get("args", []) if isinstance(a, int)] if dty["k"] == "adt" else []
        if len(targs) <= pidx or (len(dargs) <= pidx and not unwraps_other):
            continue
        if f["k"] == "const" and "fn" not in f:
            continue
        if f["k"] != "const" and f["place"]["p"]:
            continue
        at = t.get("at", "")
        isize = _type_index(crate, {"s": "isize", "k": "prim"})
        x_ty = targs[pidx]
        y_ty = dargs[pidx] if wraps else t["dest"]["ty"]
        L = d["locals"]

        def new_local(ty):
            L.append({"ty": ty, "name": None, "mut": True, "user": False, "synthetic": "combinator"})
            return len(L) - 1
        dl = new_local(isize)
        xl = new_local(x_ty)
        yl = new_local(y_ty)
        rl = r["place"]["l"]
        dest = t["dest"]
        target = t["target"]
        vinfo = {v["name"]: v for v in adt["variants"]}
        b_apply = len(blocks)
        b_wrap = b_apply + 1
        b_pass = b_apply + 2
        # the applied arm
        stm = [{"k": "assign", "place": {"l": xl, "p": [], "ty": x_ty},
                "rv": {"k": "use", "op": {"k": "move", "place": {"l": rl, "p": [{"k": "downcast", "variant": variant, "idx": vinfo[variant]["idx"]},
                                                                              {"k": "field", "i": 0, "name": "0", "variant": variant, "ty": x_ty}], "ty": x_ty}}}, "at": at}]
        if f["k"] == "const":
            call = {"at": at, "exp": False, "k": "call", "func": copy.deepcopy(f), "args": [{"k": "move", "place": {"l": xl, "p": [], "ty": x_ty}}],
                    "dest": {"l": yl, "p": [], "ty": y_ty}, "target": b_wrap, "devirtualised": True}
        else:
            tup_ty = _type_index(crate, {"s": "(%s,)" % crate.types[x_ty]["s"], "k": "tuple", "ts": [x_ty]})
            tl = new_local(tup_ty)
            stm.append({"k": "assign", "place": {"l": tl, "p": [], "ty": tup_ty},
                        "rv": {"k": "agg", "ak": "tuple", "ops": [{"k": "move", "place": {"l": xl, "p": [], "ty": x_ty}}]}, "at": at})
            fty = crate.types[f["place"]["ty"]]["s"]
            full = "<%s as std::ops::FnOnce<(%s,)>>::call_once" % (fty, crate.types[x_ty]["s"])
            call = {"at": at, "exp": False, "k": "call",
                    "func": {"k": "const", "ty": None, "s": full, "fn": {"path": "std::ops::FnOnce::call_once", "full": full, "krate": "core", "gargs": [f["place"]["ty"], tup_ty],
                                                                        "name": "call_once", "trait": "std::ops::FnOnce", "self_ty": f["place"]["ty"]}},
                    "args": [copy.deepcopy(f), {"k": "move", "place": {"l": tl, "p": [], "ty": tup_ty}}],
                    "dest": {"l": yl, "p": [], "ty": y_ty}, "target": b_wrap}
        blocks.append({"stmts": stm, "term": call, "synthetic": "combinator", "cleanup": False})
        if wraps:
            wst = [{"k": "assign", "place": copy.deepcopy(dest),
                    "rv": {"k": "agg", "ak": "adt", "path": rty["path"], "variant": variant, "vidx": vinfo[variant]["idx"], "fields": ["0"], "gargs": list(dargs),
                           "ops": [{"k": "move", "place": {"l": yl, "p": [], "ty": y_ty}}]}, "at": at}]
        else:
            wst = [{"k": "assign", "place": copy.deepcopy(dest), "rv": {"k": "use", "op": {"k": "move", "place": {"l": yl, "p": [], "ty": y_ty}}}, "at": at}]
        blocks.append({"stmts": wst, "term": dict(GOTO, k="goto", target=target, at=at), "synthetic": "combinator", "cleanup": False})
        # the other arm: handed on unchanged
        others = [v for v in adt["variants"] if v["name"] != variant]
        if len(others) != 1:
            del blocks[b_apply:]
            continue
        ov = others[0]
        pst = []
        ops = []
        if ov["fields"]:
            o_ty = targs[1 - pidx] if len(targs) > 1 else x_ty
            el = new_local(o_ty)
            pst.append({"k": "assign", "place": {"l": el, "p": [], "ty": o_ty},
                        "rv": {"k": "use", "op": {"k": "move", "place": {"l": rl, "p": [{"k": "downcast", "variant": ov["name"], "idx": ov["idx"]},
                                                                                      {"k": "field", "i": 0, "name": "0", "variant": ov["name"], "ty": o_ty}], "ty": o_ty}}}, "at": at})
            ops = [{"k": "move", "place": {"l": el, "p": [], "ty": o_ty}}]
        if unwraps_other and ops:
            pst.append({"k": "assign", "place": copy.deepcopy(dest), "rv": {"k": "use", "op": ops[0]}, "at": at})
        else:
            pst.append({"k": "assign", "place": copy.deepcopy(dest),
                        "rv": {"k": "agg", "ak": "adt", "path": rty["path"], "variant": ov["name"], "vidx": ov["idx"], "fields": list(ov["fields"]), "gargs": list(dargs), "ops": ops}, "at": at})
        blocks.append({"stmts": pst, "term": dict(GOTO, k="goto", target=target, at=at), "synthetic": "combinator", "cleanup": False})
        # the match itself
        blk["stmts"].append({"k": "assign", "place": {"l": dl, "p": [], "ty": isize}, "rv": {"k": "discr", "place": {"l": rl, "p": [], "ty": r["place"]["ty"]}}, "at": at})
        blk["term"] = {"at": at, "exp": False, "k": "switch", "discr": {"k": "move", "place": {"l": dl, "p": [], "ty": isize}}, "discr_ty": isize,
                       "targets": [[vinfo[variant]["discr"], b_apply], [ov["discr"], b_pass]], "otherwise": b_pass, "expanded_combinator": fn.get("path")}
        changed = True
    if changed:
        _ctor_calls_to_aggregates(crate, d)
    return changed


def _ctor_calls_to_aggregates(crate, d):
    """`Wrap(x)` called as the function that a tuple variant / tuple struct is: the aggregate it builds"""
    for blk in d["blocks"]:
        t = blk["term"]
        if t["k"] != "call" or not t.get("devirtualised") or t.get("target") is None:
            continue
        fn = _fn_of(t)
        if fn is None:
            continue
        dty = crate.types[t["dest"]["ty"]] if t["dest"].get("ty") is not None else None
        if dty is None or dty["k"] != "adt":
            continue
        adt = crate.adts.get(dty["path"])
        if not adt:
            continue
        name = fn.get("name")
        hit = [v for v in adt["variants"] if v["name"] == name and len(v["fields"]) == len(t["args"])]
        # (functions are lower-case by convention and by lint: a capitalised callee that returns the type and is named as
        # one of its tuple variants is that variant's constructor)
        if len(hit) != 1 or not name[:1].isupper():
            continue
        v = hit[0]
        blk["stmts"].append({"k": "assign", "place": copy.deepcopy(t["dest"]),
                             "rv": {"k": "agg", "ak": "adt", "path": dty["path"], "variant": v["name"] if adt.get("kind") == "enum" else None, "vidx": v["idx"],
                                    "fields": list(v["fields"]), "gargs": [a for a in dty.get("args", []) if isinstance(a, int)], "ops": copy.deepcopy(t["args"])},
                             "at": t.get("at", "")})
        blk["term"] = dict(GOTO, k="goto", target=t["target"], at=t.get("at", ""))



# ------------------------------------------------------------------------- known-variant threading
BRANCH_MAP = {"Ok": "Continue", "Some": "Continue", "Err": "Break", "None": "Break", "Continue": "Continue", "Break": "Break"}


def _succs(t):
    k = t["k"]
    if k == "goto":
        return [t["target"]]
    if k == "switch":
        return [b for _, b in t["targets"]] + [t["otherwise"]]
    if k in ("call", "drop", "assert", "yield"):
        return [t["target"]] if t.get("target") is not None else []
    return []


def _preds(blocks):
    pr = {i: [] for i in range(len(blocks))}
    reach = set()
    work = [0]
    while work:
        b = work.pop()
        if b in reach:
            continue
        reach.add(b)
        for s in _succs(blocks[b]["term"]):
            pr[s].append(b)
            work.append(s)
    return pr, reach


def _variant_discr(crate, ty_index, variant):
    t = crate.types[ty_index]
    if t.get("s") == "bool" and variant in ("true", "false"):
        return 1 if variant == "true" else 0
    if t["k"] != "adt":
        return None
    adt = crate.adts.get(t["path"])
    if not adt:
        return None
    for v in adt["variants"]:
        if v["name"] == variant:
            return v["discr"]
    return None


def _is_branch_call(t):
    if t["k"] != "call":
        return False
    fn = _fn_of(t)
    return fn is not None and fn.get("name") == "branch" and "Try" in (fn.get("full") or "")


def thread_known_variants(crate, d, rounds=12):
    """Where a switch on the variant of X (or of `Try::branch(X)`) is reached from several predecessors that have
    just assigned X a known variant (the arms of an inlined helper, or `match` arms building a Result), give
    each predecessor its own copy of the straight-line code up to the switch and resolve the switch there."""
    blocks = d["blocks"]
    locals_ = d["locals"]
    for _ in range(rounds):
        pr, reach = _preds(blocks)
        done = False
        for s in sorted(reach):
            blk = blocks[s]
            t = blk["term"]
            if t["k"] != "switch" or blk.get("cleanup"):
                continue
            dop = t["discr"]
            if dop["k"] not in ("copy", "move") or dop["place"]["p"]:
                continue
            dl = dop["place"]["l"]
            subj = None
            for st in reversed(blk["stmts"]):
                if st["k"] == "assign" and st["place"]["l"] == dl and not st["place"]["p"]:
                    if st["rv"]["k"] == "discr" and not st["rv"]["place"]["p"]:
                        subj = st["rv"]["place"]["l"]
                    break
            if subj is None and crate.types[locals_[dl]["ty"]]["s"] == "bool" and not any(
                    st["k"] == "assign" and st["place"]["l"] == dl and not st["place"]["p"] and st["rv"]["k"] != "use" for st in blk["stmts"]):
                subj = dl      # `if flag`: the flag itself, a two-valued "enum" (false = 0, true = 1)
            if subj is None:
                continue
            switch_ty = locals_[subj]["ty"]
            # walk back along the straight-line chain to the join
            chain = [s]
            via_branch = False
            cur = s
            ok = True
            steps = 0

            def scan_back(block_index, subj, upto=None):
                """follow `subj = move Y` copies backwards inside one block; returns (subj, known variant | None, stop)"""
                stmts = blocks[block_index]["stmts"]
                for st in reversed(stmts if upto is None else stmts[:upto]):
                    if st["k"] != "assign" or st["place"]["p"] or st["place"]["l"] != subj:
                        continue
                    rv = st["rv"]
                    if rv["k"] == "use" and rv["op"]["k"] in ("move", "copy") and not rv["op"]["place"]["p"]:
                        subj = rv["op"]["place"]["l"]
                        continue
                    if rv["k"] == "agg" and rv.get("ak") == "adt" and rv.get("variant"):
                        return subj, rv["variant"], True
                    if rv["k"] == "use" and rv["op"]["k"] == "const" and isinstance(rv["op"].get("bool"), bool):
                        return subj, "true" if rv["op"]["bool"] else "false", True
                    return subj, None, True
                return subj, None, False
            # inside the switch block itself (before the discriminant read)
            subj, known, stop = scan_back(s, subj)
            if stop:
                continue   # defined in the switch block itself: nothing to thread
            while True:
                steps += 1
                if steps > 12:
                    ok = False
                    break
                ps = pr[cur]
                if len(ps) != 1:
                    break
                p = ps[0]
                pt = blocks[p]["term"]
                if len(_succs(pt)) != 1 or blocks[p].get("cleanup"):
                    ok = False
                    break
                if pt["k"] == "call":
                    if pt["dest"]["l"] == subj and not pt["dest"]["p"]:
                        if _is_branch_call(pt) and not via_branch and pt["args"] and pt["args"][0]["k"] in ("move", "copy") and not pt["args"][0]["place"]["p"]:
                            via_branch = True
                            subj = pt["args"][0]["place"]["l"]
                        else:
                            ok = False
                            break
                chain.insert(0, p)
                subj, known, stop = scan_back(p, subj)
                if stop:
                    ok = False   # defined on the chain itself by something that is not a join: a single known value, handled below
                    break
                cur = p
            if not ok:
                continue
            join = chain[0]
            jp = pr[join]
            if len(jp) < 2:
                continue
            # every way of arriving at the join along straight-line code (through inner joins as well) that starts right
            # after an assignment of a known variant to the subject: [(assignment block, variant, [blocks from there to the join))]
            plans = []

            def back(blockid, sj, path, depth):
                if depth > 48 or len(plans) > 12:
                    return
                qt = blocks[blockid]["term"]
                if len(_succs(qt)) != 1 or blocks[blockid].get("cleanup"):
                    return
                if qt["k"] == "call" and qt["dest"]["l"] == sj and not qt["dest"]["p"]:
                    # `Err(e)?` / `None?` of an expanded helper: what `from_residual` builds is the failing variant
                    fq = _fn_of(qt)
                    if fq is not None and fq.get("name") == "from_residual" and "FromResidual" in (fq.get("full") or ""):
                        tq = crate.types[locals_[sj]["ty"]]
                        kvq = {"std::result::Result": "Err", "std::option::Option": "None", "std::ops::ControlFlow": "Break"}.get(tq.get("path")) if tq["k"] == "adt" else None
                        if kvq:
                            plans.append((blockid, kvq, list(path)))
                    return
                sj2, kv, stop = scan_back(blockid, sj)
                if kv:
                    plans.append((blockid, kv, list(path)))
                    return
                if stop:
                    return
                for q in pr[blockid]:
                    if q in path or q == blockid:
                        continue
                    back(q, sj2, [blockid] + path, depth + 1)
            for p in jp:
                back(p, subj, [], 0)
            if not plans:
                continue
            for p, kv, prefix in plans:
                variant = BRANCH_MAP.get(kv) if via_branch else kv
                if variant is None:
                    continue
                dv = _variant_discr(crate, switch_ty, variant)
                if dv is None:
                    continue
                tgt = None
                for v, b in t["targets"]:
                    if v == dv:
                        tgt = b
                if tgt is None:
                    tgt = t["otherwise"]
                # clone the way from the assignment to the switch for this arrival
                full = prefix + chain
                base = len(blocks)
                clones = copy.deepcopy([blocks[c] for c in full])
                for i, cb in enumerate(clones):
                    cb["threaded_from"] = full[i]
                    ct = cb["term"]
                    if i < len(clones) - 1:
                        nxt = base + i + 1
                        if ct["k"] == "goto":
                            ct["target"] = nxt
                        elif ct["k"] in ("call", "drop", "assert"):
                            ct["target"] = nxt
                        # a resolved `Try::branch`: replace the call by the value it returns
                        if via_branch and _is_branch_call(ct):
                            arg = ct["args"][0]
                            at = ct.get("at", "")
                            if variant == "Continue":
                                inner_variant = kv
                                src_ty = locals_[arg["place"]["l"]]["ty"]
                                op = {"k": "move", "place": {"l": arg["place"]["l"], "p": [{"k": "downcast", "variant": inner_variant, "idx": 0},
                                                                                             {"k": "field", "i": 0, "name": "0", "variant": inner_variant, "ty": src_ty}], "ty": src_ty}}
                                cb["stmts"].append({"k": "assign", "place": copy.deepcopy(ct["dest"]),
                                                    "rv": {"k": "agg", "ak": "adt", "path": "std::ops::ControlFlow", "variant": "Continue", "vidx": 0,
                                                           "fields": ["0"], "gargs": [], "ops": [op]}, "at": at})
                            else:
                                cb["stmts"].append({"k": "assign", "place": copy.deepcopy(ct["dest"]),
                                                    "rv": {"k": "agg", "ak": "adt", "path": "std::ops::ControlFlow", "variant": "Break", "vidx": 1,
                                                           "fields": ["0"], "gargs": [], "ops": [copy.deepcopy(arg)]}, "at": at})
                            cb["term"] = {"k": "goto", "target": nxt, "at": at, "exp": False, "macros": [], "false_edge": False, "false_unwind": False}
                    else:
                        cb["term"] = {"k": "goto", "target": tgt, "at": ct.get("at", ""), "exp": False, "macros": [], "false_edge": False,
                                      "false_unwind": False, "resolved_switch": variant}
                blocks.extend(clones)
                # retarget the edge that leaves the assignment block
                first = full[0]
                ptm = blocks[p]["term"]
                if ptm["k"] == "goto":
                    ptm["target"] = base
                elif ptm["k"] in ("call", "drop", "assert"):
                    ptm["target"] = base
                elif ptm["k"] == "switch":
                    ptm["targets"] = [[v, base if b == first else b] for v, b in ptm["targets"]]
                    if ptm["otherwise"] == first:
                        ptm["otherwise"] = base
                done = True
            if done:
                break
        if not done:
            break
    # blocks that lost their last predecessor keep their index but no longer say anything
    _pr, reach = _preds(blocks)
    for i, blk in enumerate(blocks):
        if i not in reach and not blk.get("cleanup"):
            blk["stmts"] = []
            blk["term"] = {"k": "unreachable", "at": blk["term"].get("at", ""), "exp": False, "macros": []}
            blk["dead_after_threading"] = True
    return d


# ------------------------------------------------------------------------------ known bool at a join
def _bool_plans(d):
    """`matches!(x, P)` / `let stop = if .. { true } else { false }` followed by `if`: the arms that have just assigned the
    constant can go straight to where the `if` sends them: [(predecessor, switch block, target)]"""
    blocks = d["blocks"]
    pr, reach = _preds(blocks)
    plans = []
    for s_ in sorted(reach):
        blk = blocks[s_]
        t = blk["term"]
        if t["k"] != "switch" or blk.get("cleanup"):
            continue
        dop = t["discr"]
        if dop["k"] not in ("copy", "move") or dop["place"]["p"]:
            continue
        b = dop["place"]["l"]
        if any(st["k"] == "assign" and st["place"]["l"] == b for st in blk["stmts"]):
            continue
        if len(pr[s_]) < 2:
            continue
        for p in pr[s_]:
            pb = blocks[p]
            if pb["term"]["k"] != "goto" or pb.get("cleanup") or p == s_:
                continue
            val = None
            for st in reversed(pb["stmts"]):
                if st["k"] == "assign" and st["place"]["l"] == b:
                    rv = st["rv"]
                    if not st["place"]["p"] and rv["k"] == "use" and rv["op"]["k"] == "const" and isinstance(rv["op"].get("bool"), bool):
                        val = rv["op"]["bool"]
                    break
            if val is None:
                continue
            tgt = None
            for v_, tb in t["targets"]:
                if v_ == (1 if val else 0):
                    tgt = tb
            if tgt is None:
                tgt = t["otherwise"]
            plans.append((p, s_, tgt, val))
    return plans


def thread_known_bools(d, rounds=6):
    blocks = d["blocks"]
    any_change = False
    for _ in range(rounds):
        plans = _bool_plans(d)
        if not plans:
            break
        for p, s_, tgt, val in plans:
            cb = copy.deepcopy(blocks[s_])
            cb["threaded_from"] = s_
            cb["term"] = {"k": "goto", "target": tgt, "at": cb["term"].get("at", ""), "exp": False, "macros": [], "false_edge": False,
                          "false_unwind": False, "resolved_switch": val}
            blocks.append(cb)
            blocks[p]["term"]["target"] = len(blocks) - 1
        any_change = True
    if any_change:
        _pr, reach = _preds(blocks)
        for i, blk in enumerate(blocks):
            if i not in reach and not blk.get("cleanup"):
                blk["stmts"] = []
                blk["term"] = {"k": "unreachable", "at": blk["term"].get("at", ""), "exp": False, "macros": []}
                blk["dead_after_threading"] = True
    return any_change


_INDEX = {}


def inlined(crate, body):
    """the body with the library's protocol-carrying helpers expanded (or the body itself)"""
    idx = _INDEX.get(id(crate))
    if idx is None:
        idx = {b.path: b for b in crate.bodies}
        _INDEX[id(crate)] = idx
    if crate.name != "deserr":
        return body
    nb, _used = inline_body(crate, body, idx)
    return nb if nb is not None else body


def expand_local_helpers(crate, body, keep=()):
    """body with every call of a private, non-recursive free function of the same crate expanded (used where a rule reads
    one function's decision table and a refactoring may have moved part of it into a helper); `keep`: paths that stay calls"""
    idx = _INDEX.get(id(crate))
    if idx is None:
        idx = {b.path: b for b in crate.bodies}
        _INDEX[id(crate)] = idx

    def helper(callee):
        if callee.kind not in ("Fn", "AssocFn") or callee.impl_trait is not None or callee.path in keep or callee.path.split("::")[-1] in PROTECTED:
            return False
        if callee.path != callee.root or len(callee.blocks) > MAX_BLOCKS:
            return False
        for blk in callee.blocks:
            if blk["term"]["k"] == "call":
                fn = _fn_of(blk["term"])
                if fn is not None and fn.get("path") == callee.path:
                    return False
        return True
    nb, _used = inline_body(crate, body, idx, 0, helper)
    return nb if nb is not None else body


def combinators_expanded(crate, body):
    """body with every `.map(f)` / `.map_err(f)` / `.and_then(f)` / `.or_else(f)` on a Result (and Option::map) written out
    as the match it abbreviates, the closures given to them standing in the arms (for rules that read one small function's
    arms and would otherwise have to know each way of spelling them)"""
    idx = _INDEX.get(id(crate))
    if idx is None:
        idx = {b.path: b for b in crate.bodies}
        _INDEX[id(crate)] = idx
    d = copy.deepcopy(body.d)
    used = set()
    if not _expand_combinators(crate, d, any_receiver=True):
        return body
    _inline_closure_calls(crate, d, idx, used)
    thread_known_variants(crate, d)
    thread_known_bools(d)
    nb = Body(crate, d)
    nb.inlined = sorted(used | set(getattr(body, "inlined", []) or []))
    return nb


def bools_threaded(crate, body):
    """the body with known bools at joins resolved (`matches!(x, P)` followed by `if`), nothing else changed"""
    if not _bool_plans(body.d):
        return body
    d = copy.deepcopy(body.d)
    thread_known_bools(d)
    nb = Body(crate, d)
    nb.inlined = list(getattr(body, "inlined", []) or [])
    return nb
