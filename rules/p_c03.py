"""C03 — a stop answer ends the work; fail-fast = first keep-going report."""
import flow
from check import PropResult
from common import scopes
from sites import BodySites, npath


def builtin_break(ctx, res):
    """C03.BUILTIN: the built-in error types construct only ControlFlow::Break (or delegate to `error`)."""
    crate = ctx.libcrate("deserr")
    from analysis import View
    from lin import Finding
    n = 0
    fs = []
    for b in crate.bodies:
        if b.impl_trait is None or npath(b.impl_trait) not in ("DeserializeError", "MergeWithError"):
            continue
        if b.path != b.root:
            continue
        st = b.impl_self_str() or ""
        if "JsonError" not in st and "QueryParamError" not in st:
            continue
        n += 1
        v = View(b)
        ok = False
        for bb in sorted(v.reach):
            for s in v.blocks[bb]["stmts"]:
                if s["k"] == "assign" and s["place"]["l"] == 0 and not s["place"]["p"]:
                    rv = s["rv"]
                    if rv["k"] == "agg" and rv.get("path") == "std::ops::ControlFlow":
                        if rv["variant"] == "Break":
                            ok = True
                        else:
                            fs.append(Finding("C03.BUILTIN", b.path, "built-in error type answers %s" % rv["variant"], s.get("at", "")))
                    else:
                        fs.append(Finding("C03.BUILTIN", b.path, "answer is not a literal ControlFlow::Break", s.get("at", "")))
            t = v.blocks[bb]["term"]
            if t["k"] == "call" and t["dest"]["l"] == 0:
                c = v.callee(bb)
                if c.deserr_trait() == "DeserializeError" and c.name == "error" and ("JsonError" in c.full or "QueryParamError" in c.full):
                    ok = True
                else:
                    fs.append(Finding("C03.BUILTIN", b.path, "answer computed by %s" % c.full, t.get("at", "")))
        if not ok and not fs:
            fs.append(Finding("C03.BUILTIN", b.path, "no Break answer found", b.span))
    res.add("C03.BUILTIN", n, fs)
    res.floor("built-in error/merge bodies", n, 6)


RUNS_TO_THE_END = {"fold", "for_each", "reduce", "count", "last", "sum", "product", "max_by", "min_by", "max_by_key", "min_by_key", "partition", "unzip"}
LAZY = {"map", "filter", "filter_map", "flat_map", "inspect", "scan", "map_while", "take_while", "skip_while"}


def iter_rule(sc, crate, b, v, bs):
    """The closure `b` makes a report.  If it is the function of `Iterator::fold` / `for_each` / .. the iteration cannot be
    ended from inside it: whatever the error type answers, the remaining items are visited (and examined) all the same."""
    from analysis import View, strip_refs, erase_generics
    from lin import Finding
    out = []
    parent_path = b.path.rsplit("::{closure", 1)[0]
    parents = [(mc, mb) for mc, mb, _r in sc.members if mc is crate and mb.path == parent_path]
    if not parents:
        parents = [(crate, pb) for pb in crate.bodies if pb.path == parent_path]
    ob = 0
    for pc, pb in parents[:1]:
        pv = sc.view(pc, pb) if any(mb is pb for _c, mb, _r in sc.members) else View(pb)
        for bb, c in pv.calls():
            if c.fn is None or not c.trait or erase_generics(c.trait) != "std::iter::Iterator":
                continue
            t = pv.origin_call(bb)
            hit = False
            for a in t[3]:
                a = strip_refs(a)
                if a and a[0] == "agg" and a[1] == "closure" and len(a) > 3 and a[3] == b.path:
                    hit = True
            if not hit:
                continue
            ob += 1
            at = pv.blocks[bb]["term"].get("at", "")
            if c.name in RUNS_TO_THE_END:
                out.append(Finding("C03.ITER", b.path, "a report is made inside the function given to Iterator::%s, which visits every remaining item whatever the error type answers: "
                                   "a Break answer does not end the work" % c.name, at))
            elif c.name in LAZY:
                out.append(Finding("C03.ITER", b.path, "a report is made inside the function given to Iterator::%s: whether a Break answer ends the iteration depends on how the "
                                   "adapted iterator is consumed, which was not read: not recognised (undecided)" % c.name, at, undecided=True))
    return out, ob


RESULT_COMBINATORS = {"map_err", "or_else", "and_then", "ok_or_else", "map_or_else", "unwrap_or_else", "map"}


def collapsed_in_closures(sc):
    """A closure with a collapsed report site returns the stopped error to the combinator that called it
    (`r.map_err(|e| take_cf_content(E::merge(None, e, loc)))`).  Whatever the error type answered - Break included - the
    code after the combinator sees only `Err(e)`: on that path it must return without examining anything, exactly as
    after a collapsed site written in the function itself.  Followed outwards through nested closures."""
    from analysis import View, strip_refs, erase_generics
    from lin import Finding

    class _S:
        bb = -1
    out = []
    ob = 0
    members = {(c.name, b.path): (c, b) for c, b, _r in sc.members}
    yields = []   # closures whose result may be a collapsed stop
    for c, b, role in sc.members:
        if b.kind != "Closure":
            continue
        bs = BodySites(sc.view(c, b))
        if any(s_.handling == "collapsed" for s_ in bs.sites):
            yields.append((c, b))
    seen = set()
    while yields:
        c, b = yields.pop()
        if b.path in seen:
            continue
        seen.add(b.path)
        parent_path = b.path.rsplit("::{closure", 1)[0]
        pc_pb = members.get((c.name, parent_path))
        if pc_pb is None:
            pb = next((x for x in c.bodies if x.path == parent_path), None)
            if pb is None:
                continue
            pc, pv = c, View(pb)
        else:
            pc, pb = pc_pb
            pv = sc.view(pc, pb)
        pbs = BodySites(pv)
        for bb, cc in pv.calls():
            if cc.fn is None or cc.name not in RESULT_COMBINATORS or not (cc.path or "").startswith(("std::result::Result", "std::option::Option")):
                continue
            t = pv.origin_call(bb)
            if not any(strip_refs(a) and strip_refs(a)[0] == "agg" and strip_refs(a)[1] == "closure" and len(strip_refs(a)) > 3 and strip_refs(a)[3] == b.path for a in t[3]):
                continue
            tm = pv.blocks[bb]["term"]
            dest = tm["dest"]
            if dest["p"] or tm.get("target") is None or not pc.tys(dest["ty"]).startswith("std::result::Result<"):
                continue
            ob += 1
            fs = flow.check_stop_region(pv, pbs, tm["target"], _S(), "C03.STOP",
                                        "after the unconditional stop inside the closure given to %s" % cc.name,
                                        [dest["l"]], lambda x, _bb=bb: x[0] == "call" and x[1] == _bb, known0={dest["l"]: "Err"})
            out += fs
            if not fs and pb.kind == "Closure":
                yields.append((pc, pb))     # the error travels on through this closure's own result
    return out, ob


def run(ctx):
    res = PropResult("C03")
    res.level = "proof"
    switched = collapsed = 0
    for label, sc, local in scopes(ctx):
        for c, b, role in sc.members:
            v = sc.view(c, b)
            bs = BodySites(v)
            fs, ob = flow.c03_rules(v, bs)
            switched += sum(1 for s in bs.sites if s.handling == "switched")
            collapsed += sum(1 for s in bs.sites if s.handling == "collapsed")
            res.add("C03.BREAK/STOP", ob, fs)
            for s in bs.sites:
                if len(res.samples) < 8 and s.handling == "switched" and role == "root":
                    res.samples.append({"body": b.path, "site": "%s/%s at %s" % (s.kind, s.ek, s.at), "break_edge": "bb%s" % s.brk,
                                        "verdict": "every feasible path from the Break edge returns Err(payload) without examining anything"})
                    break
            # C03.ITER: a report made inside the closure of an iterator consumer that always runs to the end
            if b.kind == "Closure" and bs.sites:
                fs_i, ob_i = iter_rule(sc, c, b, v, bs)
                res.add("C03.ITER", ob_i, fs_i)
        # C03.STOP across closures: a closure that collapses an answer (take_cf_content: Break and Continue alike) hands an error
        # to whoever called the combinator it was given to; that caller must treat it as a stop
        fs_c, ob_c = collapsed_in_closures(sc)
        res.add("C03.STOP", ob_c, fs_c)
    import controls
    controls.run(ctx, res, "C03", lambda crate, b, v, bs: flow.c03_rules(v, bs)[0])
    builtin_break(ctx, res)
    res.analysed.update({"switched_sites": switched, "collapsed_sites": collapsed})
    res.floor("switched report sites", switched, 15)
    if not getattr(ctx, "degraded", None):
        res.floor("collapsed report sites", collapsed, 85)
    res.trusted_base = ["rustc nightly MIR construction", "mirfacts extractor", "rules/flow.py (path-sensitive stop-region walk)"]
    res.assumptions = ["C02's rules hold (checked on the same sites)", "unwinding ignored", "derived code: per catalogue entry"]
    res.explanation = ("From the Break edge of every switched report site and after every collapsed (take_cf_content) site, all feasible paths reach "
                       "Return with Err(that error), passing no loop, child call, iterator step, payload access, user function or new report; "
                       "merges are allowed only as hand-over of the stopped error. Built-in error types only answer Break.")
    return res
