"""Shared driver of the derive properties C07–C11: runs derive_rules once and keeps one property's rules."""
import derive_rules
from check import PropResult

TEXT = {
    "C07": "Per catalogue entry and for all payloads: the i-th key comparison uses exactly the i-th non-skipped field's effective key (rename > own level's rename_all > identifier, computed by an independent reference renamer), its arm fills that field's state local only, and the built value takes field j from state local j; comparison is str::eq on the entry's own key.",
    "C08": "Per catalogue entry and for all payloads: initial field states (Missing / Some(Default) / Some(expr)) follow the attributes, skipped fields are never written, arms assign Some or Err (never Missing), exactly the non-default non-skipped fields have one missing-check after the loop reporting MissingField{effective key} at the container location (or calling the user's function with exactly those two arguments), and the final value applies the field's map function (identity otherwise). FieldState::{is_missing,map,unwrap} summaries are re-derived from the library.",
    "C09": "Per catalogue entry and for all payloads: with deny_unknown_fields the all-comparisons-false arm holds exactly one UnknownKey{current key, accepted = effective keys of the non-skipped fields in declaration order} report at the container location (or one call of the user's function with those arguments and one hand-over); without it the arm has no call, report or write; the tag is removed before the map is iterated; variants inherit the container's setting.",
    "C10": "Per catalogue entry and for all payloads: the tag is removed from the input's own map under the declared key; absent ⇒ MissingField(tag) and return; non-string ⇒ kind error [String] and return; the string is compared (str::eq) with the effective variant names in declaration order and arm k builds variant k; all-false ⇒ report and return, building no value. Unit enums likewise on the input string with UnknownValue{accepted = all names in order}.",
    "C11": "Per catalogue entry and for all payloads: a field's from/try_from function has one call site, dominated by the Ok edge of its intermediate child, receiving that Ok payload (by value or reference as declared); a try_from error is merged once into the field's error type then once into the container's; map functions run only in the final construction which is dominated by the accumulator's None edge; validate has one call site receiving the payload of the container's own `?` and the location, its error handed over at the location, its result returned; container from/try_from deserialise the declared intermediate type with (input, location) and `?` first; field-level error types instantiate the child call.",
}


KNOWN_API = ("take_cf_content", "FieldState::", "Deserr::deserialize_from_value", "DeserializeError::error", "MergeWithError::merge", "IntoValue::", "Map::", "Sequence::",
             "ValuePointerRef::", "Value::", "ErrorKind::", "ValueKind::", "deserialize")


def unknown_library_api(ctx):
    """library functions the generated code of the catalogue calls that the skeleton reader does not model (e.g. run-time helpers
    a restructured template delegates to): with any of them in play, what the reader extracts is not the whole story"""
    from sites import npath
    from analysis import erase_generics
    try:
        cat = ctx.corpus("catalogue")["deserr_catalogue"]
    except Exception:
        return []
    unknown = set()
    for b in cat.bodies:
        if not (b.impl_trait and npath(b.impl_trait) == "Deserr") and not (b.root != b.path):
            continue
        for blk in b.blocks:
            tm = blk["term"]
            if tm["k"] != "call" or tm["func"].get("k") != "const" or "fn" not in tm["func"]:
                continue
            fn = tm["func"]["fn"]
            if fn.get("krate") != "deserr":
                continue
            if fn.get("trait"):
                continue
            nm = npath(erase_generics(fn.get("path") or ""))
            if not any(nm == k or nm.startswith(k) for k in KNOWN_API):
                unknown.add(nm)
    # the same when the template hands its phases to closures of `Result::and_then` (one expression per impl): the reader
    # follows the function's own control flow, not a chain of closures that each hold a phase
    idx = {b.path: b for b in cat.bodies}
    for b in cat.bodies:
        if not (b.impl_trait and npath(b.impl_trait) == "Deserr") or b.root != b.path:
            continue
        for blk in b.blocks:
            tm = blk["term"]
            if tm["k"] != "call" or tm["func"].get("k") != "const" or "fn" not in tm["func"]:
                continue
            fn = tm["func"]["fn"]
            if fn.get("name") != "and_then" or not (fn.get("path") or "").startswith("std::result::Result"):
                continue
            # a closure given to it that deserialises / reports / iterates
            for blk2 in b.blocks:
                for st in blk2["stmts"]:
                    if st["k"] == "assign" and st["rv"]["k"] == "agg" and st["rv"].get("ak") == "closure":
                        cb = idx.get(st["rv"].get("path"))
                        if cb is None:
                            continue
                        for cblk in cb.blocks:
                            ct = cblk["term"]
                            if ct["k"] == "call" and ct["func"].get("k") == "const" and "fn" in ct["func"]:
                                cn = ct["func"]["fn"]
                                if cn.get("name") in ("deserialize_from_value", "next", "into_iter", "remove") and ("Deserr" in (cn.get("full") or "") or "deserr" == cn.get("krate") or "Iterator" in (cn.get("full") or "")):
                                    unknown.add("Result::and_then(closure holding a phase of the template)")
    return sorted(unknown)


def run_for(ctx, pid):
    R = derive_rules.run(ctx)
    unk = unknown_library_api(ctx)
    if unk:
        for f in R.findings:
            if not f.rule.endswith(".BUILD") and ".G" not in f.rule:
                f.undecided = True
                f.what += "  [the generated code calls library helpers the reader does not model: %s - undecided]" % ", ".join(unk[:3])
    res = PropResult(pid)
    res.level = "translation_validation" if False else "other"
    by_rule = {}
    for f in R.findings:
        if f.rule.startswith(pid) or f.rule.startswith("DERIVE."):
            by_rule.setdefault(f.rule, []).append(f)
    for rule in sorted(set(list(by_rule) + [r for r in R.ob if r.startswith(pid)])):
        fs = by_rule.get(rule, [])
        res.add(rule, max(R.ob.get(rule, 0), len(fs)), fs)
    res.samples = R.samples.get(pid, [])
    res.analysed = {"catalogue_entries": R.entries, "by_kind": R.kinds, "tier": ctx.tier, "seed": ctx.seed}
    res.floor("catalogue entries", R.entries, 80)
    if not getattr(ctx, "catalogue_excluded", None):
        for k, n in (("struct", 25), ("tagged_enum", 6), ("unit_enum", 5), ("from", 2), ("try_from", 2)):
            res.floor("catalogue entries of kind " + k, R.kinds.get(k, 0), n)
    else:
        res.notes.append("catalogue entries excluded because the code derived for them does not compile: %s" % sorted(ctx.catalogue_excluded))
    res.trusted_base = ["rustc nightly (macro expansion, type check, MIR construction)", "mirfacts extractor",
                        "rules/skeleton.py + rules/derive_rules.py", "rules/catgen.py reference semantics (documented renaming / attribute meaning)"]
    res.assumptions = ["verdict is per catalogue entry (every template branch in the hand-written base + attribute combinations sampled from VERIF_SEED); generator-level rules extend it to all inputs where stated",
                       "identifier grammar of the catalogue: lower_snake fields, PascalCase variants", "user functions are opaque marker functions"]
    res.explanation = TEXT[pid]
    return res
