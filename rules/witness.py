"""Runs the C16 reject corpus through rustc (cargo check --bins --keep-going, never executed)."""
import hashlib
import json
import os
import re
import shutil
import subprocess
import time

import extract
import witgen


def _messages_from_derive(crate):
    """string constants of deserr_internal (the texts handed to syn::Error) — harvested, not hard-coded"""
    msgs = set()
    frags = set()

    def visit(o):
        if isinstance(o, dict):
            if o.get("k") == "const":
                if "str" in o and len(o["str"]) >= 8:
                    msgs.add(o["str"])
                elif "s" in o and isinstance(o["s"], str) and (o["s"].startswith("const b\"") or o["s"].startswith("b\"")):
                    for run in re.findall(r"[A-Za-z`' ,.:_-]{10,}", o["s"]):
                        frags.add(run.strip())
            for v in o.values():
                visit(v)
        elif isinstance(o, list):
            for v in o:
                visit(v)
    for b in crate.bodies:
        visit(b.blocks)
    return msgs, frags


SYN_MESSAGES = ("expected", "unexpected", "unsupported", "cannot parse", "unrecognized")


NOT_DERIVE = ("cannot find", "proc-macro derive", "aborting due to", "could not compile", "internal compiler error")


def is_derive_message(msg, msgs, frags, code="?"):
    if code is None and not any(msg.startswith(x) for x in NOT_DERIVE) and "panicked" not in msg:
        # diagnostics of the compiler's own analyses of the generated code (resolution, typing, borrowing) carry an error code;
        # what a derive hands back through compile_error! / syn::Error carries none - whatever way its text was put together
        return "derive"
    if msg in msgs:
        return "derive"
    for f in frags:
        if len(f) >= 12 and f in msg:
            return "derive"
    for m in msgs:
        if len(m) >= 16 and (m in msg):
            return "derive"
    low = msg.lower()
    if any(low.startswith(x) for x in SYN_MESSAGES):
        return "syn"  # parse errors raised by syn on behalf of the derive's attribute parser
    return None


def run(ctx, derive_crate):
    tier, seed = ctx.tier, ctx.seed
    ws = witgen.witnesses(tier, seed)
    tag = extract._repo_tag()
    work = os.path.join(extract.CACHE, "work", tag, "witness-" + tier)
    target = os.path.join(extract.CACHE, "target", tag, "witness")
    with extract.Lock("witness-%s" % tag):
        shutil.rmtree(work, ignore_errors=True)
        os.makedirs(os.path.join(work, "src", "bin"))
        open(os.path.join(work, "Cargo.toml"), "w").write(
            '[package]\nname = "deserr_witness"\nversion = "0.0.0"\nedition = "2021"\npublish = false\n\n[workspace]\n\n'
            '[dependencies]\ndeserr = { path = "%s" }\n' % extract.REPO)
        shutil.copy(os.path.join(extract.REPO, "Cargo.lock"), os.path.join(work, "Cargo.lock"))
        names = {}
        for i, w in enumerate(ws):
            base = "w%03d" % i
            names[base + "p"] = (w, True)
            names[base + "t"] = (w, False)
            open(os.path.join(work, "src", "bin", base + "p.rs"), "w").write(witgen.render(w, True))
            open(os.path.join(work, "src", "bin", base + "t.rs"), "w").write(witgen.render(w, False))
        env = extract._env()
        env["CARGO_TARGET_DIR"] = target
        env["RUSTFLAGS"] = "-Awarnings"
        t0 = time.time()
        r = subprocess.run(["cargo", "+nightly", "check", "--offline", "--bins", "--keep-going", "--message-format=json"],
                           cwd=work, env=env, stdout=subprocess.PIPE, stderr=subprocess.PIPE, text=True)
        wall = time.time() - t0
    diags = {}
    built = set()
    for line in r.stdout.splitlines():
        try:
            m = json.loads(line)
        except ValueError:
            continue
        if m.get("reason") == "compiler-message":
            tn = m["target"]["name"]
            d = m["message"]
            if d.get("level") == "error":
                spans = d.get("spans") or []
                fn = spans[0]["file_name"] if spans else ""
                line_no = spans[0]["line_start"] if spans else 0
                diags.setdefault(tn, []).append({"msg": d["message"], "file": fn, "line": line_no, "code": (d.get("code") or {}).get("code")})
        elif m.get("reason") == "compiler-artifact":
            built.add(m["target"]["name"])
    if "deserr" not in built and not any(n in built for n in names):
        raise RuntimeError("witness build did not run:\n" + r.stderr[-3000:])
    msgs, frags = _messages_from_derive(derive_crate)
    prelude_lines = witgen.PRELUDE.count("\n") + 1
    results = []
    for base, (w, poisoned) in sorted(names.items()):
        errs = diags.get(base, [])
        if poisoned:
            verdict = "rejected"
            why = None
            if base in built and not errs:
                verdict = "ACCEPTED"
            else:
                good = [e for e in errs if e["msg"] != "aborting due to previous error" and not e["msg"].startswith("aborting due to")]
                kinds = [is_derive_message(e["msg"], msgs, frags, e.get("code")) for e in good]
                in_input = [e for e, k in zip(good, kinds) if k and e["line"] >= prelude_lines]
                if not good:
                    verdict = "NO-DIAGNOSTIC"
                elif not any(kinds):
                    verdict = "REJECTED-BY-RUSTC-ONLY"
                    why = good[0]["msg"]
                elif any("panicked" in e["msg"] for e in good):
                    verdict = "PANIC"
                    why = good[0]["msg"]
                else:
                    why = [e["msg"] for e, k in zip(good, kinds) if k][0]
            results.append({"witness": w.name, "cause": w.cause, "level": w.level, "role": "poisoned", "verdict": verdict, "diagnostic": why, "bin": base})
        else:
            ok = base in built and not errs
            results.append({"witness": w.name, "cause": w.cause, "level": w.level, "role": "twin", "verdict": "compiles" if ok else "TWIN-BROKEN",
                            "diagnostic": errs[0]["msg"] if errs else None, "bin": base})
    return results, {"witnesses": len(ws), "wall_s": round(wall, 1), "derive_messages": len(msgs)}
