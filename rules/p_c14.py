"""C14 — built-in error messages name the right place, value and alternatives: *dependence* and
structure of JsonError / QueryParamError message construction (not wording)."""
from analysis import View, strip_refs, erase_generics, term_mentions
from check import PropResult
from lin import Finding
from loc import canon, fmt, call_name
from sites import npath, follow_local_use
import skeleton
import p_c13

EK = ["IncorrectValueKind", "MissingField", "UnknownKey", "UnknownValue", "BadSequenceLen", "Unexpected"]
NEED = {
    "IncorrectValueKind": {"actual", "accepted"},
    "MissingField": {"field"},
    "UnknownKey": {"key", "accepted"},
    "UnknownValue": {"value", "accepted"},
    "BadSequenceLen": {"actual", "expected"},
    "Unexpected": {"msg"},
}


def fnd(rule, v, what, bb=None, detail=""):
    at = v.blocks[bb]["term"].get("at", "") if bb is not None else v.b.span
    return Finding(rule, v.b.path, what, at, detail)


def find(crate, path):
    for b in crate.bodies:
        if b.path == path:
            return b
    return None


def deep(v, t, depth=0):
    """expand single-assignment user locals inside a term (so that dependence is transitive)"""
    if depth > 8 or not isinstance(t, tuple):
        return t
    if t and t[0] == "multi":
        wd = v.whole_defs(t[1])
        if len(wd) == 1 and wd[0][0] == "stmt":
            return deep(v, v.origin_rv(wd[0][3]["rv"], wd[0][1]), depth + 1)
        if len(wd) == 1 and wd[0][0] == "call":
            return deep(v, v.origin_call(wd[0][1]), depth + 1)
        return t
    return tuple(deep(v, x, depth + 1) if isinstance(x, tuple) else x for x in t)


def format_args_of(v, region):
    """terms of every value handed to a fmt::Argument constructor in region"""
    out = []
    for bb in sorted(region):
        c = v.callee(bb)
        if c is not None and c.fn is not None and "fmt::rt::Argument" in (c.path or ""):
            out.append(deep(v, v.origin(v.blocks[bb]["term"]["args"][0])))
    return out


def arm_dependence(v, crate, region, variant):
    """which pattern fields of the ErrorKind arm, and whether the location parameter, reach the formatted message"""
    args = format_args_of(v, region)
    fields = set()
    loc = [False]
    calls = []

    def visit(t):
        if not isinstance(t, tuple) or not t:
            return
        if t[0] == "field" and t[2] == variant and strip_refs(t[1]) == ("param", 2):
            fields.add(t[3])
        if t == ("param", 3):
            loc[0] = True
        if t[0] == "call":
            calls.append(t)
            c = v.callee(t[1])
            # closures given to iterator adaptors: their captured environment is part of the dependence
        for x in t:
            if isinstance(x, tuple):
                visit(x)
    for a in args:
        visit(a)
    return fields, loc[0], calls, args


def error_fn_rules(crate, path, loc_fn, res, rule):
    b = find(crate, path)
    if b is None:
        res.add(rule, 1, [Finding(rule, path, "error function not found", "")])
        return
    v = View(b)
    fs = []
    ob = 0
    info = None
    for bb in sorted(v.reach):
        i2 = v.switch_info(bb)
        if i2 and i2["kind"] == "discr" and npath(i2.get("adt") or "") == "ErrorKind" and i2["place"]["l"] == 2:
            info = i2
            break
    if info is None:
        res.add(rule, 1, [fnd(rule, v, "the error function does not dispatch on the kind of error")])
        return
    arms = p_c13.arm_regions(v, info)
    for var in EK:
        ob += 1
        reg = arms.get(var)
        if not reg:
            fs.append(fnd(rule, v, "no arm for ErrorKind::%s" % var))
            continue
        fields, has_loc, calls, args = arm_dependence(v, crate, reg, var)
        if not args:
            fs.append(fnd(rule, v, "the %s message is not built by formatting" % var))
            continue
        miss = NEED[var] - fields
        if miss:
            fs.append(fnd(rule, v, "the %s message does not depend on %s" % (var, sorted(miss))))
        # the location goes through the location description
        locd = [c for c in calls if call_name(v, c) == loc_fn]
        ok_loc = any(strip_refs(deep(v, c[3][0])) == ("param", 3) for c in locd)
        if not ok_loc:
            fs.append(fnd(rule, v, "the %s message does not contain the rendered location of this report" % var))
        if var in ("UnknownKey", "UnknownValue"):
            ob += 2
            subj = "key" if var == "UnknownKey" else "value"
            dym = [c for c in calls if call_name(v, c) == "errors::helpers::did_you_mean"]
            okd = False
            for c in dym:
                a0 = strip_refs(deep(v, c[3][0]))
                a1 = strip_refs(deep(v, c[3][1]))
                if a0 == ("field", ("param", 2), var, subj) and a1 == ("field", ("param", 2), var, "accepted"):
                    okd = True
            if not okd:
                fs.append(fnd(rule, v, "the %s message does not offer did_you_mean(%s, accepted)" % (var, subj)))
            # every accepted alternative: join(collect(map(iter(accepted))))
            okj = False
            for c in calls:
                if (call_name(v, c) or "").endswith("join"):
                    chain = []
                    cur = c
                    while cur[0] == "call":
                        chain.append(call_name(v, cur))
                        if not cur[3]:
                            break
                        cur = strip_refs(deep(v, cur[3][0]))
                    if cur == ("field", ("param", 2), var, "accepted") and not any(x and any(y in x for y in ("take", "skip", "filter", "step_by", "rev", "last", "nth")) for x in chain):
                        okj = "std::iter::Iterator::map" in chain and "core::slice::iter" in chain
            if not okj:
                fs.append(fnd(rule, v, "the %s message does not list every accepted alternative" % var))
        if var == "BadSequenceLen":
            ob += 2
            lens = [c for c in calls if call_name(v, c) == "Sequence::len" and strip_refs(deep(v, c[3][0])) == ("field", ("param", 2), var, "actual")]
            if not lens:
                fs.append(fnd(rule, v, "the BadSequenceLen message does not state the received length"))
            ser = [c for c in calls if call_name(v, c) == "serde_json::to_string"]
            oks = any(term_mentions(c, lambda x: x == ("field", ("param", 2), var, "actual")) and term_mentions(c, lambda x: x[0] == "agg" and x[1] == "adt" and x[4] == "Sequence") for c in ser)
            if not oks:
                fs.append(fnd(rule, v, "the BadSequenceLen message does not quote the offending sequence"))
        if var == "IncorrectValueKind" and "json" in path:
            ob += 2
            vk = [c for c in calls if call_name(v, c) == "errors::json::value_kinds_description_json" and strip_refs(deep(v, c[3][0])) == ("field", ("param", 2), var, "accepted")]
            if not vk:
                fs.append(fnd(rule, v, "the expected kinds are not described from this report's accepted list"))
            vd = [c for c in calls if call_name(v, c) == "errors::json::value_description_with_kind_json"]
            okv = any(term_mentions(c, lambda x: x[0] == "call" and call_name(v, x) == "std::convert::From::from" and strip_refs(deep(v, x[3][0])) == ("field", ("param", 2), var, "actual")) for c in vd)
            if not okv:
                fs.append(fnd(rule, v, "the received value is not described from this report's actual value"))
    # the formatted text is what the error carries: message.push_str(&<arm result>) ; Break(New(message))
    ob += 1
    okm = False
    for bb in v.reach:
        for st in v.blocks[bb]["stmts"]:
            if st["k"] == "assign" and st["place"]["l"] == 0 and st["rv"]["k"] == "agg" and st["rv"].get("variant") == "Break":
                t = deep(v, v.origin(st["rv"]["ops"][0]))
                if t[0] == "call" and (call_name(v, t) or "").endswith("::new") and strip_refs(t[3][0])[0] in ("call", "multi"):
                    okm = True
    ps = [bb for bb, c in v.calls() if c.fn is not None and c.base() == "std::string::String::push_str"]
    if not okm or len(ps) > 1:
        fs.append(fnd(rule, v, "the error does not carry the formatted message"))
    elif len(ps) == 1:
        # message.push_str(&<value produced by the arms>)
        a1 = strip_refs(deep(v, v.origin(v.blocks[ps[0]]["term"]["args"][1])))
        if a1[0] not in ("multi", "call"):
            fs.append(fnd(rule, v, "what is appended to the message is not the text the arms produced"))
    res.add(rule, ob, fs)


def find_rec(crate, outer):
    """the recursive helper that renders the path: the local function `outer` applies to its location
    parameter and that calls itself (found by role, whatever its name); `outer` itself when it recurses directly"""
    v = View(outer)
    for bb, c in v.calls():
        if c.fn is None or c.krate != "deserr":
            continue
        b = find(crate, c.path)
        if b is None:
            continue
        if c.path == outer.path:
            return outer
        if any(c2.fn is not None and c2.path == c.path for _, c2 in View(b).calls()):
            return b
    return None


def returned_pieces(rv, region):
    """pieces of every value assigned to the return place inside region (calls and plain assignments)"""
    import strterm
    outs = []
    for x in sorted(region):
        blk = rv.blocks[x]
        for st in blk["stmts"]:
            if st["k"] == "assign" and st["place"]["l"] == 0 and not st["place"]["p"]:
                outs.append((x, strterm.pieces(rv, deep(rv, rv.origin_rv(st["rv"], x)))))
        tm = blk["term"]
        if tm["k"] == "call" and tm["dest"]["l"] == 0 and not tm["dest"]["p"]:
            outs.append((x, strterm.pieces(rv, deep(rv, rv.origin_call(x)))))
    return outs


def loc_rules(crate, base, query, res):
    rule = "C14.LOC"
    outer = find(crate, base)
    fs = []
    ob = 6
    rec = find_rec(crate, outer) if outer is not None else None
    if outer is None or rec is None:
        res.add(rule, 1, [Finding(rule, base, "location description not found", "")])
        return
    v = View(outer)
    info = None
    for bb in sorted(v.reach):
        i2 = v.switch_info(bb)
        if i2 and i2["kind"] == "discr" and npath(i2.get("adt") or "") == "ValuePointerRef":
            info = i2
            break
    if not info:
        fs.append(fnd(rule, v, "does not distinguish the origin"))
    else:
        ot = v.variant_target(info, "Origin")
        others = [t for lb, t in info["edges"] if t != ot and t not in v.unreach]
        o_only = v.reachable(ot) - set().union(*[v.reachable(x) for x in others])
        n_only = set().union(*[v.reachable(x) for x in others]) - v.reachable(ot)
        o_out = returned_pieces(v, o_only)
        if len(o_out) != 1 or o_out[0][1] != []:
            fs.append(fnd(rule, v, "the origin is not described by the empty string (without article)"))
        args = [deep(v, v.origin(v.blocks[x]["term"]["args"][0])) for x in sorted(n_only) if v.callee(x) is not None and "fmt::rt::Argument" in (v.callee(x).path or "")]
        has_article = any(strip_refs(a) == ("param", 2) for a in args)
        recs = [x for x in n_only if v.callee(x) is not None and v.callee(x).fn is not None and v.callee(x).path == rec.path]
        if not has_article or len(recs) != 1 or strip_refs(deep(v, v.origin(v.blocks[recs[0]]["term"]["args"][0]))) != ("param", 1):
            fs.append(fnd(rule, v, "a non-origin location is not rendered as `<article> <path of this location>`"))
    # rec
    rv = View(rec)
    info = None
    for bb in sorted(rv.reach):
        i2 = rv.switch_info(bb)
        if i2 and i2["kind"] == "discr" and npath(i2.get("adt") or "") == "ValuePointerRef" and i2["place"]["l"] == 1:
            info = i2
            break
    if not info:
        fs.append(fnd(rule, rv, "rec does not dispatch on the pointer variant"))
    else:
        arms = p_c13.arm_regions(rv, info)

        def is_rec_of(p, variant):
            return p[0] == "val" and p[1][0] == "call" and rv.callee(p[1][1]).path == rec.path and p[1][3] and _is_prev(p[1][3][0], variant)

        def is_field(p, variant, name):
            t = strip_refs(p[1]) if p[0] == "val" else None
            return t is not None and t[0] == "field" and t[2] == variant and t[3] == name and strip_refs(t[1]) == ("param", 1)

        # Origin => ""
        oo = returned_pieces(rv, arms.get("Origin", set()))
        if len(oo) != 1 or oo[0][1] != []:
            fs.append(fnd(rule, rv, "the origin does not render as the empty path"))
        # Key => <ancestors> "." <key>   (the ancestors first), however it is concatenated
        kreg = arms.get("Key", set())
        kout = returned_pieces(rv, kreg)

        def full_key(ps):
            return ps is not None and len(ps) == 3 and is_rec_of(ps[0], "Key") and ps[1] == ("lit", ".") and is_field(ps[2], "Key", "key")

        def bare_key(ps):
            return ps is not None and len(ps) == 1 and is_field(ps[0], "Key", "key")
        if not query:
            if not kout or not all(full_key(ps) for _, ps in kout):
                fs.append(fnd(rule, rv, "a key step is not rendered as <path of the ancestors> . <key>"))
        else:
            fulls = [x for x, ps in kout if full_key(ps)]
            bares = [x for x, ps in kout if bare_key(ps)]
            if not fulls or len(fulls) + len(bares) != len(kout):
                fs.append(fnd(rule, rv, "a key step is not rendered as <path of the ancestors> . <key>"))
            # without the separator exactly when prev is the origin
            ob += 1
            okq = False
            tests = []
            for bb in sorted(kreg):
                ms = rv.matches_source(bb)
                i2 = rv.switch_info(bb)
                if ms is not None:
                    minfo, names = ms
                    tt = rv.edge_target(i2, True)
                    ft = rv.edge_target(i2, False)
                    if names != {"Origin"} or tt is None or ft is None or npath(minfo.get("adt") or "") != "ValuePointerRef":
                        continue
                    pl = strip_refs(canon(rv, rv.origin_place(minfo["place"])))
                    tests.append((tt, ft, pl))
            # `match *prev { Origin => .., _ => .. }` / `if let Origin = prev` / `prev.is_origin()` forms
            for bb in sorted(kreg):
                i2 = rv.switch_info(bb)
                if i2 and i2["kind"] == "discr" and npath(i2.get("adt") or "") == "ValuePointerRef" and i2["place"] is not None:
                    pl = strip_refs(canon(rv, rv.origin_place(i2["place"])))
                    if _is_prev(pl, "Key"):
                        tt = rv.variant_target(i2, "Origin")
                        fts = [t for lb, t in i2["edges"] if t != tt and t not in rv.unreach]
                        if tt is not None and len(set(fts)) == 1:
                            tests.append((tt, fts[0], pl))
                if i2 and i2["kind"] == "bool" and i2.get("src") and i2["src"]["k"] == "callresult":
                    cb = i2["src"]["bb"]
                    if rv.callee(cb).fn is not None and rv.callee(cb).name == "is_origin":
                        a0 = strip_refs(canon(rv, rv.origin(rv.blocks[cb]["term"]["args"][0])))
                        if _is_prev(a0, "Key"):
                            tests.append((rv.edge_target(i2, True), rv.edge_target(i2, False), a0))
            for tt, ft, pl in tests:
                if tt is None or ft is None or not _is_prev(pl, "Key"):
                    continue
                t_only = rv.reachable(tt) - rv.reachable(ft)
                f_only = rv.reachable(ft) - rv.reachable(tt)
                if bares and fulls and all(x in t_only for x in bares) and all(x in f_only for x in fulls):
                    okq = True
            if not okq:
                fs.append(fnd(rule, rv, "a top-level parameter is not rendered without the leading separator exactly when its parent is the origin"))
        # Index => <ancestors> "[" <index> "]"
        ireg = arms.get("Index", set())
        iout = returned_pieces(rv, ireg)

        def full_index(ps):
            return ps is not None and len(ps) == 4 and is_rec_of(ps[0], "Index") and ps[1] == ("lit", "[") and is_field(ps[2], "Index", "index") and ps[3] == ("lit", "]")
        if not iout or not all(full_index(ps) for _, ps in iout):
            fs.append(fnd(rule, rv, "an index step is not rendered as <path of the ancestors>[<index>]"))
    res.add(rule, ob, fs)


def _is_prev(t, variant):
    t = strip_refs(t)
    return t[0] == "field" and t[2] == variant and t[3] == "prev" and strip_refs(t[1]) == ("param", 1)


def value_rules(crate, res):
    b = find(crate, "errors::json::value_description_with_kind_json")
    fs = []
    if b is None:
        fs.append(Finding("C14.VALUE", "value_description_with_kind_json", "not found", ""))
    else:
        v = View(b)
        kinds = [bb for bb, c in v.calls() if c.fn is not None and c.name == "kind" and c.deserr_trait() == "IntoValue"]
        sers = [bb for bb, c in v.calls() if c.fn is not None and c.path == "serde_json::to_string"]
        if len(kinds) != 1 or len(sers) != 1 or strip_refs(canon(v, v.origin(v.blocks[kinds[0]]["term"]["args"][0]))) != ("param", 1) \
                or strip_refs(canon(v, v.origin(v.blocks[sers[0]]["term"]["args"][0]))) != ("param", 1):
            fs.append(fnd("C14.VALUE", v, "the kind described and the text quoted are not taken from the same value"))
    res.add("C14.VALUE", 1, fs)


def merge_rules(crate, res):
    fs = []
    n = 0
    for b in crate.bodies:
        if b.impl_trait is None or npath(b.impl_trait) != "MergeWithError" or b.path != b.root:
            continue
        st = b.impl_self_str() or ""
        if "JsonError" not in st and "QueryParamError" not in st:
            continue
        full = b.d.get("impl_trait_full") or ""
        if "MergeWithError<E>" not in full:
            continue
        n += 1
        v = View(b)
        rets = [bb for bb in v.reach if v.blocks[bb]["term"]["k"] == "call" and v.blocks[bb]["term"]["dest"]["l"] == 0]
        ok = False
        for r in rets:
            t = canon(v, v.origin_call(r))
            c = v.callee(r)
            if c.deserr_trait() == "DeserializeError" and c.name == "error" and len(t[3]) == 3:
                kind = t[3][1]
                if kind[0] == "agg" and kind[4] == "Unexpected":
                    m = kind[2][0]
                    okmsg = m[0] == "call" and call_name(v, m) == "std::string::ToString::to_string" and strip_refs(m[3][0]) == ("param", 2)
                    ok = okmsg and strip_refs(t[3][2]) == ("param", 3)
        if not ok:
            fs.append(fnd("C14.MERGE", v, "a foreign error is not reported as Unexpected{its own text} at the merge location"))
    res.add("C14.MERGE", max(n, 1), fs)
    res.floor("generic MergeWithError<E: Error> impls of the built-in error types", n, 2)


def run(ctx):
    res = PropResult("C14")
    res.level = "other"
    crate = ctx.libcrate("deserr")
    error_fn_rules(crate, "<errors::json::JsonError as DeserializeError>::error", "errors::json::location_json_description", res, "C14.DEP/json")
    error_fn_rules(crate, "<errors::query_params::QueryParamError as DeserializeError>::error", "errors::query_params::location_query_param_description", res, "C14.DEP/query")
    loc_rules(crate, "errors::json::location_json_description", False, res)
    loc_rules(crate, "errors::query_params::location_query_param_description", True, res)
    value_rules(crate, res)
    merge_rules(crate, res)
    # C14.SUGGEST: "a suggestion only when one is close" is did_you_mean's contract (C18's rules, re-checked here
    # because both built-in messages rely on it)
    import p_c18
    r18 = p_c18.run(ctx)
    from lin import Finding as _F
    fs18 = [_F("C14.SUGGEST/" + f.rule, f.body, f.what, f.at, f.detail) for f in r18.findings]
    res.add("C14.SUGGEST", sum(v2[0] for v2 in r18.rules.values()), fs18)
    # C14.BREAK = C03.BUILTIN
    import p_c03
    p_c03.builtin_break(ctx, res)
    res.rules["C14.BREAK"] = res.rules.pop("C03.BUILTIN", [0, 0])
    res.samples = [{"arm": k, "must_depend_on": sorted(vv) + ["location (through the location description)"]} for k, vv in NEED.items()]
    res.trusted_base = ["rustc nightly MIR construction", "mirfacts extractor", "rules/p_c14.py", "std formatting: every fmt::Argument of a format! appears in the output"]
    res.assumptions = ["decides dependence and structure, not wording or punctuation; that the rendered path re-parses unambiguously depends on key characters and is not decided",
                       "'the message describes the first report of the keep-going run' follows from C03 (fail-fast = first report) and C04 (that report is located right)"]
    res.explanation = ("DEP: per ErrorKind arm of JsonError::error / QueryParamError::error, the format arguments of the message depend on every field bound by the arm and on the location description computed from this call's location; "
                       "unknown key/value messages call did_you_mean(key|value, accepted) and list all of `accepted`; arity messages state the length and quote the whole sequence. LOC: Origin renders as nothing (no article); "
                       "rec renders ancestors first, then '.'key or [index]; the query variant omits the separator exactly under the origin. VALUE: kind and quoted text come from the same value. MERGE/BREAK: foreign errors become Unexpected{their text} at the merge location; all answers are Break.")
    return res
