"""C14 — built-in error messages name the right place, value and alternatives: *dependence* and
structure of JsonError / QueryParamError message construction (not wording)."""
from analysis import View, strip_refs, erase_generics, term_mentions
from check import PropResult
from lin import Finding
from loc import canon, fmt, call_name
from sites import npath, follow_local_use
import skeleton
import p_c13

EK = ["IncorrectValueKind", "MissingField", "UnknownKey", "UnknownValue", "BadSequenceLen", "Unexpected"]
NEED = {
    "IncorrectValueKind": {"actual", "accepted"},
    "MissingField": {"field"},
    "UnknownKey": {"key", "accepted"},
    "UnknownValue": {"value", "accepted"},
    "BadSequenceLen": {"actual", "expected"},
    "Unexpected": {"msg"},
}


def fnd(rule, v, what, bb=None, detail=""):
    at = v.blocks[bb]["term"].get("at", "") if bb is not None else v.b.span
    return Finding(rule, v.b.path, what, at, detail)


def find(crate, path):
    for b in crate.bodies:
        if b.path == path:
            return b
    return None


def deep(v, t, depth=0):
    """expand single-assignment user locals inside a term (so that dependence is transitive)"""
    if depth > 8 or not isinstance(t, tuple):
        return t
    if t and t[0] == "multi":
        wd = v.whole_defs(t[1])
        if len(wd) == 1 and wd[0][0] == "stmt":
            return deep(v, v.origin_rv(wd[0][3]["rv"], wd[0][1]), depth + 1)
        if len(wd) == 1 and wd[0][0] == "call":
            return deep(v, v.origin_call(wd[0][1]), depth + 1)
        return t
    return tuple(deep(v, x, depth + 1) if isinstance(x, tuple) else x for x in t)


def format_args_of(v, region):
    """terms of every value handed to a fmt::Argument constructor in region"""
    out = []
    for bb in sorted(region):
        c = v.callee(bb)
        if c is not None and c.fn is not None and "fmt::rt::Argument" in (c.path or ""):
            out.append(deep(v, v.origin(v.blocks[bb]["term"]["args"][0])))
    return out


def arm_dependence(v, crate, region, variant):
    """which pattern fields of the ErrorKind arm, and whether the location parameter, reach the formatted message"""
    args = format_args_of(v, region)
    fields = set()
    loc = [False]
    calls = []

    def visit(t):
        if not isinstance(t, tuple) or not t:
            return
        if t[0] == "field" and t[2] == variant and strip_refs(t[1]) == ("param", 2):
            fields.add(t[3])
        if t == ("param", 3):
            loc[0] = True
        if t[0] == "call":
            calls.append(t)
            c = v.callee(t[1])
            # closures given to iterator adaptors: their captured environment is part of the dependence
        for x in t:
            if isinstance(x, tuple):
                visit(x)
    for a in args:
        visit(a)
    return fields, loc[0], calls, args


def error_fn_rules(crate, path, loc_fn, res, rule):
    b = find(crate, path)
    if b is None:
        res.add(rule, 1, [Finding(rule, path, "error function not found (undecided)", "", undecided=True)])
        return
    # private helpers that build parts of the message are expanded; the functions the rules name stay calls
    import inline
    KEEP = (loc_fn, "errors::helpers::did_you_mean", "errors::json::value_kinds_description_json", "errors::json::value_description_with_kind_json",
            "errors::query_params::value_kinds_description_query_param", "errors::query_params::value_description_with_kind_query_param")
    idx = {x.path: x for x in crate.bodies}

    def helper(callee):
        return callee.kind in ("Fn", "AssocFn") and callee.impl_trait is None and callee.path not in KEEP and callee.path.startswith("errors::") and callee.name != "new" and \
            not any(inline._fn_of(bl["term"]) is not None and inline._fn_of(bl["term"]).get("path") == callee.path for bl in callee.blocks if bl["term"]["k"] == "call")
    nb, _u = inline.inline_body(crate, b, idx, 0, helper)
    if nb is not None:
        b = nb
    v = View(b)
    fs = []
    ob = 0
    infos = []
    for bb in sorted(v.reach):
        i2 = v.switch_info(bb)
        if i2 and i2["kind"] == "discr" and npath(i2.get("adt") or "") == "ErrorKind" and i2["place"]["l"] == 2:
            infos.append(i2)
    if not infos:
        res.add(rule, 1, [und(rule, v, "the error function does not dispatch on the kind of error: message construction not extracted (undecided)")])
        return
    # (the kind may be matched more than once, e.g. once for the article and once for the text: an arm is all of it)
    arms = {}
    for i2 in infos:
        for var_, reg_ in p_c13.arm_regions(v, i2).items():
            arms.setdefault(var_, set()).update(reg_)
    for var in EK:
        ob += 1
        reg = arms.get(var)
        if not reg:
            fs.append(fnd(rule, v, "no arm for ErrorKind::%s" % var))
            continue
        fields, has_loc, calls, args = arm_dependence(v, crate, reg, var)
        if not args:
            fs.append(und(rule, v, "how the %s message is built was not read (no formatting found on its arm): not recognised (undecided)" % var))
            continue
        miss = NEED[var] - fields
        if miss:
            fs.append(fnd(rule, v, "the %s message does not depend on %s" % (var, sorted(miss))))
        # the location goes through the location description
        locd = [c for c in calls if call_name(v, c) == loc_fn]
        ok_loc = any(strip_refs(deep(v, c[3][0])) == ("param", 3) for c in locd)
        if not ok_loc:
            fs.append(fnd(rule, v, "the %s message does not contain the rendered location of this report" % var))
        if var in ("UnknownKey", "UnknownValue"):
            ob += 2
            subj = "key" if var == "UnknownKey" else "value"
            dym = [c for c in calls if call_name(v, c) == "errors::helpers::did_you_mean"]
            okd = False
            for c in dym:
                a0 = strip_refs(deep(v, c[3][0]))
                a1 = strip_refs(deep(v, c[3][1]))
                if a0 == ("field", ("param", 2), var, subj) and a1 == ("field", ("param", 2), var, "accepted"):
                    okd = True
            if not okd:
                fs.append(fnd(rule, v, "the %s message does not offer did_you_mean(%s, accepted)" % (var, subj)))
            # every accepted alternative: join(collect(map(iter(accepted))))
            okj = False
            for c in calls:
                if (call_name(v, c) or "").endswith("join"):
                    chain = []
                    cur = c
                    while cur[0] == "call":
                        chain.append(call_name(v, cur))
                        if not cur[3]:
                            break
                        cur = strip_refs(deep(v, cur[3][0]))
                    if cur == ("field", ("param", 2), var, "accepted") and not any(x and any(y in x for y in ("take", "skip", "filter", "step_by", "rev", "last", "nth")) for x in chain):
                        okj = "std::iter::Iterator::map" in chain and "core::slice::iter" in chain
            if not okj:
                # written another way (an explicit loop, a helper that writes them out): a verdict only when the list is not even used
                uses = 0
                for bb_ in sorted(reg):
                    tm_ = v.blocks[bb_]["term"]
                    if tm_["k"] != "call":
                        continue
                    nm_ = call_name(v, ("call", bb_)) or ""
                    if nm_ == "errors::helpers::did_you_mean":
                        continue
                    for a_ in tm_["args"]:
                        if term_mentions(deep(v, v.origin(a_)), lambda x: x[0] == "field" and x[2] == var and x[3] == "accepted" and strip_refs(x[1]) == ("param", 2)):
                            uses += 1
                sel = []
                for c_ in calls:
                    nm_ = (call_name(v, c_) or "").split("::")[-1]
                    if nm_ in ("take", "skip", "filter", "step_by", "rev", "last", "nth", "take_while", "skip_while", "truncate", "first", "split_first", "split_last") and \
                            term_mentions(c_, lambda x: x[0] == "field" and x[2] == var and x[3] == "accepted" and strip_refs(x[1]) == ("param", 2)):
                        sel.append(nm_)
                if sel:
                    fs.append(fnd(rule, v, "the %s message does not list every accepted alternative (%s selects among them)" % (var, ", ".join(sorted(set(sel))))))
                elif uses:
                    fs.append(und(rule, v, "how the %s message lists the accepted alternatives was not read (not the iter().map().collect().join() chain): not recognised (undecided)" % var))
                else:
                    fs.append(fnd(rule, v, "the %s message does not list every accepted alternative" % var))
        if var == "BadSequenceLen":
            ob += 2
            lens = [c for c in calls if call_name(v, c) == "Sequence::len" and strip_refs(deep(v, c[3][0])) == ("field", ("param", 2), var, "actual")]
            if not lens:
                fs.append(fnd(rule, v, "the BadSequenceLen message does not state the received length"))
            ser = [c for c in calls if call_name(v, c) == "serde_json::to_string"]
            oks = any(term_mentions(c, lambda x: x == ("field", ("param", 2), var, "actual")) and term_mentions(c, lambda x: x[0] == "agg" and x[1] == "adt" and x[4] == "Sequence") for c in ser)
            if not oks:
                fs.append(fnd(rule, v, "the BadSequenceLen message does not quote the offending sequence"))
        if var == "IncorrectValueKind" and "json" in path:
            ob += 2
            vk = [c for c in calls if call_name(v, c) == "errors::json::value_kinds_description_json" and strip_refs(deep(v, c[3][0])) == ("field", ("param", 2), var, "accepted")]
            if not vk:
                fs.append(fnd(rule, v, "the expected kinds are not described from this report's accepted list"))
            vd = [c for c in calls if call_name(v, c) == "errors::json::value_description_with_kind_json"]
            okv = any(term_mentions(c, lambda x: x[0] == "call" and call_name(v, x) == "std::convert::From::from" and strip_refs(deep(v, x[3][0])) == ("field", ("param", 2), var, "actual")) for c in vd)
            if not okv:
                fs.append(fnd(rule, v, "the received value is not described from this report's actual value"))
    # the formatted text is what the error carries: message.push_str(&<arm result>) ; Break(New(message))
    ob += 1
    okm = False
    for bb in v.reach:
        for st in v.blocks[bb]["stmts"]:
            if st["k"] == "assign" and st["place"]["l"] == 0 and st["rv"]["k"] == "agg" and st["rv"].get("variant") == "Break":
                t = deep(v, v.origin(st["rv"]["ops"][0]))
                if t[0] == "call" and (call_name(v, t) or "").endswith("::new") and strip_refs(t[3][0])[0] in ("call", "multi"):
                    okm = True
    ps = [bb for bb, c in v.calls() if c.fn is not None and c.base() == "std::string::String::push_str"]
    if not okm or len(ps) > 1:
        fs.append(und(rule, v, "how the built text ends up in the error was not read (not `message.push_str(text); Break(Self::new(message))`): not recognised (undecided)"))
    elif len(ps) == 1:
        # message.push_str(&<value produced by the arms>)
        a1 = strip_refs(deep(v, v.origin(v.blocks[ps[0]]["term"]["args"][1])))
        if a1[0] not in ("multi", "call"):
            fs.append(fnd(rule, v, "what is appended to the message is not the text the arms produced"))
    res.add(rule, ob, fs)


def find_rec(crate, outer):
    """the recursive helper that renders the path: the local function `outer` applies to its location
    parameter and that calls itself (found by role, whatever its name); `outer` itself when it recurses directly"""
    v = View(outer)
    for bb, c in v.calls():
        if c.fn is None or c.krate != "deserr":
            continue
        b = find(crate, c.path)
        if b is None:
            continue
        if c.path == outer.path:
            return outer
        if any(c2.fn is not None and c2.path == c.path for _, c2 in View(b).calls()):
            return b
    return None


def returned_pieces(rv, region):
    """pieces of every value assigned to the return place inside region (calls and plain assignments)"""
    import strterm
    outs = []
    for x in sorted(region):
        blk = rv.blocks[x]
        for st in blk["stmts"]:
            if st["k"] == "assign" and st["place"]["l"] == 0 and not st["place"]["p"]:
                outs.append((x, strterm.pieces(rv, deep(rv, rv.origin_rv(st["rv"], x)))))
        tm = blk["term"]
        if tm["k"] == "call" and tm["dest"]["l"] == 0 and not tm["dest"]["p"]:
            outs.append((x, strterm.pieces(rv, deep(rv, rv.origin_call(x)))))
    return outs


def und(rule, v, what, bb=None, detail=""):
    f = fnd(rule, v, what, bb, detail)
    f.undecided = True
    return f


def renderings(rv, info, rec_path):
    """{variant: [(conditions, pieces)]}: per arm of the switch on the pointer's variant, every path to the return with
    the text it produces - the returned string's pieces, or what is appended to a `&mut String` parameter.
    Pieces: ("lit", s) ("key",) ("index",) ("REC", variant of the prev it descends into) ("val", term)."""
    import strterm
    problems = []
    out = {}
    bufs = [i for i in range(1, rv.b.arg_count + 1) if rv.b.ltys(i).startswith("&mut std::string::String")]
    buf = bufs[0] if bufs else None

    def classify(p):
        if p[0] != "val":
            return p
        x = strip_refs(p[1])
        if x[0] == "call" and rv.callee(x[1]).fn is not None and call_name(rv, x) in ("std::string::ToString::to_string", "std::borrow::ToOwned::to_owned",
                                                                                       "std::convert::From::from", "std::convert::Into::into") and x[3]:
            x = strip_refs(x[3][0])
        if x[0] == "field" and strip_refs(x[1]) == ("param", 1) and x[3] == "key":
            return ("key",)
        if x[0] == "field" and strip_refs(x[1]) == ("param", 1) and x[3] == "index":
            return ("index",)
        if x[0] == "call" and rv.callee(x[1]).fn is not None and rv.callee(x[1]).path == rec_path and x[3]:
            a = strip_refs(x[3][0])
            if a[0] == "field" and a[3] == "prev" and strip_refs(a[1]) == ("param", 1):
                return ("REC", a[2])
        # not understood: remember whether it depends on this step's key / index at all
        dep_key = term_mentions(x, lambda y: y[0] == "field" and y[3] == "key" and strip_refs(y[1]) == ("param", 1))
        dep_index = term_mentions(x, lambda y: y[0] == "field" and y[3] == "index" and strip_refs(y[1]) == ("param", 1))
        return ("val", fmt(x), dep_key, dep_index)

    def merge(ps):
        o = []
        for p in ps:
            if p[0] == "lit" and o and o[-1][0] == "lit":
                o[-1] = ("lit", o[-1][1] + p[1])
            elif p == ("lit", ""):
                continue
            else:
                o.append(p)
        return tuple(o)

    def is_buf(op):
        t_ = strip_refs(canon(rv, rv.origin(op)))
        return buf is not None and (t_ == ("param", buf) or (t_[0] == "deref" and strip_refs(t_[1]) == ("param", buf)))

    def walk(bb, var, conds, pieces, benv, depth, seen):
        if depth > 120 or bb in seen:
            problems.append("loop inside a step")
            return
        seen = seen | {bb}
        blk = rv.blocks[bb]
        benv = dict(benv)
        pieces = list(pieces)
        for st in blk["stmts"]:
            if st["k"] == "assign" and not st["place"]["p"]:
                r0 = st["rv"]
                dl_ = st["place"]["l"]
                if r0["k"] == "use" and r0["op"]["k"] == "const" and "bool" in r0["op"]:
                    benv[dl_] = r0["op"]["bool"]
                elif r0["k"] == "use" and r0["op"]["k"] == "const" and "str" in r0["op"]:
                    benv[dl_] = ("lit", r0["op"]["str"])      # `let separator = if .. { "." } else { "" }`
                elif r0["k"] == "use" and r0["op"]["k"] in ("copy", "move") and r0["op"]["place"]["l"] in benv and all(e["k"] == "deref" for e in r0["op"]["place"]["p"]) \
                        and isinstance(benv[r0["op"]["place"]["l"]], tuple):
                    benv[dl_] = benv[r0["op"]["place"]["l"]]
                elif r0["k"] == "ref" and r0["place"]["l"] in benv and all(e["k"] == "deref" for e in r0["place"]["p"]) and isinstance(benv[r0["place"]["l"]], tuple):
                    benv[dl_] = benv[r0["place"]["l"]]
                elif dl_ in benv:
                    benv.pop(dl_)
        tm = blk["term"]
        k = tm["k"]
        if k == "return":
            if buf is None:
                # value style: the returned string
                al = set()
                for x in rv.reach:
                    pass
                rt = None
                for x in sorted(seen):
                    b2 = rv.blocks[x]
                    for st in b2["stmts"]:
                        if st["k"] == "assign" and st["place"]["l"] == 0 and not st["place"]["p"]:
                            rt = deep(rv, rv.origin_rv(st["rv"], x))
                    if b2["term"]["k"] == "call" and b2["term"]["dest"]["l"] == 0 and not b2["term"]["dest"]["p"]:
                        rt = deep(rv, rv.origin_call(x))
                if rt is None:
                    problems.append("no returned string on a path")
                    return
                ps = strterm.pieces(rv, rt)
                if ps is None:
                    problems.append("returned string not understood")
                    return
                ps2 = []
                for p in ps:
                    x_ = strip_refs(p[1]) if p[0] == "val" else None
                    if x_ is not None and x_[0] == "multi" and isinstance(benv.get(x_[1]), tuple):
                        ps2.append(benv[x_[1]])       # a string chosen on this path
                    else:
                        ps2.append(p)
                pieces = [classify(p) for p in ps2]
            out.setdefault(var, []).append((tuple(conds), merge(pieces)))
            return
        if k == "switch":
            i2 = rv.switch_info(bb)
            if i2["kind"] == "discr" and i2["place"] is not None:
                pl = strip_refs(canon(rv, rv.origin_place(i2["place"])))
                what = "prev" if (pl[0] == "field" and pl[3] == "prev" and strip_refs(pl[1]) == ("param", 1)) else "other"
                if what == "other":
                    problems.append("a step branches on something else than its parent's variant")
                    return
                for lb, tgt in i2["edges"]:
                    if tgt in rv.unreach:
                        continue
                    if lb is None:
                        for o_ in (i2.get("others") or []):
                            walk(tgt, var, conds + [(what, o_)], pieces, benv, depth + 1, seen)
                    else:
                        walk(tgt, var, conds + [(what, lb)], pieces, benv, depth + 1, seen)
                return
            if i2["kind"] == "bool":
                d = tm["discr"]
                if d["k"] in ("copy", "move") and not d["place"]["p"] and isinstance(benv.get(d["place"]["l"]), bool):
                    walk(rv.edge_target(i2, benv[d["place"]["l"]]), var, conds, pieces, benv, depth + 1, seen)
                    return
                dt = strip_refs(canon(rv, rv.origin(d)))
                neg = False
                while dt[0] == "unop" and dt[1] == "Not":
                    dt = strip_refs(dt[2])
                    neg = not neg
                if dt[0] == "call" and rv.callee(dt[1]).fn is not None and rv.callee(dt[1]).name == "is_origin" and dt[3]:
                    a = strip_refs(dt[3][0])
                    if a[0] == "field" and a[3] == "prev" and strip_refs(a[1]) == ("param", 1):
                        walk(rv.edge_target(i2, not neg), var, conds + [("prev", "Origin")], pieces, benv, depth + 1, seen)
                        walk(rv.edge_target(i2, neg), var, conds + [("prev", "Key")], pieces, benv, depth + 1, seen)
                        walk(rv.edge_target(i2, neg), var, conds + [("prev", "Index")], pieces, benv, depth + 1, seen)
                        return
            problems.append("a step branches on something that is not understood")
            return
        if k == "call":
            c = rv.callee(bb)
            nm = call_name(rv, ("call", bb)) or ""
            args = tm["args"]
            if buf is not None and args and is_buf(args[0]) and c.fn is not None:
                if nm == "std::string::String::push_str" and len(args) == 2:
                    ps = strterm.pieces(rv, deep(rv, rv.origin(args[1])))
                    if ps is None:
                        problems.append("appended text not understood")
                        return
                    pieces += [classify(p) for p in ps]
                elif nm == "std::string::String::push" and len(args) == 2:
                    ct = strip_refs(canon(rv, rv.origin(args[1])))
                    if ct[0] == "const" and isinstance(ct[2], int):
                        pieces.append(("lit", chr(ct[2])))
                    elif ct[0] == "const" and isinstance(ct[2], str):
                        s_ = ct[2]
                        pieces.append(("lit", s_[1:-1] if len(s_) >= 3 and s_[0] == "'" and s_[-1] == "'" else s_))
                    else:
                        pieces.append(("val", fmt(ct)))
                elif nm in ("std::fmt::Write::write_fmt",) and len(args) == 2:
                    ps = strterm.pieces(rv, deep(rv, rv.origin_call(bb)))
                    if ps is None:
                        problems.append("written text not understood")
                        return
                    pieces += [classify(p) for p in ps]
                elif nm in ("std::fmt::Write::write_str",) and len(args) == 2:
                    ps = strterm.pieces(rv, deep(rv, rv.origin(args[1])))
                    if ps is None:
                        problems.append("written text not understood")
                        return
                    pieces += [classify(p) for p in ps]
                else:
                    problems.append("the buffer is handed to %s" % nm)
                    return
            elif buf is not None and c.fn is not None and c.path == rec_path and len(args) == 2 and is_buf(args[1]):
                a = strip_refs(canon(rv, rv.origin(args[0])))
                if a[0] == "field" and a[3] == "prev" and strip_refs(a[1]) == ("param", 1):
                    pieces.append(("REC", a[2]))
                else:
                    problems.append("the renderer recurses into something else than the parent")
                    return
            if tm.get("target") is None:
                return
            walk(tm["target"], var, conds, pieces, benv, depth + 1, seen)
            return
        for s in rv.succ[bb]:
            walk(s, var, conds, pieces, benv, depth + 1, seen)

    for var in ("Origin", "Key", "Index"):
        tgt = rv.variant_target(info, var)
        if tgt is None:
            problems.append("no arm for %s" % var)
            continue
        walk(tgt, var, [], [], {}, 0, frozenset())
    return out, problems


def loc_rules(crate, base, query, res):
    rule = "C14.LOC"
    outer = find(crate, base)
    fs = []
    ob = 6
    rec = find_rec(crate, outer) if outer is not None else None
    if outer is None or rec is None:
        res.add(rule, 1, [Finding(rule, base, "location description not found", "")])
        return
    import inline as _inl
    # (`if location.is_origin() { return .. }` is the match on the variant once the accessor is expanded and its bool threaded)
    v = View(_inl.expand_local_helpers(crate, outer, keep=(rec.path,)))
    info = None
    for bb in sorted(v.reach):
        i2 = v.switch_info(bb)
        if i2 and i2["kind"] == "discr" and npath(i2.get("adt") or "") == "ValuePointerRef":
            info = i2
            break
    if not info:
        fs.append(fnd(rule, v, "does not distinguish the origin"))
    else:
        ot = v.variant_target(info, "Origin")
        others = [t for lb, t in info["edges"] if t != ot and t not in v.unreach]
        o_only = v.reachable(ot) - set().union(*[v.reachable(x) for x in others])
        n_only = set().union(*[v.reachable(x) for x in others]) - v.reachable(ot)
        o_out = returned_pieces(v, o_only)
        if len(o_out) != 1 or o_out[0][1] != []:
            fs.append(fnd(rule, v, "the origin is not described by the empty string (without article)"))
        args = [deep(v, v.origin(v.blocks[x]["term"]["args"][0])) for x in sorted(n_only) if v.callee(x) is not None and "fmt::rt::Argument" in (v.callee(x).path or "")]
        has_article = any(strip_refs(a) == ("param", 2) for a in args)
        recs = [x for x in n_only if v.callee(x) is not None and v.callee(x).fn is not None and v.callee(x).path == rec.path]
        if not has_article or len(recs) != 1 or strip_refs(deep(v, v.origin(v.blocks[recs[0]]["term"]["args"][0]))) != ("param", 1):
            f_ = fnd(rule, v, "a non-origin location is not rendered as `<article> <path of this location>`")
            if not args and len(recs) == 1 and any(v.callee(x) is not None and v.callee(x).fn is not None and v.callee(x).name in ("push_str", "push", "write_str", "concat", "join")
                                                       for x in n_only):
                # assembled with push_str / concat instead of format!: the pieces of the outer text were not read
                f_.what += ": the text is not built with format! and its pieces were not read: not recognised (undecided)"
                f_.undecided = True
            fs.append(f_)
    # rec: what one step renders, whatever the style (returned string built with + / format!, or appended to a buffer)
    rv = View(rec)
    info = None
    for bb in sorted(rv.reach):
        i2 = rv.switch_info(bb)
        if i2 and i2["kind"] == "discr" and npath(i2.get("adt") or "") == "ValuePointerRef" and i2["place"]["l"] == 1:
            info = i2
            break
    if not info:
        fs.append(und(rule, rv, "the path renderer does not dispatch on the pointer variant: rendering not extracted (undecided)"))
    else:
        rend, problems = renderings(rv, info, rec.path)
        # a piece that is not understood: undecided - unless it stands where the step's own key / index belongs and does not
        # even depend on it (then the rendered path cannot name this step, whatever the expression computes)
        for var_, fld_, pos_ in (("Index", "index", 3), ("Key", "key", 2)):
            for c_, ps_ in rend.get(var_, []):
                vals_ = [p for p in ps_ if p[0] == "val"]
                named = any(p == (fld_,) for p in ps_)
                if vals_ and not named and not any((p[3] if fld_ == "index" else p[2]) for p in vals_):
                    fs.append(fnd(rule, rv, "the text rendered for %s step does not depend on its %s" % ("an index" if var_ == "Index" else "a key", fld_)))
        if not problems and not fs and any(p[0] == "val" for lst in rend.values() for c, ps in lst for p in ps):
            problems.append("a piece of the rendered text is not understood")
        if problems:
            fs.append(und(rule, rv, "rendering of a step not extracted (%s) (undecided)" % "; ".join(sorted(set(problems))[:2])))
        elif any(p[0] == "val" for lst in rend.values() for c, ps in lst for p in ps):
            pass
        else:
            def show(ps):
                return "".join(x[1] if x[0] == "lit" else "<%s>" % x[0] for x in ps)
            want = {"Origin": [()],
                    "Index": [(("REC", "Index"), ("lit", "["), ("index",), ("lit", "]"))]}
            for var, alts_ in want.items():
                got = set(p for c, p in rend.get(var, []))
                if got != set(alts_):
                    fs.append(fnd(rule, rv, {"Origin": "the origin does not render as the empty path",
                                             "Index": "an index step is not rendered as <path of the ancestors>[<index>]"}[var], None, " | ".join(show(p) for p in sorted(got))))
            full = (("REC", "Key"), ("lit", "."), ("key",))
            bare = (("key",),)
            kgot = rend.get("Key", [])
            if not query:
                if set(p for c, p in kgot) != {full}:
                    fs.append(fnd(rule, rv, "a key step is not rendered as <path of the ancestors> . <key>", None, " | ".join(show(p) for c, p in kgot)))
            else:
                ob += 1
                if not kgot or any(p not in (full, bare) for c, p in kgot) or not any(p == full for c, p in kgot):
                    fs.append(fnd(rule, rv, "a key step is not rendered as <path of the ancestors> . <key>", None, " | ".join(show(p) for c, p in kgot)))
                else:
                    # without the separator exactly when prev is the origin
                    okq = True
                    seen_any = False
                    for conds, p in kgot:
                        pv = [lab for (what, lab) in conds if what == "prev"]
                        if not pv:
                            okq = False
                            continue
                        seen_any = True
                        is_origin = pv[-1] == "Origin"
                        if (p == bare) != is_origin:
                            okq = False
                    if not (okq and seen_any):
                        fs.append(fnd(rule, rv, "a top-level parameter is not rendered without the leading separator exactly when its parent is the origin"))
    res.add(rule, ob, fs)


def _is_prev(t, variant):
    t = strip_refs(t)
    return t[0] == "field" and t[2] == variant and t[3] == "prev" and strip_refs(t[1]) == ("param", 1)


def _unguarded_string_arm(v, bb):
    """bb lies in a `String` arm of a match on the value and no boolean test (a guard on the string's content) lies between
    the arm's entry and bb"""
    for sb in sorted(v.reach):
        info = v.switch_info(sb)
        if not info or info["kind"] != "discr":
            continue
        for lb, tgt in info["edges"]:
            if lb != "String":
                continue
            rs = v.reachable(tgt) | {tgt}
            if bb not in rs:
                continue
            for gb in rs:
                gi = v.switch_info(gb)
                if gi and gi["kind"] != "discr" and gb != bb and bb in v.reachable(gb):
                    return False
            return True
    return False


def value_rules(crate, res):
    b = find(crate, "errors::json::value_description_with_kind_json")
    fs = []
    if b is None:
        fs.append(Finding("C14.VALUE", "value_description_with_kind_json", "not found", ""))
    else:
        v = View(b)
        kinds = [bb for bb, c in v.calls() if c.fn is not None and c.name == "kind" and c.deserr_trait() == "IntoValue"]
        sers = [bb for bb, c in v.calls() if c.fn is not None and c.path == "serde_json::to_string"]
        if len(kinds) != 1 or len(sers) != 1 or strip_refs(canon(v, v.origin(v.blocks[kinds[0]]["term"]["args"][0]))) != ("param", 1) \
                or strip_refs(canon(v, v.origin(v.blocks[sers[0]]["term"]["args"][0]))) != ("param", 1):
            fs.append(fnd("C14.VALUE", v, "the kind described and the text quoted are not taken from the same value"))
        # the quoted text is JSON text: parts of the value rendered by hand (Display / Debug of what is inside it) are not the
        # serialiser's output.  Debug of a string is a verdict: Rust escapes control and non-printable characters differently.
        for bb2, c2 in v.calls():
            if c2.fn is None:
                continue
            nm2 = c2.path or ""
            if "fmt::rt::Argument" in nm2 and c2.name in ("new_debug", "new_display"):
                a2 = canon(v, v.origin(v.blocks[bb2]["term"]["args"][0]))
                direct = term_mentions(a2, lambda x: x == ("param", 1)) and not term_mentions(a2, lambda x: x[0] == "call")
                if direct and c2.name == "new_debug":
                    fs.append(fnd("C14.VALUE", v, "a part of the offending value is quoted with Rust's Debug formatting, which is not JSON text (control and non-printable characters are escaped differently)", bb2))
                elif direct and term_mentions(a2, lambda x: x[0] == "field" and x[2] == "String") and _unguarded_string_arm(v, bb2):
                    # Display of a str escapes nothing: for a string holding a quote, a backslash or a control character the
                    # text is not JSON, whatever surrounds it (no test of the string's content lies between the arm and here)
                    fs.append(fnd("C14.VALUE", v, "the string inside the offending value is written with Display (nothing is escaped) instead of by the JSON serialiser: not JSON text for a string holding a quote, a backslash or a control character", bb2))
                elif direct:
                    f_ = fnd("C14.VALUE", v, "a part of the offending value is rendered by hand (Display) instead of by the JSON serialiser: whether the text is the same was not read: not recognised (undecided)", bb2)
                    f_.undecided = True
                    fs.append(f_)
    res.add("C14.VALUE", 1, fs)


def merge_rules(crate, res):
    fs = []
    n = 0
    for b in crate.bodies:
        if b.impl_trait is None or npath(b.impl_trait) != "MergeWithError" or b.path != b.root:
            continue
        st = b.impl_self_str() or ""
        if "JsonError" not in st and "QueryParamError" not in st:
            continue
        full = b.d.get("impl_trait_full") or ""
        if "MergeWithError<E>" not in full:
            continue
        n += 1
        v = View(b)
        rets = [bb for bb in v.reach if v.blocks[bb]["term"]["k"] == "call" and v.blocks[bb]["term"]["dest"]["l"] == 0]
        ok = False
        for r in rets:
            t = canon(v, v.origin_call(r))
            c = v.callee(r)
            if c.deserr_trait() == "DeserializeError" and c.name == "error" and len(t[3]) == 3:
                kind = t[3][1]
                if kind[0] == "agg" and kind[4] == "Unexpected":
                    m = kind[2][0]
                    okmsg = m[0] == "call" and call_name(v, m) == "std::string::ToString::to_string" and strip_refs(m[3][0]) == ("param", 2)
                    ok = okmsg and strip_refs(t[3][2]) == ("param", 3)
        if not ok:
            # another formulation (a private constructor called with the text): a verdict only when the foreign error's text or the
            # merge location do not even flow into what is returned
            flows_text = flows_loc = False
            ret_terms = [deep(v, v.origin_call(r)) for r in rets]
            for bb_ in v.reach:
                for st_ in v.blocks[bb_]["stmts"]:
                    if st_["k"] == "assign" and st_["place"]["l"] == 0 and not st_["place"]["p"]:
                        ret_terms.append(deep(v, v.origin_rv(st_["rv"], bb_)))
            for tm_ in ret_terms:
                if term_mentions(tm_, lambda x: x[0] == "call" and call_name(v, x) == "std::string::ToString::to_string" and x[3] and strip_refs(x[3][0]) == ("param", 2)):
                    flows_text = True
                if term_mentions(tm_, lambda x: x == ("param", 3)):
                    flows_loc = True
            is_error_call = any(v.callee(r).deserr_trait() == "DeserializeError" and v.callee(r).name == "error" for r in rets)
            if flows_text and flows_loc and not is_error_call:
                fs.append(und("C14.MERGE", v, "how a foreign error becomes this error was not read (not `Self::error(None, Unexpected { msg: other.to_string() }, location)`): not recognised (undecided)"))
            else:
                fs.append(fnd("C14.MERGE", v, "a foreign error is not reported as Unexpected{its own text} at the merge location"))
    res.add("C14.MERGE", max(n, 1), fs)
    res.floor("generic MergeWithError<E: Error> impls of the built-in error types", n, 2)


def run(ctx):
    res = PropResult("C14")
    res.level = "other"
    crate = ctx.libcrate("deserr")
    error_fn_rules(crate, "<errors::json::JsonError as DeserializeError>::error", "errors::json::location_json_description", res, "C14.DEP/json")
    error_fn_rules(crate, "<errors::query_params::QueryParamError as DeserializeError>::error", "errors::query_params::location_query_param_description", res, "C14.DEP/query")
    loc_rules(crate, "errors::json::location_json_description", False, res)
    loc_rules(crate, "errors::query_params::location_query_param_description", True, res)
    value_rules(crate, res)
    merge_rules(crate, res)
    # C14.SUGGEST: "a suggestion only when one is close" is did_you_mean's contract (C18's rules, re-checked here
    # because both built-in messages rely on it)
    import p_c18
    r18 = p_c18.run(ctx)
    from lin import Finding as _F
    fs18 = [_F("C14.SUGGEST/" + f.rule, f.body, f.what, f.at, f.detail, undecided=getattr(f, "undecided", False)) for f in r18.findings]
    res.add("C14.SUGGEST", sum(v2[0] for v2 in r18.rules.values()), fs18)
    # C14.BREAK = C03.BUILTIN
    import p_c03
    p_c03.builtin_break(ctx, res)
    res.rules["C14.BREAK"] = res.rules.pop("C03.BUILTIN", [0, 0])
    res.samples = [{"arm": k, "must_depend_on": sorted(vv) + ["location (through the location description)"]} for k, vv in NEED.items()]
    res.trusted_base = ["rustc nightly MIR construction", "mirfacts extractor", "rules/p_c14.py", "std formatting: every fmt::Argument of a format! appears in the output"]
    res.assumptions = ["decides dependence and structure, not wording or punctuation; that the rendered path re-parses unambiguously depends on key characters and is not decided",
                       "'the message describes the first report of the keep-going run' follows from C03 (fail-fast = first report) and C04 (that report is located right)"]
    res.explanation = ("DEP: per ErrorKind arm of JsonError::error / QueryParamError::error, the format arguments of the message depend on every field bound by the arm and on the location description computed from this call's location; "
                       "unknown key/value messages call did_you_mean(key|value, accepted) and list all of `accepted`; arity messages state the length and quote the whole sequence. LOC: Origin renders as nothing (no article); "
                       "rec renders ancestors first, then '.'key or [index]; the query variant omits the separator exactly under the origin. VALUE: kind and quoted text come from the same value. MERGE/BREAK: foreign errors become Unexpected{their text} at the merge location; all answers are Break.")
    return res
