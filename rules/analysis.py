"""Shared analyses over one MIR body: CFG without unwind edges, dominators,
post-dominators, loops, definitions, discriminant switches, callee classification and
provenance terms (symbolic backwards evaluation through single-assignment temporaries).
"""
import functools


def norm_path(p):
    """Paths are printed relative to the crate being compiled: inside `deserr` the trait is
    `DeserializeError`, from a user crate it is `deserr::DeserializeError`."""
    if p is None:
        return None
    if p.startswith("deserr::"):
        return p[len("deserr::"):]
    return p


DESERR_TRAITS = {
    "DeserializeError": "DeserializeError",
    "MergeWithError": "MergeWithError",
    "Deserr": "Deserr",
    "value::IntoValue": "IntoValue",
    "IntoValue": "IntoValue",
    "value::Map": "Map",
    "Map": "Map",
    "value::Sequence": "Sequence",
    "Sequence": "Sequence",
}


def _deserr_trait_name(p):
    """`value::IntoValue`, `IntoValue`, `deserr::value::IntoValue` (or any other module of the library) -> `IntoValue`"""
    p = norm_path(p)
    r = DESERR_TRAITS.get(p)
    if r is not None:
        return r
    segs = p.split("::")
    if segs[-1] in ("DeserializeError", "MergeWithError", "Deserr", "IntoValue", "Map", "Sequence") and segs[0] in ("deserr", "value") or \
            (len(segs) > 1 and segs[-1] in ("DeserializeError", "MergeWithError", "Deserr", "IntoValue", "Sequence") and all(s and s[0].islower() for s in segs[:-1])
             and segs[0] not in ("std", "core", "alloc", "serde_json", "serde", "actix_web", "axum")):
        return segs[-1]
    return None


class Callee:
    """Classified callee of a Call terminator."""

    def __init__(self, body, term):
        self.term = term
        f = term["func"]
        self.fn = f.get("fn") if f["k"] == "const" else None
        self.indirect = self.fn is None
        self.path = self.fn["path"] if self.fn else None
        self.full = self.fn["full"] if self.fn else body.fmt_op(f)
        self.krate = self.fn.get("krate") if self.fn else None
        self.name = self.fn.get("name") if self.fn else None
        self.trait = self.fn.get("trait") if self.fn else None
        self.resolved = self.fn.get("resolved") if self.fn else None
        self.gargs = self.fn.get("gargs", []) if self.fn else []
        self.self_ty = self.fn.get("self_ty") if self.fn else None
        self.impl_trait = self.fn.get("impl_trait") if self.fn else None

    def deserr_trait(self):
        """'DeserializeError' | 'MergeWithError' | 'Deserr' | 'IntoValue' | 'Map' | 'Sequence' | None,
        for calls through the trait (generic or resolved to an impl of it)."""
        if self.fn is None:
            return None
        if self.krate == "deserr" and self.trait is not None:
            return _deserr_trait_name(self.trait)
        it = self.impl_trait
        if it is not None:
            t = _deserr_trait_name(it)
            if t is not None:
                return t
        return None

    def is_method(self, trait, name):
        return self.deserr_trait() == trait and self.name == name

    def is_fn(self, *paths):
        """match by def path, e.g. 'std::option::Option::<T>::unwrap'"""
        return self.path in paths

    def base(self):
        """def path with generic arguments erased: `std::option::Option::<T>::unwrap` -> `std::option::Option::unwrap`"""
        return erase_generics(self.path) if self.path else None


def erase_generics(p):
    """drop every `<...>` group of a printed path (`->` inside fn types does not close a group):
    `std::option::Option::<T>::unwrap` -> `std::option::Option::unwrap`"""
    out = []
    depth = 0
    i = 0
    n = len(p)
    while i < n:
        c = p[i]
        if c == "-" and i + 1 < n and p[i + 1] == ">":
            if depth == 0:
                out.append("->")
            i += 2
            continue
        if c == "<":
            depth += 1
        elif c == ">":
            depth = max(0, depth - 1)
        elif depth == 0:
            out.append(c)
        i += 1
    s = "".join(out)
    while "::::" in s:
        s = s.replace("::::", "::")
    return s.strip(":")


class View:
    def __init__(self, body):
        self.b = body
        self.crate = body.crate
        self.blocks = body.blocks
        n = len(self.blocks)
        self.n = n
        self.succ = [[] for _ in range(n)]
        self.edge_kind = {}
        for i, blk in enumerate(self.blocks):
            if blk["cleanup"]:
                continue
            t = blk["term"]
            k = t["k"]
            if k == "goto":
                self.succ[i] = [t["target"]]
            elif k == "switch":
                tg = [b for _, b in t["targets"]] + [t["otherwise"]]
                seen = []
                for x in tg:
                    if x not in seen:
                        seen.append(x)
                self.succ[i] = seen
            elif k in ("call", "drop", "assert", "yield"):
                if t.get("target") is not None:
                    self.succ[i] = [t["target"]]
            # return / unreachable / resume: none
        # prune successors that are `unreachable` blocks with no statements
        self.unreach = set(i for i, blk in enumerate(self.blocks)
                           if blk["term"]["k"] == "unreachable" and not blk["cleanup"])
        self.pred = [[] for _ in range(n)]
        for i in range(n):
            for s in self.succ[i]:
                self.pred[s].append(i)
        self.reach = self._reach_from(0)
        self.returns = [i for i in self.reach if self.blocks[i]["term"]["k"] == "return"]
        self._dom = None
        self._pdom = None
        self._defs = None
        self._callees = {}
        self._origin_memo = {}
        self.opaque = set()   # locals whose provenance is deliberately not followed (named state variables)

    # ------------------------------------------------------------------ CFG
    def _reach_from(self, start, barrier=()):
        seen = set()
        st = [start]
        while st:
            x = st.pop()
            if x in seen or x in barrier:
                continue
            seen.add(x)
            st.extend(self.succ[x])
        return seen

    def reachable(self, start, barrier=()):
        """blocks reachable from `start` (inclusive) without entering `barrier` blocks"""
        return self._reach_from(start, set(barrier))

    def dom(self):
        if self._dom is None:
            self._dom = _dominators(self.n, self.succ, self.pred, [0], self.reach)
        return self._dom

    def dominates(self, a, b):
        return a in self.dom().get(b, ())

    def pdom(self):
        """post-dominator sets w.r.t. a virtual exit joined to every return / diverging block"""
        if self._pdom is None:
            exits = [i for i in self.reach if not self.succ[i]]
            # reverse graph
            self._pdom = _dominators(self.n, self.pred, self.succ, exits, self.reach, virtual_root=True)
        return self._pdom

    def postdominates(self, a, b):
        return a in self.pdom().get(b, ())

    def loops(self):
        """natural loops: list of (header, set(blocks))"""
        res = {}
        d = self.dom()
        for i in self.reach:
            for s in self.succ[i]:
                if s in d.get(i, ()):  # back edge i -> s
                    body = set([s])
                    st = [i]
                    while st:
                        x = st.pop()
                        if x in body:
                            continue
                        body.add(x)
                        st.extend(self.pred[x])
                    res.setdefault(s, set()).update(body)
        return sorted(res.items())

    # ---------------------------------------------------------------- calls
    def callee(self, bb):
        t = self.blocks[bb]["term"]
        if t["k"] != "call":
            return None
        c = self._callees.get(bb)
        if c is None:
            c = Callee(self.b, t)
            self._callees[bb] = c
        return c

    def calls(self):
        for i in sorted(self.reach):
            c = self.callee(i)
            if c is not None:
                yield i, c

    # ----------------------------------------------------------------- defs
    def defs(self):
        """local -> list of def sites: ('stmt', bb, idx, rv) | ('call', bb, term) | ('param',)"""
        if self._defs is None:
            d = {}
            for l in range(1, self.b.arg_count + 1):
                d.setdefault(l, []).append(("param", l))
            for i, blk in enumerate(self.blocks):
                if blk["cleanup"] or i not in self.reach:
                    continue
                for j, st in enumerate(blk["stmts"]):
                    if st["k"] == "assign":
                        if st["place"]["p"] and st["place"]["p"][0]["k"] == "deref":
                            continue  # a write through a reference does not redefine the reference
                        d.setdefault(st["place"]["l"], []).append(("stmt", i, j, st))
                t = blk["term"]
                if t["k"] == "call":
                    d.setdefault(t["dest"]["l"], []).append(("call", i, t))
                if t["k"] == "yield":
                    d.setdefault(t["resume_arg"]["l"], []).append(("yield", i, t))
            self._defs = d
        return self._defs

    def whole_defs(self, l):
        """definitions that assign the whole local"""
        out = []
        for d in self.defs().get(l, []):
            if d[0] == "stmt" and d[3]["place"]["p"]:
                continue
            if d[0] == "call" and d[2]["dest"]["p"]:
                continue
            out.append(d)
        return out

    # ------------------------------------------------------ discriminants
    def switch_info(self, bb):
        """For a SwitchInt block: returns dict(place=<place json or None>, kind='discr'|'bool'|'int',
        edges=[(label, target)]) where label is a variant name for discriminant switches, True/False
        for bool switches, or the integer; 'otherwise' edges get label None (or the set of remaining
        variant names in 'others')."""
        t = self.blocks[bb]["term"]
        if t["k"] != "switch":
            return None
        d = t["discr"]
        info = {"bb": bb, "place": None, "kind": "int", "edges": [], "others": None, "src": None}
        src = None
        if d["k"] in ("copy", "move") and not d["place"]["p"]:
            l = d["place"]["l"]
            # look for the defining statement in this block (discriminant reads are emitted right before)
            for st in reversed(self.blocks[bb]["stmts"]):
                if st["k"] == "assign" and st["place"]["l"] == l and not st["place"]["p"]:
                    src = st["rv"]
                    break
            if src is None:
                wd = self.whole_defs(l)
                if len(wd) == 1 and wd[0][0] == "stmt":
                    src = wd[0][3]["rv"]
                elif len(wd) == 1 and wd[0][0] == "call":
                    src = {"k": "callresult", "bb": wd[0][1]}
        info["src"] = src
        ty = self.crate.types[t["discr_ty"]]
        if src is not None and src["k"] == "discr":
            info["kind"] = "discr"
            info["place"] = src["place"]
            pty = self.crate.types[src["place"]["ty"]]
            names = {}
            if pty["k"] == "adt":
                adt = self.crate.adts.get(pty["path"])
                if adt:
                    for v in adt["variants"]:
                        names[v["discr"]] = v["name"]
            used = set()
            for val, tgt in t["targets"]:
                nm = names.get(val, "#%d" % val)
                used.add(nm)
                info["edges"].append((nm, tgt))
            info["others"] = [nm for nm in names.values() if nm not in used]
            info["edges"].append((None, t["otherwise"]))
            info["adt"] = pty.get("path")
        elif ty["s"] == "bool":
            info["kind"] = "bool"
            for val, tgt in t["targets"]:
                info["edges"].append((bool(val), tgt))
            # for bool switches `otherwise` is the complementary value
            vals = [v for v, _ in t["targets"]]
            if vals == [0]:
                info["edges"].append((True, t["otherwise"]))
            elif vals == [1]:
                info["edges"].append((False, t["otherwise"]))
            else:
                info["edges"].append((None, t["otherwise"]))
        else:
            for val, tgt in t["targets"]:
                info["edges"].append((val, tgt))
            info["edges"].append((None, t["otherwise"]))
        return info

    def matches_source(self, bb):
        """For a switch on a bool temporary produced by `matches!(place, Pattern)`: returns
        (info of the discriminant switch, set of variant names that make it true) or None.
        Shape: discriminant switch whose edges lead to blocks assigning const true / const false to one
        local that is then switched on at bb."""
        t = self.blocks[bb]["term"]
        if t["k"] != "switch":
            return None
        d = t["discr"]
        if d["k"] not in ("copy", "move") or d["place"]["p"]:
            return None
        l = d["place"]["l"]
        if self.b.ltys(l) != "bool":
            return None
        wd = self.whole_defs(l)
        trues = [x for x in wd if x[0] == "stmt" and x[3]["rv"]["k"] == "use" and x[3]["rv"]["op"].get("bool") is True]
        falses = [x for x in wd if x[0] == "stmt" and x[3]["rv"]["k"] == "use" and x[3]["rv"]["op"].get("bool") is False]
        if not trues or not falses or len(trues) + len(falses) != len(wd):
            return None
        for sb in sorted(self.reach):
            info = self.switch_info(sb)
            if not info or info["kind"] != "discr" or not self.dominates(sb, bb):
                continue
            names = set()
            ok = True
            for lb, tgt in info["edges"]:
                if tgt in self.unreach:
                    continue
                reach = self.reachable(tgt, barrier=[bb])
                hits_t = any(x[1] in reach for x in trues)
                hits_f = any(x[1] in reach for x in falses)
                if hits_t and hits_f:
                    ok = False
                if hits_t:
                    if lb is None:
                        names.update(info["others"] or [])
                    else:
                        names.add(lb)
            if ok and names:
                return info, names
        return None

    def edge_target(self, info, label):
        for lb, tgt in info["edges"]:
            if lb == label:
                return tgt
        return None

    def variant_target(self, info, name):
        """target block for variant `name` (falling back to the otherwise edge when it stands for it)"""
        for lb, tgt in info["edges"]:
            if lb == name:
                return tgt
        if info["others"] is not None and name in info["others"]:
            for lb, tgt in info["edges"]:
                if lb is None:
                    if tgt in self.unreach:
                        return None
                    return tgt
        return None

    # ----------------------------------------------------------- provenance
    def origin(self, op, depth=0):
        """Symbolic term for an operand. Terms are tuples:
        ('param', n) ('const', repr) ('fnconst', path) ('field', base, variant, name) ('deref', t) ('ref', t)
        ('call', bb, base_path, (args...)) ('agg', kind, (ops...)) ('multi', local) ('cast', t, toty)
        ('discr', t) ('binop', op, a, b) ('unop', op, a) ('index', base, t)"""
        k = op["k"]
        if k == "const":
            if "fn" in op:
                return ("fnconst", op["fn"]["path"])
            if "str" in op:
                return ("const", "str", op["str"])
            if "int" in op:
                return ("const", "int", op["int"])
            if "big" in op:
                return ("const", "int", int(op["big"]))
            return ("const", "other", op["s"])
        if k in ("copy", "move"):
            return self.origin_place(op["place"], depth)
        return ("unknown", op.get("s"))

    def origin_place(self, place, depth=0):
        t = self.origin_local(place["l"], depth)
        for e in place["p"]:
            ek = e["k"]
            if ek == "deref":
                if t[0] == "ref":
                    t = t[1]
                else:
                    t = ("deref", t)
            elif ek == "downcast":
                t = ("downcast", t, e["variant"])
            elif ek == "field":
                if t[0] == "downcast":
                    t = ("field", t[1], t[2], e["name"])
                else:
                    # field of an aggregate we know: project
                    if t[0] == "agg" and t[1] in ("tuple",) and e["name"].isdigit() and int(e["name"]) < len(t[2]):
                        t = t[2][int(e["name"])]
                    elif t[0] == "agg" and t[1] == "closure" and isinstance(e.get("i"), int) and e["i"] < len(t[2]):
                        t = t[2][e["i"]]     # a captured variable of a closure whose environment is known (expanded closure call)
                    else:
                        t = ("field", t, e.get("variant"), e["name"])
            elif ek == "index":
                t = ("index", t, self.origin_local(e["l"], depth + 1))
            elif ek == "constindex":
                t = ("constindex", t, e["offset"], e["from_end"], e["min_length"])
            elif ek == "subslice":
                t = ("subslice", t, e["from"], e["to"], e["from_end"])
            else:
                t = (ek, t)
        return t

    def origin_local(self, l, depth=0):
        key = l
        if key in self._origin_memo:
            return self._origin_memo[key]
        if depth > 60 or l in self.opaque:
            return ("multi", l)
        self._origin_memo[key] = ("multi", l)  # cycle guard
        ds = self.defs().get(l, [])
        whole = self.whole_defs(l)
        res = ("multi", l)
        if len(ds) == 1 and len(whole) == 1:
            d = whole[0]
            if d[0] == "param":
                res = ("param", l)
            elif d[0] == "stmt":
                res = self.origin_rv(d[3]["rv"], d[1], depth + 1)
            elif d[0] == "call":
                res = self.origin_call(d[1], depth + 1)
            elif d[0] == "yield":
                res = ("resume", d[1])
        elif len(ds) == 0:
            res = ("undef", l)
        self._origin_memo[key] = res
        return res

    # ------------------------------------------------------ alternatives of a value
    UNWRAPS = ("std::option::Option::unwrap", "std::option::Option::expect", "std::result::Result::unwrap", "std::result::Result::expect",
               "std::option::Option::unwrap_unchecked")

    def alts(self, t, depth=0, seen=frozenset()):
        """Set of terms a value may come from: locals with several definitions are expanded into their
        definitions, and a projection out of a constructor is cancelled against it (`(Some(x) as Some).0` = x;
        the alternatives built with another variant are infeasible for that projection and dropped).  This is what
        makes rules independent of temporaries, of `match` arms building an Option/Result that is taken apart again
        right after, and of inlined helpers."""
        if depth > 14 or not isinstance(t, tuple) or not t:
            return {t}
        k = t[0]
        if k == "multi":
            l = t[1]
            if l in seen or l in self.opaque:
                return {t}
            out = set()
            for d in self.whole_defs(l):
                if d[0] == "stmt":
                    out |= self.alts(self.origin_rv(d[3]["rv"], d[1]), depth + 1, seen | {l})
                elif d[0] == "call":
                    out |= self.alts(self.origin_call(d[1]), depth + 1, seen | {l})
                elif d[0] == "param":
                    out.add(("param", l))
                else:
                    out.add(("unknown", "def"))
            return out
        if k == "field":
            out = set()
            for b in self.alts(t[1], depth + 1, seen):
                if b[0] == "agg" and b[1] == "adt" and t[2] is not None:
                    if b[4] != t[2]:
                        continue
                    fields = b[5]
                    if t[3] in fields and fields.index(t[3]) < len(b[2]):
                        out |= self.alts(b[2][fields.index(t[3])], depth + 1, seen)
                        continue
                if b[0] == "agg" and b[1] == "tuple" and t[2] is None and str(t[3]).isdigit() and int(t[3]) < len(b[2]):
                    out |= self.alts(b[2][int(t[3])], depth + 1, seen)
                    continue
                # `x?`: (Try::branch(x) as Continue).0 is x's Ok / Some payload; ((.. as Break).0 as Err).0 is x's Err payload
                if b[0] == "call" and b[2] and "std::ops::Try>::branch" in b[2] and b[3] and t[2] == "Continue":
                    okv = "Ok" if b[2].startswith("<std::result::Result") else "Some" if b[2].startswith("<std::option::Option") else None
                    if okv:
                        out |= self.alts(("field", b[3][0], okv, "0"), depth + 1, seen)
                        continue
                if t[2] == "Err" and b[0] == "field" and b[2] == "Break" and isinstance(b[1], tuple) and b[1][0] == "call" and b[1][2] and \
                        "std::ops::Try>::branch" in b[1][2] and b[1][2].startswith("<std::result::Result") and b[1][3]:
                    out |= self.alts(("field", b[1][3][0], "Err", "0"), depth + 1, seen)
                    continue
                out.add(("field", b, t[2], t[3]))
            return out
        if k in ("ref", "deref") and len(t) == 2:
            return set((k, x) if k == "ref" or x[0] != "ref" else x[1] for x in self.alts(t[1], depth + 1, seen))
        if k == "call" and t[2] is not None and t[3]:
            base = erase_generics(t[2])
            if base in self.UNWRAPS:
                out = set()
                for a in self.alts(t[3][0], depth + 1, seen):
                    if a[0] == "agg" and a[1] == "adt" and a[4] in ("Some", "Ok") and a[2]:
                        out |= self.alts(a[2][0], depth + 1, seen)
                    elif a[0] == "agg" and a[1] == "adt" and a[4] in ("None", "Err"):
                        continue   # the panicking alternative is C12's business
                    else:
                        out.add(("call", t[1], t[2], (a,) + tuple(t[3][1:])))
                return out
        return {t}

    def set_opaque(self, locals_):
        self.opaque = set(locals_)
        self._origin_memo = {}

    def origin_call(self, bb, depth=0):
        c = self.callee(bb)
        t = self.blocks[bb]["term"]
        args = tuple(self.origin(a, depth + 1) for a in t["args"])
        if c.fn is None:
            return ("call", bb, None, (self.origin(t["func"], depth + 1),) + args)
        return ("call", bb, c.full, args)

    def origin_rv(self, rv, bb, depth=0):
        k = rv["k"]
        if k == "use":
            return self.origin(rv["op"], depth)
        if k == "ref":
            return ("ref", self.origin_place(rv["place"], depth))
        if k == "rawptr":
            return ("ref", self.origin_place(rv["place"], depth))
        if k == "cast":
            inner = self.origin(rv["op"], depth)
            ck = rv["ck"]
            if ck.startswith("PointerCoercion(Unsize") or ck.startswith("PointerCoercion(ReifyFnPointer") \
                    or ck.startswith("PointerCoercion(ClosureFnPointer"):
                return inner
            return ("cast", ck, inner, self.crate.tys(rv["to"]))
        if k == "discr":
            return ("discr", self.origin_place(rv["place"], depth))
        if k == "binop":
            return ("binop", rv["op"], self.origin(rv["a"], depth), self.origin(rv["b"], depth))
        if k == "unop":
            return ("unop", rv["op"], self.origin(rv["a"], depth))
        if k == "agg":
            ops = tuple(self.origin(o, depth) for o in rv["ops"])
            ak = rv["ak"]
            if ak == "adt":
                return ("agg", "adt", ops, rv["path"], rv["variant"], tuple(rv["fields"]))
            if ak == "closure":
                return ("agg", "closure", ops, rv["path"])
            return ("agg", ak, ops)
        if k == "repeat":
            return ("repeat", self.origin(rv["op"], depth), rv["count"])
        return ("unknown", rv.get("s"))


def strip_refs(t):
    """remove ref/deref wrappers and identity-like calls from a term"""
    while True:
        if t[0] in ("ref", "deref"):
            t = t[1]
            continue
        if t[0] == "call" and t[2] is not None:
            base = t[2]
            if any(base.startswith(p) for p in IDENTITY_CALLS) and len(t[3]) >= 1:
                t = t[3][0]
                continue
        return t


IDENTITY_CALLS = (
    "<std::string::String as std::ops::Deref>::deref",
    "std::string::String::as_str",
    "<std::string::String as std::convert::AsRef<str>>::as_ref",
    "<std::string::String as std::borrow::Borrow<str>>::borrow",
    "std::hint::must_use",
    "<&str as std::ops::Deref>::deref",
)


def term_calls(t, acc=None):
    """all ('call', ...) subterms"""
    if acc is None:
        acc = []
    if isinstance(t, tuple):
        if t and t[0] == "call":
            acc.append(t)
        for x in t:
            if isinstance(x, tuple):
                term_calls(x, acc)
    return acc


def term_mentions(t, pred):
    if isinstance(t, tuple):
        try:
            if t and isinstance(t[0], str) and pred(t):
                return True
        except (IndexError, TypeError):
            pass
        return any(term_mentions(x, pred) for x in t if isinstance(x, tuple))
    return False


def _dominators(n, succ, pred, roots, nodes, virtual_root=False):
    """iterative dominator sets; returns {node: frozenset(dominators incl. itself)}.
    With several roots a virtual root is assumed."""
    nodes = set(nodes)
    roots = [r for r in roots if r in nodes]
    full = frozenset(nodes)
    dom = {x: full for x in nodes}
    for r in roots:
        dom[r] = frozenset([r])
    changed = True
    order = _rpo(succ, roots, nodes)
    while changed:
        changed = False
        for x in order:
            if x in roots:
                continue
            ps = [p for p in pred[x] if p in nodes]
            if not ps:
                new = frozenset([x])
            else:
                it = None
                for p in ps:
                    it = dom[p] if it is None else (it & dom[p])
                new = it | frozenset([x])
            if new != dom[x]:
                dom[x] = new
                changed = True
    return dom


def _rpo(succ, roots, nodes):
    seen = set()
    out = []

    def dfs(x):
        stack = [(x, iter(succ[x]))]
        seen.add(x)
        while stack:
            node, it = stack[-1]
            adv = False
            for s in it:
                if s in nodes and s not in seen:
                    seen.add(s)
                    stack.append((s, iter(succ[s])))
                    adv = True
                    break
            if not adv:
                out.append(node)
                stack.pop()

    for r in roots:
        if r not in seen:
            dfs(r)
    out.reverse()
    return out
