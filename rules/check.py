#!/usr/bin/env python3
"""Entry point of every registered check:  rules/check.py <ID> [--tier quick|thorough] [--replay FILE]

Extracts MIR facts from /repo's current working tree (VERIF_REPO overrides the location),
runs the static rules of the property, writes /verif/evidence/<ID>.json and prints
`VIOLATION property=<ID> replay=<path>` (exit 1) for every finding that is not an exact-key
entry of known_findings.txt."""
import hashlib
import importlib
import json
import os
import sys
import time
import traceback

HERE = os.path.dirname(os.path.abspath(__file__))
VERIF = os.path.dirname(HERE)
sys.path.insert(0, HERE)

import extract  # noqa: E402
from facts import Crate  # noqa: E402

PROPS = ["C%02d" % i for i in range(1, 21)]


class Ctx:
    def __init__(self, tier, seed, log):
        self.tier = tier
        self.seed = seed
        self.log = log
        self._lib = {}
        self._corpus = {}
        self.extract_meta = []

    def lib(self, config="default"):
        """{crate name: Crate} for one library feature configuration"""
        if config not in self._lib:
            d, st = extract.ensure_lib_facts(config, log=self.log)
            self.extract_meta.append(st)
            self._lib[config] = {n: Crate(os.path.join(d, n + ".json")) for n in ("deserr", "deserr_internal")}
        return self._lib[config]

    def corpus(self, name):
        """{crate name: Crate} for a corpus crate of /verif (catalogue, controls); includes deserr and deserr_internal"""
        if name not in self._corpus:
            import corpora
            d, st, crates = corpora.ensure(name, self)
            self.extract_meta.append(st)
            self._corpus[name] = {n: Crate(os.path.join(d, n + ".json")) for n in crates + ["deserr", "deserr_internal"]}
        return self._corpus[name]

    def libcrate(self, name="deserr"):
        """facts of a library crate in the default configuration, for properties that do not involve the corpora:
        reuses the catalogue run when it is available, else extracts the library alone"""
        try:
            return self.corpus("catalogue")[name]
        except extract.CorpusBuildFailed:
            return self.lib("default")[name]

    def lib_configs(self):
        if self.tier == "thorough":
            return ["default", "jsononly", "actix", "axum"]
        return ["default"]


class PropResult:
    def __init__(self, pid):
        self.pid = pid
        self.findings = []
        self.obligations = 0
        self.rules = {}          # rule id -> [obligations, discharged]
        self.samples = []
        self.analysed = {}
        self.assumptions = []
        self.trusted_base = []
        self.level = "other"
        self.explanation = ""
        self.floors = []         # (name, measured, floor)
        self.notes = []

    def add(self, rule, obligations, findings):
        r = self.rules.setdefault(rule, [0, 0])
        bad_keys = set(f.key() for f in findings)
        r[0] += obligations
        r[1] += max(0, obligations - len(bad_keys))
        self.obligations += obligations
        self.findings += findings

    def floor(self, name, measured, floor):
        self.floors.append((name, measured, floor))


def load_known():
    known = set()
    fixed = []
    p = os.path.join(VERIF, "known_findings.txt")
    if os.path.exists(p):
        for line in open(p):
            line = line.strip()
            if not line or line.startswith("#"):
                continue
            if line.startswith("known:"):
                # known: property=<id> key=<exact violation key>
                rest = line[len("known:"):].strip()
                pid = rest.split()[0].split("=", 1)[1]
                key = rest.split("key=", 1)[1].strip()
                known.add((pid, key))
            elif line.startswith("fixed:"):
                fixed.append(line)
    return known, fixed


def main():
    args = sys.argv[1:]
    if not args or args[0] not in PROPS:
        print("usage: check.py <C01..C20> [--tier quick|thorough] [--replay FILE]", file=sys.stderr)
        sys.exit(2)
    pid = args[0]
    tier = os.environ.get("VERIF_TIER", "quick")
    replay = None
    i = 1
    while i < len(args):
        if args[i] == "--tier":
            tier = args[i + 1]
            i += 2
        elif args[i] == "--replay":
            replay = args[i + 1]
            i += 2
        else:
            i += 1
    if tier not in ("quick", "thorough"):
        tier = "quick"
    if replay:
        # a replay file is the human-readable record of one finding; re-running the check re-decides it
        try:
            print(open(replay).read())
        except OSError as e:
            print("cannot read replay file: %s" % e)
    try:
        seed = int(os.environ.get("VERIF_SEED", "0"))
    except ValueError:
        seed = 0
    t0 = time.time()
    log = sys.stderr
    ctx = Ctx(tier, seed, log)
    mod = importlib.import_module("p_" + pid.lower())
    evdir = os.environ.get("VERIF_EVIDENCE_DIR") or os.path.join(VERIF, "evidence")
    ev_path = os.path.join(evdir, pid + ".json")
    os.makedirs(os.path.join(evdir, "replay"), exist_ok=True)
    for fn in os.listdir(os.path.join(evdir, "replay")):
        if fn.startswith(pid + "-"):
            os.remove(os.path.join(evdir, "replay", fn))
    try:
        res = mod.run(ctx)
    except extract.CorpusBuildFailed as e:
        # the library builds but the code the derive generates for the corpus (or the corpus' use of the
        # public API) no longer type-checks: nothing can be established for those inputs -> fail closed
        from lin import Finding
        res = PropResult(pid)
        errs, n = e.first_errors()
        first = errs[0] if errs else "unknown error"
        import re as _re
        first_key = _re.sub(r"src/lib\.rs:\d+:\d+", "src/lib.rs", first)
        res.level = "other"
        res.explanation = "corpus crate %s does not compile against the working tree" % e.name
        res.rules["CORPUS.BUILD"] = [1, 0]
        res.findings.append(Finding("CORPUS.BUILD", e.name, "the corpus no longer compiles against the repository (%d errors), first: %s" % (n, first_key[:300]), "", "\n".join(errs)))
    except extract.BuildFailed as e:
        print("CHECKER-ERROR property=%s the repository does not build under cargo +nightly check: %s" % (pid, str(e)[-3000:]))
        sys.exit(2)
    except Exception:
        traceback.print_exc()
        print("CHECKER-ERROR property=%s internal error of the checker" % pid)
        sys.exit(2)
    from lin import Finding
    anchors = []
    for name, measured, floor in res.floors:
        if measured < floor:
            anchors.append(Finding("CHECKER-ANCHOR", "-", "%s: %d instances examined, at least %d expected (the rule lost its anchor)" % (name, measured, floor), ""))
    res.findings += anchors
    known, fixed = load_known()
    # dedupe by key
    uniq = {}
    for f in res.findings:
        uniq.setdefault(f.key(), f)
    viol = []
    known_hit = []
    undecided = []
    # a rule that says it could not find / read / establish the construct it reasons about gives no verdict (DESIGN §14.5)
    NO_VERDICT = ("cannot establish", "cannot find", "cannot read", " not found", "not recognised", "unrecognised", "not understood", "not extracted")
    for f in uniq.values():
        if f.rule not in ("CORPUS.BUILD", "CHECKER-ANCHOR") and not f.rule.endswith(".BUILD") and not f.rule.endswith(".WIT") and any(x in f.what for x in NO_VERDICT) \
                and "keys behind a longer run" not in f.what:
            f.undecided = True
    # generated code that delegates to library helpers the readers do not model (a template restructured around run-time
    # helpers): what the rules extract from such code is not the whole story -> no verdict on those bodies (DESIGN §14)
    try:
        import derive_prop
        unk = derive_prop.unknown_library_api(ctx) if ctx._corpus.get("catalogue") else []
    except Exception:
        unk = []
    if unk:
        for f in uniq.values():
            if " as deserr::Deserr<" in (f.body or "") and not f.rule.endswith(".BUILD"):
                f.undecided = True
    # a count below its floor beside rules that said "construct not recognised" is the same statement once more, not a verdict;
    # a count below its floor with nothing else said stays fatal (a rule that silently matches nothing)
    if any(getattr(f, "undecided", False) for f in uniq.values()):
        for f in uniq.values():
            if f.rule == "CHECKER-ANCHOR":
                f.undecided = True
    for k, f in sorted(uniq.items()):
        if getattr(f, "undecided", False):
            undecided.append(f)
        elif (pid, k) in known:
            known_hit.append(f)
        else:
            viol.append(f)
    replay_files = []
    for f in viol:
        h = hashlib.sha256(f.key().encode()).hexdigest()[:12]
        rp = os.path.join(evdir, "replay", "%s-%s.json" % (pid, h))
        json.dump({"property": pid, "key": f.key(), "rule": f.rule, "body": f.body, "what": f.what,
                   "at": f.at, "detail": f.detail, "tier": tier,
                   "how_to_replay": "rules/check.py %s --tier %s  (re-extracts facts from the working tree and re-applies rule %s)" % (pid, tier, f.rule)},
                  open(rp, "w"), indent=1)
        replay_files.append((f, rp))
    wall = time.time() - t0
    total_ob = sum(v[0] for v in res.rules.values())
    viol_keys = set(f.key() for f in viol) | set(f.key() for f in known_hit)
    discharged = max(0, total_ob - len(viol_keys))
    cov = {
        "obligations": total_ob,
        "discharged": discharged,
        "evaluations": total_ob,
        "distinct_nontrivial": total_ob,
        "rule": "; ".join("%s: %d instances" % (k, v[0]) for k, v in sorted(res.rules.items())),
        "rules": {k: {"instances": v[0], "discharged": v[1]} for k, v in sorted(res.rules.items())},
        "checker_cmd": "python3 rules/check.py %s --tier %s" % (pid, tier),
        "trusted_base": res.trusted_base,
        "samples": res.samples[:12] if res.samples else [{"note": "no sample recorded"}],
        "analysed": res.analysed,
        "floors": [{"unit": n, "measured": m, "floor": fl} for n, m, fl in res.floors],
        "explanation": res.explanation,
        "extraction": [{k: st.get(k) for k in ("config", "hash", "run_id", "files", "cached", "wall_s")} for st in ctx.extract_meta],
        "known_findings_applied": [f.key() for f in known_hit],
        "fixed_entries": [x for x in fixed if ("property=%s " % pid) in x],
        "violation_keys": [f.key() for f in viol],
        "undecided": [f.key() for f in undecided],
        "notes": res.notes + ([getattr(ctx, "degraded")] if getattr(ctx, "degraded", None) else []),
    }
    ev = {
        "property_id": pid,
        "tier": tier,
        "seed": seed,
        "level": res.level,
        "coverage": cov,
        "assumptions": res.assumptions,
        "wall_s": round(wall, 2),
        "violations": len(viol),
    }
    tmp = ev_path + ".tmp%d" % os.getpid()
    json.dump(ev, open(tmp, "w"), indent=1)
    os.replace(tmp, ev_path)
    print("[%s] tier=%s rules=%s obligations=%d discharged=%d violations=%d%s wall=%.1fs" % (
        pid, tier, ",".join(sorted(res.rules)), total_ob, discharged, len(viol), (" undecided=%d" % len(undecided)) if undecided else "", wall))
    for f in known_hit:
        print("KNOWN-FINDING: property=%s %s" % (pid, f.key()))
    for f in undecided:
        print("UNDECIDED property=%s %s  @ %s" % (pid, f.key(), f.at))
    for f, rp in replay_files:
        print("  %s  @ %s %s" % (f.key(), f.at, f.detail))
        print("VIOLATION property=%s replay=%s" % (pid, rp))
    sys.exit(1 if viol else 0)


if __name__ == "__main__":
    main()
