"""Positive controls: the deliberately wrong impls of /verif/controls must be flagged on every run.
A rule that stops seeing its control has gone blind (vacuous pass) -> CHECKER-CONTROL violation."""
from analysis import View
from lin import Finding
from scope import deser_roots, closures_of
from sites import BodySites

EXPECT = {
    "C01": {"C01DropAcc": "C01.LIN", "C01OkChild": "C01.LIN"},
    "C02": {"C02BreakLoop": "C02.", "C02Late": "C02.LATE"},
    "C03": {"C03SwallowBreak": "C03.BREAK", "C03ReportAfterBreak": "C03.BREAK"},
    "C04": {"C04ConstIndex": "C04.CHILD", "C04MergeAtParent": "C04.MERGE", "C04ActualNull": "C04.PAYLOAD"},
    "C12": {"C12Unwrap": "C12.SITE", "C12Index": "C12.SITE"},
    "C15": {"C15FirstKey": "C15.DISJ", "C15Enumerate": "C15.ITER"},
}


def type_name(b):
    return (b.impl_self_str() or "").split("::")[-1]


def run(ctx, res, pid, runner):
    """runner(crate, body, view, bodysites) -> list of findings for one control body"""
    try:
        crates = ctx.corpus("controls")
    except Exception as e:  # the controls no longer compile against the tree: nothing can be said about the rules' eyesight
        res.findings.append(Finding("CHECKER-CONTROL", "controls", "the positive controls do not build: %s" % str(e)[:200], ""))
        res.rules["CONTROLS"] = [len(EXPECT[pid]), 0]
        return
    crate = crates["deserr_controls"]
    seen = {}
    for b in deser_roots(crate):
        nm = type_name(b)
        if nm not in EXPECT[pid]:
            continue
        v = View(b)
        bs = BodySites(v)
        fs = runner(crate, b, v, bs)
        seen[nm] = [f for f in fs if f.rule.startswith(EXPECT[pid][nm])]
    bad = []
    for nm, rule in EXPECT[pid].items():
        if not seen.get(nm):
            bad.append(Finding("CHECKER-CONTROL", nm, "rule %s no longer flags its positive control %s (the rule has gone blind)" % (rule, nm), ""))
    res.add("CONTROLS", len(EXPECT[pid]), bad)
    res.analysed["positive_controls_flagged"] = sorted(k for k, v2 in seen.items() if v2)
