"""C13 — serde_json bridge: table agreement of the four sibling functions
(into_value, kind, Deserr for serde_json::Value, From<Value<V>> for serde_json::Value)."""
from analysis import View, strip_refs, erase_generics, term_mentions
from check import PropResult
from lin import Finding
from loc import canon, fmt, call_name
from sites import BodySites, npath, follow_local_use
import coll
import skeleton

PAIRS = {"Null": "Null", "Bool": "Boolean", "String": "String", "Array": "Sequence", "Object": "Map"}   # JValue -> Value
BACK = {"Null": "Null", "Boolean": "Bool", "String": "String", "Sequence": "Array", "Map": "Object"}     # Value -> JValue


def fnd(rule, v, what, bb=None, detail=""):
    at = v.blocks[bb]["term"].get("at", "") if bb is not None else v.b.span
    return Finding(rule, v.b.path, what, at, detail)


def find(crate, pred):
    b = _find(crate, pred)
    if b is not None and b.kind in ("Fn", "AssocFn"):
        import inline
        return inline.expand_local_helpers(crate, b)
    return b


def _find(crate, pred):
    for b in crate.bodies:
        if pred(b):
            return b
    return None


def arm_regions(v, info):
    """{variant: blocks only reachable through that variant's edge}"""
    res = {}
    for lb, t in info["edges"]:
        if lb is None or t in v.unreach:
            continue
        others = [x for l2, x in info["edges"] if x != t and x not in v.unreach]
        res[lb] = v.reachable(t) - (set().union(*[v.reachable(o) for o in others]) if others else set())
    return res


def results_in(v, region, ret=0):
    out = []
    for bb in sorted(region):
        for st in v.blocks[bb]["stmts"]:
            if st["k"] == "assign" and st["place"]["l"] == ret and not st["place"]["p"]:
                out.append((bb, canon(v, v.origin_rv(st["rv"], bb))))
        t = v.blocks[bb]["term"]
        if t["k"] == "call" and t["dest"]["l"] == ret and not t["dest"]["p"]:
            out.append((bb, canon(v, v.origin_call(bb))))
    return out


def entry_switch(v, adt_suffix, self_deref=False):
    for bb in sorted(v.reach):
        info = v.switch_info(bb)
        if info and info["kind"] == "discr" and (info.get("adt") or "").endswith(adt_suffix) and info["place"]["l"] == 1:
            return bb, info
    return None, None


def is_agg(t, path_suffix, variant):
    return t[0] == "agg" and t[1] == "adt" and t[3].endswith(path_suffix) and t[4] == variant


def payload_of(t, variant):
    """t == (param1 as variant).0 (refs stripped)"""
    t = strip_refs(t)
    return t[0] == "field" and t[2] == variant and t[3] == "0" and strip_refs(t[1]) == ("param", 1)


def number_ladder(v, region, names, out_path, wrap):
    """ordered list of (test name, resulting variant, payload ok) for the Number arm"""
    tests = [(bb, v.callee(bb).name) for bb in sorted(region) if v.callee(bb) is not None and v.callee(bb).fn is not None
             and v.callee(bb).path.startswith("serde_json::Number::") and v.callee(bb).name in names]
    tests.sort(key=lambda x: sum(1 for y in tests if v.dominates(y[0], x[0])))
    ladder = []
    # the order of the tests is only known when each one is reached through the failure of the one before
    if any(not v.dominates(tests[i][0], tests[i + 1][0]) for i in range(len(tests) - 1)):
        return [("order-not-read", None, None)]
    for bb, nm in tests:
        # true / Some edge
        d = v.blocks[bb]["term"]["dest"]["l"]
        k, sbb, info, cur = follow_local_use(v, bb, d)
        tgt = None
        if k == "switch":
            tgt = v.variant_target(info, "Some")
        else:
            i2 = v.switch_info(v.blocks[bb]["term"]["target"])
            if i2 and i2["kind"] == "bool":
                tgt = v.edge_target(i2, True)
        built = None
        okp = None
        if tgt is not None:
            reg = skeleton.dominated(v, tgt)
            for x in sorted(reg):
                for st in v.blocks[x]["stmts"]:
                    if st["k"] == "assign" and st["rv"]["k"] == "agg" and st["rv"].get("path", "").endswith(out_path):
                        built = st["rv"]["variant"]
                        if st["rv"]["ops"]:
                            p = canon(v, v.origin(st["rv"]["ops"][0]))
                            okp = p[0] == "field" and p[2] == "Some" and p[1][0] == "call" and p[1][1] == bb
                        break
                if built:
                    break
        ladder.append((nm, built, okp))
    return ladder



def _number_of(v, t, dv):
    """t is the lossless integer conversion of the payload of variant dv: `Number::from(x)` or `x.into()` (the same impl)"""
    if t[0] != "call" or not t[3] or not payload_of(t[3][0], dv):
        return False
    c = v.callee(t[1])
    nm = call_name(v, t)
    if nm == "std::convert::From::from":
        return "serde_json::Number" in (c.full or "")
    if nm == "std::convert::Into::into":
        return "Into<serde_json::Number>" in (c.full or "").replace("std::convert::", "")
    return False


def run(ctx):
    res = PropResult("C13")
    res.level = "other"
    crate = ctx.libcrate("deserr")
    iv = find(crate, lambda b: b.name == "into_value" and "serde_json::Value" in (b.impl_self_str() or "") and b.path == b.root)
    kd = find(crate, lambda b: b.name == "kind" and "serde_json::Value" in (b.impl_self_str() or "") and b.path == b.root and npath(b.impl_trait or "") == "IntoValue")
    de = find(crate, lambda b: b.name == "deserialize_from_value" and (b.impl_self_str() or "") == "serde_json::Value" and b.path == b.root)
    fr = find(crate, lambda b: b.name == "from" and (b.impl_self_str() or "") == "serde_json::Value" and "From<value::Value<V>>" in (b.d.get("impl_trait_full") or "") and b.path == b.root)
    vk = find(crate, lambda b: erase_generics(npath(b.path)) == "Value::kind")
    missing = [n for n, x in (("into_value", iv), ("kind", kd), ("Deserr for Value", de), ("From<Value<V>>", fr), ("Value::kind", vk)) if x is None]
    if missing:
        res.add("C13.TABLE", 1, [Finding("C13.TABLE", "serde_json bridge", "functions not found: %s" % missing, "")])
        return res
    tables = {}
    # ------------------------------------------------------------------ into_value
    v = View(iv)
    fs = []
    bb, info = entry_switch(v, "serde_json::Value")
    if not info:
        fs.append(fnd("C13.TABLE", v, "into_value does not dispatch on the JSON variant"))
    else:
        arms = arm_regions(v, info)
        t_iv = {}
        for jv, dv in PAIRS.items():
            rs = results_in(v, arms.get(jv, set()))
            ok = len(rs) == 1 and is_agg(rs[0][1], "Value", dv) and (not rs[0][1][2] or payload_of(rs[0][1][2][0], jv))
            t_iv[jv] = dv if ok else "?"
            if not ok:
                fs.append(fnd("C13.TABLE", v, "into_value maps %s to %s" % (jv, fmt(rs[0][1]) if rs else "nothing")))
        lad = number_ladder(v, arms.get("Number", set()), ("as_u64", "as_i64", "as_f64"), "Value", None)
        t_iv["Number"] = lad
        want = [("as_u64", "Integer", True), ("as_i64", "NegativeInteger", True), ("as_f64", "Float", True)]
        if lad != want:
            if any(x is None for row in lad for x in row[1:]) or not lad or lad[0][0] == "order-not-read":
                fs.append(fnd("C13.ORDER", v, "the number ladder was not fully read (%s): not recognised (undecided)" % lad))
            else:
                fs.append(fnd("C13.ORDER", v, "numbers are classified by %s, expected u64 -> Integer, then i64 -> NegativeInteger, then f64 -> Float (each with the value just obtained)" % lad))
        tables["into_value"] = t_iv
    res.add("C13.TABLE/into_value", 7, fs)
    # ------------------------------------------------------------------ kind
    v = View(kd)
    fs = []
    bb, info = entry_switch(v, "serde_json::Value")
    if not info:
        fs.append(fnd("C13.TABLE", v, "kind does not dispatch on the JSON variant"))
    else:
        arms = arm_regions(v, info)
        t_k = {}
        for jv, dv in PAIRS.items():
            rs = results_in(v, arms.get(jv, set()))
            ok = len(rs) == 1 and is_agg(rs[0][1], "ValueKind", dv)
            t_k[jv] = dv if ok else "?"
            if not ok:
                fs.append(fnd("C13.TABLE", v, "kind() answers %s for %s although into_value yields %s" % (fmt(rs[0][1]) if rs else "nothing", jv, dv)))
        lad = number_ladder(v, arms.get("Number", set()), ("is_u64", "is_i64", "is_f64"), "ValueKind", None)
        t_k["Number"] = lad
        want = [("is_u64", "Integer", None), ("is_i64", "NegativeInteger", None), ("is_f64", "Float", None)]
        # siblings must ask a number the same questions: which of u64 / i64 / f64 accessors each of them consults
        def consulted(view, region, depth=0):
            ks = []
            for x in sorted(region):
                c = view.callee(x)
                if c is not None and c.fn is not None and c.path.startswith("serde_json::Number::") and c.name in ("is_u64", "is_i64", "is_f64", "as_u64", "as_i64", "as_f64"):
                    ks.append(c.name[3:])
                # closures created here (Option / Result combinator chains) ask their questions too
                for st in view.blocks[x]["stmts"]:
                    if st["k"] == "assign" and st["rv"]["k"] == "agg" and st["rv"].get("ak") == "closure" and depth < 4:
                        cb = _find(crate, lambda b, p_=st["rv"].get("path"): b.path == p_)
                        if cb is not None:
                            cv = View(cb)
                            ks += consulted(cv, cv.reach, depth + 1)
            return ks
        k_tests = consulted(v, arms.get("Number", set()))
        iv_view = View(iv)
        _b, iv_info = entry_switch(iv_view, "serde_json::Value")
        iv_tests = consulted(iv_view, arm_regions(iv_view, iv_info).get("Number", set())) if iv_info else []
        # serde_json holds a number as u64, i64 or f64; what is held as u64 above i64::MAX is `None` for as_i64 and rounded by
        # as_f64: a classification that never asks the u64 accessors cannot hand such a number on unchanged (likewise for i64)
        for who, tests in (("into_value", iv_tests), ("kind()", k_tests)):
            for acc, what in (("u64", "a non-negative integer above i64::MAX"), ("i64", "a negative integer")):
                if tests and acc not in tests and "f64" in tests:
                    fs.append(fnd("C13.ORDER", v, "%s never consults the %s accessors of a number (it consults %s): %s can only come out as a float" % (
                        who, acc, sorted(set(tests)), what)))
        if iv_tests and not k_tests:
            fs.append(fnd("C13.ORDER", v, "kind() does not look at how the number is held at all, into_value distinguishes %s: the two can disagree on a number" % sorted(set(iv_tests))))
        elif k_tests and iv_tests and set(k_tests) != set(iv_tests):
            fs.append(fnd("C13.ORDER", v, "kind() classifies numbers by their %s accessors, into_value by %s: the two can disagree on a number" % (sorted(set(k_tests)), sorted(set(iv_tests)))))
        elif lad and lad[0][0] == "order-not-read" or any(b2 is None for a, b2, _ in lad) or not lad:
            fs.append(fnd("C13.ORDER", v, "the order in which kind() classifies numbers was not read: not recognised (undecided)"))
        elif [(a, b2) for a, b2, _ in lad] != [(a, b2) for a, b2, _ in want]:
            fs.append(fnd("C13.ORDER", v, "kind() classifies numbers by %s; into_value uses u64 -> Integer, i64 -> NegativeInteger, f64 -> Float" % [(a, b2) for a, b2, _ in lad]))
        tables["kind"] = t_k
    res.add("C13.TABLE/kind", 7, fs)
    # ------------------------------------------------------------------ Value::kind
    v = View(vk)
    fs = []
    info = None
    for bb in sorted(v.reach):
        i2 = v.switch_info(bb)
        if i2 and i2["kind"] == "discr" and npath(i2.get("adt") or "") == "Value":
            info = i2
            break
    if not info:
        fs.append(fnd("C13.TABLE", v, "Value::kind does not dispatch on the variant: table not recognised (undecided)"))
    else:
        arms = arm_regions(v, info)
        for var in ("Null", "Boolean", "Integer", "NegativeInteger", "Float", "String", "Sequence", "Map"):
            rs = results_in(v, arms.get(var, set()))
            if not (len(rs) == 1 and is_agg(rs[0][1], "ValueKind", var)):
                fs.append(fnd("C13.TABLE", v, "Value::kind answers %s for %s" % (fmt(rs[0][1]) if rs else "nothing", var)))
    res.add("C13.TABLE/Value::kind", 8, fs)
    # ------------------------------------------------------------------ From<Value<V>>
    v = View(fr)
    fs = []
    bb, info = entry_switch(v, "Value")
    if not info:
        fs.append(fnd("C13.TABLE", v, "From<Value> does not dispatch on the variant: table not recognised (undecided)"))
    else:
        arms = arm_regions(v, info)
        for dv, jv in (("Null", "Null"), ("Boolean", "Bool"), ("String", "String")):
            rs = results_in(v, arms.get(dv, set()))
            ok = len(rs) == 1 and is_agg(rs[0][1], "serde_json::Value", jv) and (not rs[0][1][2] or payload_of(rs[0][1][2][0], dv))
            if not ok:
                fs.append(fnd("C13.TABLE", v, "From<Value> maps %s to %s" % (dv, fmt(rs[0][1]) if rs else "nothing")))
        for dv in ("Integer", "NegativeInteger"):
            rs = results_in(v, arms.get(dv, set()))
            ok = len(rs) == 1 and is_agg(rs[0][1], "serde_json::Value", "Number") and rs[0][1][2] and _number_of(v, rs[0][1][2][0], dv)
            if not ok:
                fs.append(fnd("C13.TABLE", v, "From<Value> does not map %s to Number::from(the same integer)" % dv))
        rs = results_in(v, arms.get("Float", set()))
        ok = len(rs) == 1 and term_mentions(rs[0][1], lambda t: t[0] == "call" and call_name(v, t) == "serde_json::Number::from_f64" and payload_of(t[3][0], "Float"))
        if not ok and rs:
            # `match Number::from_f64(f) { Some(n) => Number(n), None => Null }`
            nums = [r for r in rs if is_agg(r[1], "serde_json::Value", "Number")]
            others = [r for r in rs if not is_agg(r[1], "serde_json::Value", "Number") and not is_agg(r[1], "serde_json::Value", "Null")]
            ok = bool(nums) and not others
            for r in nums:
                for a in v.alts(r[1][2][0]):
                    a = canon(v, a)
                    if not (a[0] == "field" and a[2] == "Some" and a[1][0] == "call" and call_name(v, a[1]) == "serde_json::Number::from_f64" and payload_of(a[1][3][0], "Float")):
                        ok = False
        if not ok:
            fs.append(fnd("C13.TABLE", v, "From<Value> does not build floats with Number::from_f64(the same float)"))
        # whatever the formulation: what an array / an object converts to is built from that array / object (never a constant)
        for dv_ in ("Sequence", "Map"):
            for rb_, rt_ in results_in(v, arms.get(dv_, set())):
                if not term_mentions(rt_, lambda y, d_=dv_: payload_of(y, d_)):
                    fs.append(fnd("C13.REC", v, "a %s is converted to a value that is not built from it (%s)" % ("sequence" if dv_ == "Sequence" else "map", fmt(rt_)[:80]), rb_))
        # Sequence: Array(collect(map(From::from, map(into_value, into_iter(seq)))))
        rs = results_in(v, arms.get("Sequence", set()))
        ok = False
        if len(rs) == 1 and is_agg(rs[0][1], "serde_json::Value", "Array"):
            t = rs[0][1][2][0]
            chain = []
            fns = []
            while t[0] == "call":
                chain.append(call_name(v, t))
                if len(t[3]) > 1 and t[3][1][0] == "fnconst":
                    fns.append(t[3][1][1])
                if not t[3]:
                    break
                t = t[3][0]
            ok = chain == ["std::iter::Iterator::collect", "std::iter::Iterator::map", "std::iter::Iterator::map", "Sequence::into_iter"] \
                and payload_of(t, "Sequence") and len(fns) == 2 and "From" in fns[0] and fns[0].endswith("from") and fns[1].endswith("into_value")
        if not ok:
            f_ = fnd("C13.REC", v, "From<Value> does not rebuild arrays element by element in order (into_iter().map(into_value).map(from).collect())")
            # another formulation (a loop pushing into a vector, ...): only what is wrong for any formulation is a verdict
            arm = arms.get("Sequence", set())
            names_ = [v.callee(x).name for x in arm if v.callee(x) is not None and v.callee(x).fn is not None]
            if not any(n in ("rev", "skip", "take", "step_by", "filter", "filter_map", "dedup", "sort", "sort_by", "sort_by_key", "reverse", "truncate", "pop", "swap") for n in names_):
                f_.undecided = True
                f_.what = "From<Value>: the array arm is not the into_iter().map(into_value).map(from).collect() chain: order / completeness not read (undecided)"
            fs.append(f_)
        # Map: collect(map(closure(k, v) -> (k, from(into_value(v))), into_iter(map)))
        rs = results_in(v, arms.get("Map", set()))
        ok = False
        if len(rs) == 1 and rs[0][1][0] == "call" and call_name(v, rs[0][1]) == "std::iter::Iterator::collect":
            t = rs[0][1][3][0]
            if t[0] == "call" and call_name(v, t) == "std::iter::Iterator::map" and len(t[3]) == 2:
                src, clo = t[3]
                clo = strip_refs(clo)
                if src[0] == "call" and call_name(v, src) == "Map::into_iter" and payload_of(src[3][0], "Map") and clo[0] == "agg" and clo[1] == "closure":
                    cb = find(crate, lambda b: b.path == clo[3])
                    if cb is not None:
                        cv = View(cb)
                        for x in cv.reach:
                            for st in cv.blocks[x]["stmts"]:
                                if st["k"] == "assign" and st["place"]["l"] == 0:
                                    r = canon(cv, cv.origin_rv(st["rv"], x))
                                    if r[0] == "agg" and r[1] == "tuple" and len(r[2]) == 2:
                                        k0, v0 = r[2]
                                        okk = strip_refs(k0) == ("field", ("param", 2), None, "0")
                                        okv = v0[0] == "call" and call_name(cv, v0) == "std::convert::From::from" and v0[3][0][0] == "call" \
                                            and call_name(cv, v0[3][0]) == "IntoValue::into_value" and strip_refs(v0[3][0][3][0]) == ("field", ("param", 2), None, "1")
                                        ok = okk and okv
        if not ok:
            f_ = fnd("C13.REC", v, "From<Value> does not rebuild objects entry by entry as (same key, conversion of the same entry's value)")
            arm = arms.get("Map", set())
            names_ = [v.callee(x).name for x in arm if v.callee(x) is not None and v.callee(x).fn is not None]
            if not any(n in ("rev", "skip", "take", "step_by", "filter", "filter_map", "retain", "remove", "pop", "truncate") for n in names_):
                f_.undecided = True
                f_.what = "From<Value>: the object arm is not the into_iter().map(|(k, v)| ..).collect() chain: entry correspondence not read (undecided)"
            fs.append(f_)
    res.add("C13.TABLE/From", 9, fs)
    # ------------------------------------------------------------------ Deserr for serde_json::Value
    v = View(de)
    bs = BodySites(v)
    fs = []
    bb, info = entry_switch(v, "Value")
    if not info:
        fs.append(fnd("C13.TABLE", v, "Deserr for serde_json::Value does not dispatch on the variant: table not recognised (undecided)"))
    else:
        arms = arm_regions(v, info)

        def built_in(region):
            out = []
            for x in sorted(region):
                for st in v.blocks[x]["stmts"]:
                    if st["k"] == "assign" and st["rv"]["k"] == "agg" and st["rv"].get("path") == "serde_json::Value":
                        out.append((x, st["rv"]["variant"], [canon(v, v.origin(o)) for o in st["rv"]["ops"]]))
            return out
        for dv, jv in (("Null", "Null"), ("Boolean", "Bool"), ("String", "String")):
            bl = built_in(arms.get(dv, set()))
            ok = len(bl) == 1 and bl[0][1] == jv and (not bl[0][2] or payload_of(bl[0][2][0], dv))
            if not ok:
                fs.append(fnd("C13.TABLE", v, "Deserr for serde_json::Value maps %s to %s" % (dv, [(x[1]) for x in bl])))
        for dv in ("Integer", "NegativeInteger"):
            bl = built_in(arms.get(dv, set()))
            ok = len(bl) == 1 and bl[0][1] == "Number" and bl[0][2] and _number_of(v, bl[0][2][0], dv)
            if not ok:
                fs.append(fnd("C13.TABLE", v, "Deserr for serde_json::Value does not map %s to Number::from(the same integer)" % dv))
        bl = built_in(arms.get("Float", set()))
        ok = len(bl) == 1 and bl[0][1] == "Number" and bl[0][2] and bl[0][2][0][0] == "field" and bl[0][2][0][2] == "Some" and bl[0][2][0][1][0] == "call" \
            and call_name(v, bl[0][2][0][1]) == "serde_json::Number::from_f64" and payload_of(bl[0][2][0][1][3][0], "Float")
        if not ok:
            # other formulations: `Number::from_f64(f).map(JValue::Number).ok_or_else(..)`, a `match` on it, ...
            farm = arms.get("Float", set())
            f64s = [x for x in farm if v.callee(x) is not None and v.callee(x).fn is not None and v.callee(x).path == "serde_json::Number::from_f64"
                    and payload_of(canon(v, v.origin(v.blocks[x]["term"]["args"][0])), "Float")]
            nums_ok = True
            for bl_ in bl:
                if bl_[1] == "Number" and bl_[2]:
                    for a_ in v.alts(bl_[2][0]):
                        a_ = canon(v, a_)
                        if not (a_[0] == "field" and a_[2] == "Some" and a_[1][0] == "call" and a_[1][1] in f64s):
                            nums_ok = False
                elif bl_[1] not in ("Number", "Null"):
                    nums_ok = False
            via_map = any(v.callee(x) is not None and v.callee(x).fn is not None and v.callee(x).base() == "std::option::Option::map" and
                          term_mentions(canon(v, v.origin_call(x)), lambda y: y[0] == "call" and y[1] in f64s) and
                          term_mentions(canon(v, v.origin_call(x)), lambda y: y[0] == "fnconst" and y[1].endswith("Value::Number")) for x in farm)
            ok = bool(f64s) and nums_ok and (any(b_[1] == "Number" for b_ in bl) or via_map)
        if not ok:
            fs.append(fnd("C13.TABLE", v, "Deserr for serde_json::Value does not build floats as Number::from_f64(the same float)"))
        # TOTAL: the only report that is not a hand-over is on the from_f64 == None edge
        own = [s for s in bs.sites if s.kind == "error"]
        okt = len(own) == 1 and own[0].ek == "Unexpected" and own[0].bb in arms.get("Float", set())
        if not own:
            # the report may sit in a closure (`.ok_or_else(|| ..)`): every closure of this function that reports is created on the Float arm
            clo_sites = []
            for cb in crate.bodies:
                if cb.kind == "Closure" and cb.root == v.b.root:
                    cbs_ = BodySites(View(cb))
                    if any(s.kind == "error" for s in cbs_.sites):
                        clo_sites.append(cb.path)
            created = {}
            for x in v.reach:
                for st_ in v.blocks[x]["stmts"]:
                    if st_["k"] == "assign" and st_["rv"]["k"] == "agg" and st_["rv"].get("ak") == "closure":
                        created[st_["rv"].get("path")] = x
            if all(p_ in created and created[p_] in arms.get("Float", set()) for p_ in clo_sites):
                fs_total_ok = True
                okt = None     # decided: nothing outside the float arm can fail
        if okt:
            f64 = [x for x in arms["Float"] if v.callee(x) is not None and v.callee(x).fn is not None and v.callee(x).path == "serde_json::Number::from_f64"]
            if f64:
                k, sbb, i2, cur = follow_local_use(v, f64[0], v.blocks[f64[0]]["term"]["dest"]["l"])
                nt = v.variant_target(i2, "None") if k == "switch" else None
                okt = nt is not None and v.dominates(nt, own[0].bb)
            else:
                okt = False
        if okt is not None and not okt:
            fs.append(fnd("C13.TOTAL", v, "Deserr for serde_json::Value can fail on its own for something other than a non-finite float (%s)" % [(s.ek) for s in own]))
        # REC: containers (C06 rules on the same body)
        f6, o6 = coll.c_jvalue(v, bs)
        for f in f6:
            fs.append(Finding("C13.REC", f.body, f.what, f.at, f.detail))
    res.add("C13.TABLE/Deserr", 9, fs)
    res.samples = [{"into_value": {k: (x if isinstance(x, str) else [list(y) for y in x]) for k, x in tables.get("into_value", {}).items()}},
                   {"kind": {k: (x if isinstance(x, str) else [list(y) for y in x]) for k, x in tables.get("kind", {}).items()}}]
    res.analysed = {"functions": ["IntoValue::into_value", "IntoValue::kind", "Value::kind", "Deserr for serde_json::Value", "From<Value<V>> for serde_json::Value"]}
    res.trusted_base = ["rustc nightly MIR construction", "mirfacts extractor", "rules/p_c13.py, rules/coll.py",
                        "serde_json: Number::from(u64|i64) and as_u64/as_i64/as_f64 are lossless inverses on the representation they name; a parsed document holds only finite floats"]
    res.assumptions = ["decides agreement of the variant tables and payload identity; equality of documents follows only under the trusted serde_json::Number semantics; -0.0 and precision are not decided"]
    res.explanation = ("TABLE: kind(j) names the same variant as into_value(j) for all six JSON variants, including the ordered number ladder u64 -> Integer, i64 -> NegativeInteger, f64 -> Float with the payload just obtained; "
                       "both Value -> serde_json::Value maps compose with into_value to the identity on variant names and move payloads unchanged (integers through Number::from, floats through Number::from_f64). "
                       "REC: arrays and objects are rebuilt element by element / entry by entry in iteration order. TOTAL: the Deserr impl only fails by itself on from_f64 == None.")
    return res
