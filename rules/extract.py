"""Fact extraction: builds the mirfacts driver when needed and runs it (as RUSTC_WRAPPER
under `cargo +nightly check --offline`) over /repo's *current working tree* for one
feature configuration, and over the derive catalogue / controls crates.

Facts are cached by a content hash of everything that influences them (repo sources,
manifests, driver sources, corpus sources); the rule engine refuses facts whose stamp
does not match the hash computed at the start of the check.
"""
import fcntl
import hashlib
import json
import os
import shutil
import subprocess
import sys
import time

VERIF = os.path.dirname(os.path.dirname(os.path.abspath(__file__)))
REPO = os.environ.get("VERIF_REPO", "/repo")
CACHE = os.path.join(VERIF, ".cache")
DRIVER_DIR = os.path.join(VERIF, "driver")
DRIVER_BIN = os.path.join(CACHE, "driver-target", "debug", "mirfacts")

# feature configurations of the library ("cover what the build covers")
LIB_CONFIGS = {
    "default": [],
    # (`--no-default-features` does not build at the pinned commit: src/errors uses serde_json unconditionally)
    "jsononly": ["--no-default-features", "--features", "serde-json"],
    "actix": ["--features", "actix-web"],
    "axum": ["--features", "axum"],
}


def _env():
    e = dict(os.environ)
    e["CARGO_NET_OFFLINE"] = "true"
    e.pop("RUSTC_WRAPPER", None)
    e.pop("RUSTC_WORKSPACE_WRAPPER", None)
    e.pop("RUSTFLAGS", None)
    return e


def _sysroot():
    return subprocess.check_output(["rustc", "+nightly", "--print", "sysroot"], env=_env(), text=True).strip()


def _hash_files(paths, h):
    for p in sorted(paths):
        h.update(p.encode())
        try:
            with open(p, "rb") as f:
                h.update(f.read())
        except OSError:
            h.update(b"<missing>")


def _walk(root, exts=(".rs", ".toml", ".lock", ".json")):
    out = []
    for d, dirs, files in os.walk(root):
        dirs[:] = [x for x in dirs if x not in ("target", ".git", ".cache")]
        for f in files:
            if f.endswith(exts):
                out.append(os.path.join(d, f))
    return out


def repo_files():
    fs = []
    fs += _walk(os.path.join(REPO, "src"))
    fs += _walk(os.path.join(REPO, "derive"))
    fs += [os.path.join(REPO, "Cargo.toml"), os.path.join(REPO, "Cargo.lock")]
    return fs


def source_hash(extra_dirs=()):
    h = hashlib.sha256()
    h.update(REPO.encode())
    _hash_files(repo_files(), h)
    _hash_files(_walk(os.path.join(DRIVER_DIR, "src")) + [os.path.join(DRIVER_DIR, "Cargo.toml")], h)
    for d in extra_dirs:
        _hash_files(_walk(d), h)
    return h.hexdigest()[:20]


class Lock:
    def __init__(self, name):
        os.makedirs(CACHE, exist_ok=True)
        self.path = os.path.join(CACHE, name + ".lock")

    def __enter__(self):
        self.f = open(self.path, "w")
        fcntl.flock(self.f, fcntl.LOCK_EX)
        return self

    def __exit__(self, *a):
        fcntl.flock(self.f, fcntl.LOCK_UN)
        self.f.close()


def ensure_driver(log=sys.stderr):
    """(Re)build the driver when its sources are newer than the binary."""
    with Lock("driver"):
        h = hashlib.sha256()
        _hash_files(_walk(os.path.join(DRIVER_DIR, "src")) + [os.path.join(DRIVER_DIR, "Cargo.toml")], h)
        want = h.hexdigest()
        stamp = os.path.join(CACHE, "driver-target", "stamp")
        if os.path.exists(DRIVER_BIN) and os.path.exists(stamp) and open(stamp).read() == want:
            return DRIVER_BIN
        t0 = time.time()
        env = _env()
        env["CARGO_TARGET_DIR"] = os.path.join(CACHE, "driver-target")
        r = subprocess.run(
            ["cargo", "+nightly", "build", "--offline", "--manifest-path", os.path.join(DRIVER_DIR, "Cargo.toml")],
            env=env, stdout=subprocess.PIPE, stderr=subprocess.STDOUT, text=True)
        if r.returncode != 0:
            raise RuntimeError("driver build failed:\n" + r.stdout[-4000:])
        with open(stamp, "w") as f:
            f.write(want)
        print("[extract] driver built in %.1fs" % (time.time() - t0), file=log)
        return DRIVER_BIN


def _run_cargo(cwd, cargo_args, crates, facts_dir, target_dir, run_id, log):
    drv = ensure_driver(log)
    env = _env()
    env["LD_LIBRARY_PATH"] = _sysroot() + "/lib:" + env.get("LD_LIBRARY_PATH", "")
    env["RUSTFLAGS"] = "-Zmir-opt-level=0 -Awarnings"
    env["RUSTC_WRAPPER"] = drv
    env["VERIF_CRATES"] = ",".join(crates)
    env["VERIF_FACTS_DIR"] = facts_dir
    env["VERIF_RUN_ID"] = run_id
    env["CARGO_TARGET_DIR"] = target_dir
    cmd = ["cargo", "+nightly", "check", "--offline"] + cargo_args
    r = subprocess.run(cmd, cwd=cwd, env=env, stdout=subprocess.PIPE, stderr=subprocess.STDOUT, text=True)
    return r


def _clear_fingerprints(target_dir, names):
    fp = os.path.join(target_dir, "debug", ".fingerprint")
    if not os.path.isdir(fp):
        return
    for d in os.listdir(fp):
        for nm in names:
            if d.startswith(nm + "-"):
                shutil.rmtree(os.path.join(fp, d), ignore_errors=True)


def _repo_tag():
    return hashlib.sha256(REPO.encode()).hexdigest()[:8]


def ensure_lib_facts(config="default", log=sys.stderr):
    """Facts of deserr + deserr_internal for one library feature configuration.
    Returns (facts_dir, meta)."""
    assert config in LIB_CONFIGS, config
    tag = _repo_tag()
    with Lock("lib-%s-%s" % (config, tag)):
        want = source_hash()
        facts_dir = os.path.join(CACHE, "facts", tag, "lib-" + config)
        target_dir = os.path.join(CACHE, "target", tag, "lib-" + config)
        stamp_p = os.path.join(facts_dir, "stamp.json")
        if os.path.exists(stamp_p):
            st = json.load(open(stamp_p))
            if st.get("hash") == want and all(os.path.exists(os.path.join(facts_dir, f)) for f in st["files"]):
                st["cached"] = True
                return facts_dir, st
        shutil.rmtree(facts_dir, ignore_errors=True)
        os.makedirs(facts_dir, exist_ok=True)
        os.makedirs(target_dir, exist_ok=True)
        _clear_fingerprints(target_dir, ["deserr", "deserr-internal"])
        run_id = "%s-%d" % (want, int(time.time() * 1000))
        t0 = time.time()
        r = _run_cargo(REPO, ["-p", "deserr"] + LIB_CONFIGS[config], ["deserr", "deserr_internal"],
                       facts_dir, target_dir, run_id, log)
        if r.returncode != 0:
            raise BuildFailed("cargo check failed for config %s:\n%s" % (config, r.stdout[-6000:]))
        files = sorted(f for f in os.listdir(facts_dir) if f.endswith(".json") and f != "stamp.json")
        need = {"deserr.json", "deserr_internal.json"}
        if not need.issubset(files):
            raise RuntimeError("extractor produced no facts for %s (got %s)\n%s" % (need - set(files), files, r.stdout[-3000:]))
        for f in files:
            with open(os.path.join(facts_dir, f)) as fh:
                head = fh.read(4096)
            if ('"run_id":"%s"' % run_id) not in head:
                raise RuntimeError("stale facts file %s (run id mismatch)" % f)
        st = {"hash": want, "run_id": run_id, "files": files, "config": config,
              "wall_s": round(time.time() - t0, 2), "cached": False}
        json.dump(st, open(stamp_p, "w"))
        print("[extract] lib/%s extracted in %.1fs" % (config, time.time() - t0), file=log)
        return facts_dir, st


class BuildFailed(Exception):
    pass


class CorpusBuildFailed(Exception):
    """the repository builds, but a corpus crate of /verif no longer compiles against it"""

    def __init__(self, name, output):
        Exception.__init__(self, name)
        self.name = name
        self.output = output

    def first_errors(self, n=3):
        out = []
        lines = self.output.splitlines()
        for i, l in enumerate(lines):
            if l.startswith("error"):
                loc = lines[i + 1].strip() if i + 1 < len(lines) else ""
                out.append(l.strip() + " " + loc)
        return out[:n], len(out)


def ensure_corpus_facts(name, src_dir, crates, log=sys.stderr, extra_gen=None, extra_key=""):
    """Facts for a corpus crate in /verif (catalogue, controls) that path-depends on the repo.
    The crate is copied into the cache with the dependency path rewritten to REPO, so that
    the check follows VERIF_REPO. Returns (facts_dir, meta). Also yields facts for deserr and
    deserr_internal in the default configuration (they are compiled as dependencies)."""
    tag = _repo_tag()
    with Lock("corpus-%s-%s" % (name, tag)):
        want = source_hash([src_dir])
        if extra_key:
            want = hashlib.sha256((want + extra_key).encode()).hexdigest()[:20]
        facts_dir = os.path.join(CACHE, "facts", tag, "corpus-" + name)
        target_dir = os.path.join(CACHE, "target", tag, "corpus-" + name)
        work = os.path.join(CACHE, "work", tag, name)
        stamp_p = os.path.join(facts_dir, "stamp.json")
        if os.path.exists(stamp_p):
            st = json.load(open(stamp_p))
            if st.get("hash") == want and all(os.path.exists(os.path.join(facts_dir, f)) for f in st["files"]):
                st["cached"] = True
                return facts_dir, st
        shutil.rmtree(facts_dir, ignore_errors=True)
        os.makedirs(facts_dir, exist_ok=True)
        os.makedirs(target_dir, exist_ok=True)
        shutil.rmtree(work, ignore_errors=True)
        shutil.copytree(src_dir, work, ignore=shutil.ignore_patterns("target", "Cargo.lock"))
        ct = os.path.join(work, "Cargo.toml")
        txt = open(ct).read().replace("/repo", REPO)
        open(ct, "w").write(txt)
        shutil.copy(os.path.join(REPO, "Cargo.lock"), os.path.join(work, "Cargo.lock"))
        if extra_gen:
            extra_gen(work)
        fp_names = ["deserr", "deserr-internal"] + [c.replace("_", "-") for c in crates] + list(crates)
        _clear_fingerprints(target_dir, fp_names)
        run_id = "%s-%d" % (want, int(time.time() * 1000))
        t0 = time.time()
        r = _run_cargo(work, [], list(crates) + ["deserr", "deserr_internal"], facts_dir, target_dir, run_id, log)
        if r.returncode != 0:
            # is it the repository that does not build, or only the corpus against it?
            ensure_lib_facts("default", log=log)   # raises BuildFailed when the library itself is broken
            raise CorpusBuildFailed(name, r.stdout)
        files = sorted(f for f in os.listdir(facts_dir) if f.endswith(".json") and f != "stamp.json")
        need = {c + ".json" for c in crates} | {"deserr.json", "deserr_internal.json"}
        if not need.issubset(files):
            raise RuntimeError("extractor produced no facts for %s (got %s)\n%s" % (need - set(files), files, r.stdout[-3000:]))
        for f in files:
            with open(os.path.join(facts_dir, f)) as fh:
                head = fh.read(4096)
            if ('"run_id":"%s"' % run_id) not in head:
                raise RuntimeError("stale facts file %s (run id mismatch)" % f)
        st = {"hash": want, "run_id": run_id, "files": files, "config": "corpus-" + name,
              "wall_s": round(time.time() - t0, 2), "cached": False}
        json.dump(st, open(stamp_p, "w"))
        print("[extract] corpus/%s extracted in %.1fs" % (name, time.time() - t0), file=log)
        return facts_dir, st


if __name__ == "__main__":
    cfg = sys.argv[1] if len(sys.argv) > 1 else "default"
    d, st = ensure_lib_facts(cfg)
    print(d, st)
