#!/usr/bin/env python3
"""Writes seeded/<id>/meta.json from the agent's README and the confirmation run (confirm.json)."""
import json
import os
import re
import sys

VERIF = os.path.dirname(os.path.dirname(os.path.abspath(__file__)))


def main():
    base = os.path.join(VERIF, "seeded")
    rows = []
    for d in sorted(os.listdir(base)):
        p = os.path.join(base, d)
        if not os.path.isdir(p) or not os.path.exists(os.path.join(p, "patch.diff")):
            continue
        m = re.match(r"agent-(C\d\d)", d)
        prop = m.group(1) if m else None
        readme = open(os.path.join(p, "README.md")).read() if os.path.exists(os.path.join(p, "README.md")) else ""
        conf = {}
        if os.path.exists(os.path.join(p, "confirm.json")):
            try:
                conf = json.load(open(os.path.join(p, "confirm.json")))
            except ValueError:
                conf = {}
        files = sorted(set(re.findall(r"^\+\+\+ b/(\S+)", open(os.path.join(p, "patch.diff")).read(), re.M)))
        caught = {k: sorted(set(x.split(" | ")[0] for x in v["keys"])) for k, v in conf.get("caught_by", {}).items()}
        meta = {
            "id": d,
            "breaks_property": prop,
            "origin": "independent sub-agent given only the property text and a private worktree",
            "files_changed": files,
            "needs_to_manifest": readme.strip()[:1800],
            "what_was_run": [
                "rules/seedcheck.py seeded/%s  (scratch copy of /repo under $TMPDIR, removed afterwards)" % d,
                "cargo test --offline --test seed_demo  without the change: %s" % conf.get("demo_without_change"),
                "cargo test --offline --test seed_demo  with the change: %s" % conf.get("demo_with_change"),
                "cargo test --workspace --offline --no-fail-fast  with the change: %s" % conf.get("suite_with_change"),
                "bin/check C01..C20 (quick) with VERIF_REPO=<scratch copy>",
            ],
            "confirmed": conf.get("demo_without_change") == "pass" and str(conf.get("demo_with_change", "")).startswith("fail") and conf.get("suite_with_change") == "pass",
            "caught_by": caught,
            "caught_by_owning_check": prop in caught,
        }
        json.dump(meta, open(os.path.join(p, "meta.json"), "w"), indent=1)
        rows.append(meta)
    print("%-12s %-5s %-9s %s" % ("seed", "prop", "confirmed", "caught by"))
    for r in rows:
        print("%-12s %-5s %-9s %s" % (r["id"], r["breaks_property"], r["confirmed"], r["caught_by"]))


if __name__ == "__main__":
    main()
