// Demonstration of D1 (maps return Ok although errors were reported) and D2 ([T; N] reports
// every element at index 0). Fails on the pinned tree, passes with the two `fix:` commits.
mod acc_error;
use acc_error::Acc;
use serde_json::json;
use std::collections::{BTreeMap, HashMap};

fn main() {
    // D1
    let r = deserr::deserialize::<BTreeMap<String, u8>, _, Acc>(json!({"a": "x", "b": 1}));
    assert!(r.is_err(), "D1: BTreeMap returned Ok({:?}) although a report was made", r.ok());
    let r = deserr::deserialize::<HashMap<u8, u8>, _, Acc>(json!({"notanumber": 1}));
    assert!(r.is_err(), "D1: HashMap returned Ok although the key could not be parsed");
    // D2
    let r = deserr::deserialize::<[u8; 3], _, Acc>(json!([1, "x", "y"]));
    let e = r.unwrap_err();
    assert_eq!(e.0, vec!["kind@[Index(1)]".to_string(), "kind@[Index(2)]".to_string()], "D2: wrong indices");
    println!("ok");
}
