// A keep-going error type used by the demonstrations of the repaired defects (D1, D2).
use deserr::{DeserializeError, ErrorKind, IntoValue, MergeWithError, ValuePointerRef};
use std::ops::ControlFlow;

#[derive(Debug, Default)]
pub struct Acc(pub Vec<String>);

impl DeserializeError for Acc {
    fn error<V: IntoValue>(self_: Option<Self>, error: ErrorKind<V>, location: ValuePointerRef) -> ControlFlow<Self, Self> {
        let mut v = self_.unwrap_or_default();
        let what = match error {
            ErrorKind::IncorrectValueKind { .. } => "kind",
            ErrorKind::MissingField { .. } => "missing",
            ErrorKind::UnknownKey { .. } => "unknown-key",
            ErrorKind::UnknownValue { .. } => "unknown-value",
            ErrorKind::BadSequenceLen { .. } => "len",
            ErrorKind::Unexpected { .. } => "unexpected",
        };
        v.0.push(format!("{what}@{:?}", location.to_owned().path));
        ControlFlow::Continue(v)
    }
}
impl MergeWithError<Acc> for Acc {
    fn merge(self_: Option<Self>, mut other: Acc, _l: ValuePointerRef) -> ControlFlow<Self, Self> {
        let mut v = self_.unwrap_or_default();
        v.0.append(&mut other.0);
        ControlFlow::Continue(v)
    }
}
