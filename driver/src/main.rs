// mirfacts: a rustc_private driver that exports `mir_built` of selected crates
// as JSON facts for the rule engine in /verif/rules. It behaves as plain rustc
// for every crate that is not named in VERIF_CRATES.
#![feature(rustc_private)]
#![allow(clippy::all)]

extern crate rustc_abi;
extern crate rustc_data_structures;
extern crate rustc_driver;
extern crate rustc_hir;
extern crate rustc_interface;
extern crate rustc_middle;
extern crate rustc_span;

mod json;

use json::J;
use rustc_driver::Callbacks;
use rustc_hir::def::DefKind;
use rustc_hir::def_id::DefId;
use rustc_interface::interface::Compiler;
use rustc_middle::mir::*;
use rustc_middle::ty::{self, GenericArgKind, Ty, TyCtxt};
use rustc_span::Span;
use std::collections::HashMap;

struct Cb {
    crates: Vec<String>,
    out_dir: String,
    run_id: String,
    features: Vec<String>,
    cfgs: Vec<String>,
}

struct Cx<'tcx> {
    tcx: TyCtxt<'tcx>,
    types: Vec<J>,
    type_ix: HashMap<Ty<'tcx>, usize>,
    adts: Vec<(String, J)>,
    adt_seen: HashMap<DefId, ()>,
}

fn obj(v: Vec<(&str, J)>) -> J {
    J::Obj(v.into_iter().map(|(k, v)| (k.to_string(), v)).collect())
}
fn s<T: Into<String>>(x: T) -> J {
    J::Str(x.into())
}
fn n<T: TryInto<i128>>(x: T) -> J {
    match x.try_into() {
        Ok(v) => J::Num(v),
        Err(_) => J::Null,
    }
}

impl<'tcx> Cx<'tcx> {
    fn span_str(&self, sp: Span) -> String {
        self.tcx.sess.source_map().span_to_diagnostic_string(sp)
    }

    fn macro_chain(&self, sp: Span) -> J {
        let mut v = vec![];
        let mut cur = sp;
        let mut guard = 0;
        while cur.from_expansion() && guard < 12 {
            let data = cur.ctxt().outer_expn_data();
            v.push(s(format!("{}", data.kind.descr())));
            cur = data.call_site;
            guard += 1;
        }
        J::Arr(v)
    }

    // the span of the outermost macro call site (i.e. user code position)
    fn root_span(&self, sp: Span) -> Span {
        let mut cur = sp;
        let mut guard = 0;
        while cur.from_expansion() && guard < 20 {
            cur = cur.ctxt().outer_expn_data().call_site;
            guard += 1;
        }
        cur
    }

    fn path(&self, did: DefId) -> String {
        self.tcx.def_path_str(did)
    }

    fn record_adt(&mut self, def: ty::AdtDef<'tcx>) {
        if self.adt_seen.contains_key(&def.did()) {
            return;
        }
        self.adt_seen.insert(def.did(), ());
        let tcx = self.tcx;
        let mut variants = vec![];
        if def.is_enum() {
            for (vidx, discr) in def.discriminants(tcx) {
                let v = def.variant(vidx);
                variants.push(obj(vec![
                    ("name", s(v.name.to_string())),
                    ("idx", n(vidx.as_usize())),
                    ("discr", n(discr.val as i128)),
                    (
                        "fields",
                        J::Arr(v.fields.iter().map(|f| s(f.name.to_string())).collect()),
                    ),
                ]));
            }
        } else {
            for (i, v) in def.variants().iter().enumerate() {
                variants.push(obj(vec![
                    ("name", s(v.name.to_string())),
                    ("idx", n(i)),
                    ("discr", n(i)),
                    (
                        "fields",
                        J::Arr(v.fields.iter().map(|f| s(f.name.to_string())).collect()),
                    ),
                ]));
            }
        }
        let kind = if def.is_enum() {
            "enum"
        } else if def.is_union() {
            "union"
        } else {
            "struct"
        };
        let p = self.path(def.did());
        self.adts.push((
            p,
            obj(vec![
                ("kind", s(kind)),
                ("krate", s(tcx.crate_name(def.did().krate).to_string())),
                ("variants", J::Arr(variants)),
            ]),
        ));
    }

    fn gargs(&mut self, args: &[ty::GenericArg<'tcx>]) -> J {
        let mut v = vec![];
        for a in args {
            match a.kind() {
                GenericArgKind::Type(t) => v.push(n(self.ty(t))),
                GenericArgKind::Const(c) => v.push(obj(vec![("const", s(format!("{}", c)))])),
                GenericArgKind::Lifetime(_) => {}
            }
        }
        J::Arr(v)
    }

    fn ty(&mut self, t: Ty<'tcx>) -> usize {
        if let Some(i) = self.type_ix.get(&t) {
            return *i;
        }
        // reserve the slot first (recursive types)
        let ix = self.types.len();
        self.types.push(J::Null);
        self.type_ix.insert(t, ix);
        let mut o: Vec<(&str, J)> = vec![("s", s(format!("{}", t)))];
        match t.kind() {
            ty::Bool | ty::Char | ty::Int(_) | ty::Uint(_) | ty::Float(_) | ty::Str | ty::Never => {
                o.push(("k", s("prim")));
            }
            ty::Adt(def, args) => {
                self.record_adt(*def);
                o.push(("k", s("adt")));
                o.push(("path", s(self.path(def.did()))));
                let a = self.gargs(args.as_slice());
                o.push(("args", a));
            }
            ty::Ref(_, inner, m) => {
                o.push(("k", s("ref")));
                o.push(("mut", J::Bool(m.is_mut())));
                let i = self.ty(*inner);
                o.push(("t", n(i)));
            }
            ty::RawPtr(inner, m) => {
                o.push(("k", s("ptr")));
                o.push(("mut", J::Bool(m.is_mut())));
                let i = self.ty(*inner);
                o.push(("t", n(i)));
            }
            ty::Param(p) => {
                o.push(("k", s("param")));
                o.push(("n", s(p.name.to_string())));
            }
            ty::Tuple(ts) => {
                o.push(("k", s("tuple")));
                let v: Vec<J> = ts.iter().map(|x| n(self.ty(x))).collect();
                o.push(("ts", J::Arr(v)));
            }
            ty::Array(inner, len) => {
                o.push(("k", s("array")));
                let i = self.ty(*inner);
                o.push(("t", n(i)));
                o.push(("len", s(format!("{}", len))));
            }
            ty::Slice(inner) => {
                o.push(("k", s("slice")));
                let i = self.ty(*inner);
                o.push(("t", n(i)));
            }
            ty::FnDef(did, args) => {
                o.push(("k", s("fndef")));
                o.push(("path", s(self.path(*did))));
                let a = self.gargs(args.as_slice());
                o.push(("args", a));
            }
            ty::Closure(did, args) => {
                o.push(("k", s("closure")));
                o.push(("path", s(self.path(*did))));
                let ups: Vec<J> = args
                    .as_closure()
                    .upvar_tys()
                    .iter()
                    .map(|x| n(self.ty(x)))
                    .collect();
                o.push(("upvars", J::Arr(ups)));
            }
            ty::Coroutine(did, _) => {
                o.push(("k", s("coroutine")));
                o.push(("path", s(self.path(*did))));
            }
            ty::CoroutineClosure(did, _) => {
                o.push(("k", s("coroutine_closure")));
                o.push(("path", s(self.path(*did))));
            }
            ty::Alias(at) => {
                o.push(("k", s("alias")));
                o.push(("path", s(self.path(at.kind.def_id()))));
                let a = self.gargs(at.args.as_slice());
                o.push(("args", a));
            }
            ty::FnPtr(..) => {
                o.push(("k", s("fnptr")));
            }
            ty::Dynamic(..) => {
                o.push(("k", s("dyn")));
            }
            _ => {
                o.push(("k", s("other")));
            }
        }
        self.types[ix] = obj(o);
        ix
    }

    fn place(&mut self, body: &Body<'tcx>, p: &Place<'tcx>) -> J {
        let tcx = self.tcx;
        let mut pty = rustc_middle::mir::PlaceTy::from_ty(body.local_decls[p.local].ty);
        let mut projs = vec![];
        for elem in p.projection.iter() {
            let j = match elem {
                ProjectionElem::Deref => obj(vec![("k", s("deref"))]),
                ProjectionElem::Field(f, fty) => {
                    let mut name = format!("{}", f.as_usize());
                    let mut variant = J::Null;
                    match pty.ty.kind() {
                        ty::Adt(def, _) => {
                            let vidx = pty.variant_index.unwrap_or(rustc_abi::FIRST_VARIANT);
                            if !def.is_union() || true {
                                let v = def.variant(vidx);
                                if let Some(fd) = v.fields.get(f) {
                                    name = fd.name.to_string();
                                }
                                variant = s(v.name.to_string());
                            }
                        }
                        ty::Closure(did, _) | ty::Coroutine(did, _) => {
                            if let Some(local) = did.as_local() {
                                let caps = tcx.closure_captures(local);
                                if let Some(c) = caps.get(f.as_usize()) {
                                    name = c.to_symbol().to_string();
                                }
                            }
                        }
                        _ => {}
                    }
                    let t = self.ty(fty);
                    obj(vec![
                        ("k", s("field")),
                        ("i", n(f.as_usize())),
                        ("name", s(name)),
                        ("variant", variant),
                        ("ty", n(t)),
                    ])
                }
                ProjectionElem::Downcast(name, vidx) => obj(vec![
                    ("k", s("downcast")),
                    (
                        "variant",
                        match name {
                            Some(nm) => s(nm.to_string()),
                            None => J::Null,
                        },
                    ),
                    ("idx", n(vidx.as_usize())),
                ]),
                ProjectionElem::Index(l) => obj(vec![("k", s("index")), ("l", n(l.as_usize()))]),
                ProjectionElem::ConstantIndex {
                    offset,
                    min_length,
                    from_end,
                } => obj(vec![
                    ("k", s("constindex")),
                    ("offset", n(offset)),
                    ("min_length", n(min_length)),
                    ("from_end", J::Bool(from_end)),
                ]),
                ProjectionElem::Subslice { from, to, from_end } => obj(vec![
                    ("k", s("subslice")),
                    ("from", n(from)),
                    ("to", n(to)),
                    ("from_end", J::Bool(from_end)),
                ]),
                ProjectionElem::OpaqueCast(_) => obj(vec![("k", s("opaquecast"))]),
                ProjectionElem::UnwrapUnsafeBinder(_) => obj(vec![("k", s("unwrapbinder"))]),
            };
            projs.push(j);
            pty = pty.projection_ty(tcx, elem);
        }
        let t = self.ty(pty.ty);
        obj(vec![
            ("l", n(p.local.as_usize())),
            ("p", J::Arr(projs)),
            ("ty", n(t)),
        ])
    }

    fn fn_info(&mut self, owner: DefId, did: DefId, args: ty::GenericArgsRef<'tcx>) -> Vec<(&'static str, J)> {
        let tcx = self.tcx;
        let mut o: Vec<(&'static str, J)> = vec![];
        o.push(("path", s(self.path(did))));
        o.push(("full", s(tcx.def_path_str_with_args(did, args))));
        o.push(("krate", s(tcx.crate_name(did.krate).to_string())));
        let ga = self.gargs(args.as_slice());
        o.push(("gargs", ga));
        if let Some(ai) = tcx.opt_associated_item(did) {
            o.push(("name", s(ai.name().to_string())));
            let parent = tcx.parent(did);
            match tcx.def_kind(parent) {
                DefKind::Trait => {
                    o.push(("trait", s(self.path(parent))));
                    if let Some(st) = args.types().next() {
                        let i = self.ty(st);
                        o.push(("self_ty", n(i)));
                    }
                }
                DefKind::Impl { of_trait } => {
                    let st = tcx.type_of(parent).instantiate(tcx, args).skip_norm_wip();
                    let i = self.ty(st);
                    o.push(("self_ty", n(i)));
                    if of_trait {
                        let tr = tcx.impl_trait_ref(parent).instantiate_identity().skip_norm_wip();
                        o.push(("impl_trait", s(self.path(tr.def_id))));
                        o.push(("impl_trait_full", s(format!("{}", tr))));
                    }
                }
                _ => {}
            }
        } else {
            o.push(("name", s(tcx.item_name(did).to_string())));
        }
        // try to resolve trait method calls to a concrete instance
        let typing_env = ty::TypingEnv::post_analysis(tcx, owner);
        if let Ok(Some(inst)) = ty::Instance::try_resolve(tcx, typing_env, did, args) {
            let rd = inst.def_id();
            if rd != did {
                o.push(("resolved", s(self.path(rd))));
                o.push(("resolved_krate", s(tcx.crate_name(rd.krate).to_string())));
            }
        }
        o
    }

    fn constant(&mut self, owner: DefId, c: &ConstOperand<'tcx>) -> J {
        let tcx = self.tcx;
        let cty = c.const_.ty();
        let tix = self.ty(cty);
        let mut o: Vec<(&str, J)> = vec![("k", s("const")), ("ty", n(tix)), ("s", s(format!("{}", c.const_)))];
        if let ty::FnDef(did, args) = cty.kind() {
            let fi = self.fn_info(owner, *did, args);
            o.push(("fn", obj(fi)));
            return obj(o);
        }
        let typing_env = ty::TypingEnv::post_analysis(tcx, owner);
        // evaluate when possible (associated consts such as <u8>::MAX)
        let val = c.const_.eval(tcx, typing_env, c.span);
        if let Ok(v) = val {
            match v {
                ConstValue::Scalar(rustc_middle::mir::interpret::Scalar::Int(i)) => {
                    let size = i.size();
                    let bits = i.to_bits(size);
                    let signed = matches!(cty.kind(), ty::Int(_));
                    let num: i128 = if signed {
                        i.to_int(size)
                    } else if bits <= i128::MAX as u128 {
                        bits as i128
                    } else {
                        -1
                    };
                    if !signed && bits > i128::MAX as u128 {
                        o.push(("big", s(format!("{}", bits))));
                    } else {
                        o.push(("int", J::Num(num)));
                    }
                    if cty.is_bool() {
                        o.push(("bool", J::Bool(bits != 0)));
                    }
                    if cty.is_char() {
                        if let Some(ch) = char::from_u32(bits as u32) {
                            o.push(("char", s(ch.to_string())));
                        }
                    }
                }
                ConstValue::Scalar(rustc_middle::mir::interpret::Scalar::Ptr(p, _)) => {
                    let alloc_id = p.provenance.alloc_id();
                    match tcx.try_get_global_alloc(alloc_id) {
                        Some(rustc_middle::mir::interpret::GlobalAlloc::Static(did)) => {
                            o.push(("static", s(self.path(did))));
                        }
                        Some(rustc_middle::mir::interpret::GlobalAlloc::Memory(_)) => {
                            o.push(("alloc", s("memory")));
                        }
                        _ => {}
                    }
                }
                ConstValue::ZeroSized => {
                    o.push(("zst", J::Bool(true)));
                }
                ConstValue::Slice { .. } => {
                    if let Some(bytes) = v.try_get_slice_bytes_for_diagnostics(tcx) {
                        if let Ok(st) = std::str::from_utf8(bytes) {
                            o.push(("str", s(st)));
                        }
                    }
                }
                _ => {}
            }
        } else {
            o.push(("uneval", J::Bool(true)));
        }
        obj(o)
    }

    fn operand(&mut self, owner: DefId, body: &Body<'tcx>, op: &Operand<'tcx>) -> J {
        match op {
            Operand::Copy(p) => {
                let pj = self.place(body, p);
                obj(vec![("k", s("copy")), ("place", pj)])
            }
            Operand::Move(p) => {
                let pj = self.place(body, p);
                obj(vec![("k", s("move")), ("place", pj)])
            }
            Operand::Constant(c) => self.constant(owner, c),
            #[allow(unreachable_patterns)]
            _ => obj(vec![("k", s("otherop")), ("s", s(format!("{:?}", op)))]),
        }
    }

    fn rvalue(&mut self, owner: DefId, body: &Body<'tcx>, rv: &Rvalue<'tcx>) -> J {
        let tcx = self.tcx;
        match rv {
            Rvalue::Use(op, ..) => {
                let o = self.operand(owner, body, op);
                obj(vec![("k", s("use")), ("op", o)])
            }
            Rvalue::Repeat(op, c) => {
                let o = self.operand(owner, body, op);
                obj(vec![("k", s("repeat")), ("op", o), ("count", s(format!("{}", c)))])
            }
            Rvalue::Ref(_, bk, p) => {
                let pj = self.place(body, p);
                let kind = match bk {
                    BorrowKind::Shared => "shared",
                    BorrowKind::Fake(_) => "fake",
                    BorrowKind::Mut { .. } => "mut",
                };
                obj(vec![("k", s("ref")), ("bk", s(kind)), ("place", pj)])
            }
            Rvalue::RawPtr(_, p) => {
                let pj = self.place(body, p);
                obj(vec![("k", s("rawptr")), ("place", pj)])
            }
            Rvalue::Cast(ck, op, t) => {
                let o = self.operand(owner, body, op);
                let from = self.ty(op.ty(&body.local_decls, tcx));
                let to = self.ty(*t);
                obj(vec![
                    ("k", s("cast")),
                    ("ck", s(format!("{:?}", ck))),
                    ("op", o),
                    ("from", n(from)),
                    ("to", n(to)),
                ])
            }
            Rvalue::BinaryOp(bop, ab) => {
                let a = self.operand(owner, body, &ab.0);
                let b = self.operand(owner, body, &ab.1);
                obj(vec![("k", s("binop")), ("op", s(format!("{:?}", bop))), ("a", a), ("b", b)])
            }
            Rvalue::UnaryOp(uop, a) => {
                let a = self.operand(owner, body, a);
                obj(vec![("k", s("unop")), ("op", s(format!("{:?}", uop))), ("a", a)])
            }
            Rvalue::Discriminant(p) => {
                let pj = self.place(body, p);
                obj(vec![("k", s("discr")), ("place", pj)])
            }
            Rvalue::Aggregate(kind, ops) => {
                let mut o: Vec<(&str, J)> = vec![("k", s("agg"))];
                match &**kind {
                    AggregateKind::Array(t) => {
                        o.push(("ak", s("array")));
                        let i = self.ty(*t);
                        o.push(("elem", n(i)));
                    }
                    AggregateKind::Tuple => o.push(("ak", s("tuple"))),
                    AggregateKind::Adt(did, vidx, args, _, active) => {
                        let def = tcx.adt_def(*did);
                        self.record_adt(def);
                        o.push(("ak", s("adt")));
                        o.push(("path", s(self.path(*did))));
                        let v = def.variant(*vidx);
                        o.push(("variant", s(v.name.to_string())));
                        o.push(("vidx", n(vidx.as_usize())));
                        o.push((
                            "fields",
                            J::Arr(v.fields.iter().map(|f| s(f.name.to_string())).collect()),
                        ));
                        let ga = self.gargs(args.as_slice());
                        o.push(("gargs", ga));
                        if let Some(a) = active {
                            o.push(("active", n(a.as_usize())));
                        }
                    }
                    AggregateKind::Closure(did, _) => {
                        o.push(("ak", s("closure")));
                        o.push(("path", s(self.path(*did))));
                        if let Some(local) = did.as_local() {
                            let caps = tcx.closure_captures(local);
                            o.push((
                                "upvars",
                                J::Arr(caps.iter().map(|c| s(c.to_symbol().to_string())).collect()),
                            ));
                        }
                    }
                    AggregateKind::Coroutine(did, _) => {
                        o.push(("ak", s("coroutine")));
                        o.push(("path", s(self.path(*did))));
                        if let Some(local) = did.as_local() {
                            let caps = tcx.closure_captures(local);
                            o.push((
                                "upvars",
                                J::Arr(caps.iter().map(|c| s(c.to_symbol().to_string())).collect()),
                            ));
                        }
                    }
                    AggregateKind::CoroutineClosure(did, _) => {
                        o.push(("ak", s("coroutine_closure")));
                        o.push(("path", s(self.path(*did))));
                    }
                    AggregateKind::RawPtr(..) => o.push(("ak", s("rawptr"))),
                }
                let v: Vec<J> = ops.iter().map(|x| self.operand(owner, body, x)).collect();
                o.push(("ops", J::Arr(v)));
                obj(o)
            }
            Rvalue::CopyForDeref(p) => {
                let pj = self.place(body, p);
                obj(vec![("k", s("use")), ("op", obj(vec![("k", s("copy")), ("place", pj)]))])
            }
            _ => obj(vec![("k", s("other")), ("s", s(format!("{:?}", rv)))]),
        }
    }

    fn body(&mut self, did: rustc_hir::def_id::LocalDefId, cloned: &Body<'tcx>) -> Option<J> {
        let tcx = self.tcx;
        let def_id = did.to_def_id();
        let kind = tcx.def_kind(def_id);
        // (the body was cloned out of `mir_built` before anything else was asked of the compiler: exporting types can
        // trigger borrowck of another function - e.g. to infer an `impl Trait` return type - which steals that function's
        // `mir_built`)
        let body: &Body<'tcx> = cloned;
        let mut o: Vec<(&str, J)> = vec![];
        o.push(("path", s(self.path(def_id))));
        o.push(("kind", s(format!("{:?}", kind))));
        let sp = tcx.def_span(def_id);
        o.push(("span", s(self.span_str(sp))));
        o.push(("root_span", s(self.span_str(self.root_span(sp)))));
        o.push(("from_expansion", J::Bool(sp.from_expansion())));
        o.push(("macros", self.macro_chain(sp)));
        o.push(("phase", s(format!("{:?}", body.phase))));
        let root = tcx.typeck_root_def_id(def_id);
        if root != def_id {
            o.push(("parent", s(self.path(tcx.parent(def_id)))));
            o.push(("root", s(self.path(root))));
        }
        // impl info for the typeck root
        if matches!(tcx.def_kind(root), DefKind::AssocFn) {
            let parent = tcx.parent(root);
            o.push(("name", s(tcx.item_name(root).to_string())));
            if let DefKind::Impl { of_trait } = tcx.def_kind(parent) {
                let st = tcx.type_of(parent).instantiate_identity().skip_norm_wip();
                let i = self.ty(st);
                o.push(("impl_self", n(i)));
                o.push(("impl_path", s(self.path(parent))));
                if of_trait {
                    let tr = tcx.impl_trait_ref(parent).instantiate_identity().skip_norm_wip();
                    o.push(("impl_trait", s(self.path(tr.def_id))));
                    let ga = self.gargs(tr.args.as_slice());
                    o.push(("impl_trait_args", ga));
                    o.push(("impl_trait_full", s(format!("{}", tr))));
                }
            } else if let DefKind::Trait = tcx.def_kind(parent) {
                o.push(("in_trait", s(self.path(parent))));
            }
        } else if matches!(tcx.def_kind(root), DefKind::Fn) {
            o.push(("name", s(tcx.item_name(root).to_string())));
        }
        // generics of the root
        {
            let g = tcx.generics_of(def_id);
            let mut names = vec![];
            let mut cur = Some(g);
            while let Some(gg) = cur {
                for p in gg.own_params.iter().rev() {
                    names.push(s(p.name.to_string()));
                }
                cur = gg.parent.map(|p| tcx.generics_of(p));
            }
            names.reverse();
            o.push(("generics", J::Arr(names)));
        }
        if matches!(kind, DefKind::Closure) {
            let caps = tcx.closure_captures(did);
            o.push((
                "upvars",
                J::Arr(caps.iter().map(|c| s(c.to_symbol().to_string())).collect()),
            ));
            let by_ref: Vec<J> = caps
                .iter()
                .map(|c| J::Bool(c.is_by_ref()))
                .collect();
            o.push(("upvars_by_ref", J::Arr(by_ref)));
        }
        o.push(("arg_count", n(body.arg_count)));
        // locals
        let mut names: HashMap<usize, String> = HashMap::new();
        let mut dbg = vec![];
        for vdi in body.var_debug_info.iter() {
            if let VarDebugInfoContents::Place(p) = &vdi.value {
                if p.projection.is_empty() {
                    names.entry(p.local.as_usize()).or_insert(vdi.name.to_string());
                }
                let pj = self.place(body, p);
                dbg.push(obj(vec![("name", s(vdi.name.to_string())), ("place", pj)]));
            }
        }
        o.push(("debug", J::Arr(dbg)));
        let mut locals = vec![];
        for (l, decl) in body.local_decls.iter_enumerated() {
            let t = self.ty(decl.ty);
            locals.push(obj(vec![
                ("ty", n(t)),
                (
                    "name",
                    match names.get(&l.as_usize()) {
                        Some(nm) => s(nm.clone()),
                        None => J::Null,
                    },
                ),
                ("mut", J::Bool(decl.mutability.is_mut())),
                ("user", J::Bool(decl.is_user_variable())),
            ]));
        }
        o.push(("locals", J::Arr(locals)));
        // blocks
        let mut blocks = vec![];
        for (_bb, data) in body.basic_blocks.iter_enumerated() {
            let mut stmts = vec![];
            for st in data.statements.iter() {
                let line = self.span_str(self.root_span(st.source_info.span));
                match &st.kind {
                    StatementKind::Assign(b) => {
                        let (pl, rv) = &**b;
                        let pj = self.place(body, pl);
                        let rj = self.rvalue(def_id, body, rv);
                        stmts.push(obj(vec![
                            ("k", s("assign")),
                            ("place", pj),
                            ("rv", rj),
                            ("at", s(line)),
                        ]));
                    }
                    StatementKind::SetDiscriminant { place, variant_index } => {
                        let pj = self.place(body, place);
                        stmts.push(obj(vec![
                            ("k", s("setdiscr")),
                            ("place", pj),
                            ("vidx", n(variant_index.as_usize())),
                        ]));
                    }
                    StatementKind::StorageDead(l) => {
                        stmts.push(obj(vec![("k", s("dead")), ("l", n(l.as_usize()))]));
                    }
                    StatementKind::StorageLive(l) => {
                        stmts.push(obj(vec![("k", s("live")), ("l", n(l.as_usize()))]));
                    }
                    StatementKind::Intrinsic(i) => {
                        stmts.push(obj(vec![("k", s("intrinsic")), ("s", s(format!("{:?}", i)))]));
                    }
                    _ => {}
                }
            }
            let term = data.terminator();
            let tspan = term.source_info.span;
            let mut t: Vec<(&str, J)> = vec![];
            t.push(("at", s(self.span_str(self.root_span(tspan)))));
            t.push(("exp", J::Bool(tspan.from_expansion())));
            if tspan.from_expansion() {
                t.push(("macros", self.macro_chain(tspan)));
            }
            match &term.kind {
                TerminatorKind::Goto { target } => {
                    t.push(("k", s("goto")));
                    t.push(("target", n(target.as_usize())));
                }
                TerminatorKind::SwitchInt { discr, targets } => {
                    t.push(("k", s("switch")));
                    let d = self.operand(def_id, body, discr);
                    t.push(("discr", d));
                    let dt = self.ty(discr.ty(&body.local_decls, tcx));
                    t.push(("discr_ty", n(dt)));
                    let mut v = vec![];
                    for (val, bb) in targets.iter() {
                        v.push(J::Arr(vec![n(val as i128), n(bb.as_usize())]));
                    }
                    t.push(("targets", J::Arr(v)));
                    t.push(("otherwise", n(targets.otherwise().as_usize())));
                }
                TerminatorKind::Return => t.push(("k", s("return"))),
                TerminatorKind::Unreachable => t.push(("k", s("unreachable"))),
                TerminatorKind::UnwindResume => t.push(("k", s("resume"))),
                TerminatorKind::UnwindTerminate(_) => t.push(("k", s("terminate"))),
                TerminatorKind::Drop { place, target, .. } => {
                    t.push(("k", s("drop")));
                    let pj = self.place(body, place);
                    t.push(("place", pj));
                    t.push(("target", n(target.as_usize())));
                }
                TerminatorKind::Call {
                    func,
                    args,
                    destination,
                    target,
                    ..
                } => {
                    t.push(("k", s("call")));
                    let f = self.operand(def_id, body, func);
                    t.push(("func", f));
                    let a: Vec<J> = args.iter().map(|x| self.operand(def_id, body, &x.node)).collect();
                    t.push(("args", J::Arr(a)));
                    let d = self.place(body, destination);
                    t.push(("dest", d));
                    t.push((
                        "target",
                        match target {
                            Some(b) => n(b.as_usize()),
                            None => J::Null,
                        },
                    ));
                }
                TerminatorKind::TailCall { func, args, .. } => {
                    t.push(("k", s("tailcall")));
                    let f = self.operand(def_id, body, func);
                    t.push(("func", f));
                    let a: Vec<J> = args.iter().map(|x| self.operand(def_id, body, &x.node)).collect();
                    t.push(("args", J::Arr(a)));
                }
                TerminatorKind::Assert {
                    cond,
                    expected,
                    msg,
                    target,
                    ..
                } => {
                    t.push(("k", s("assert")));
                    let c = self.operand(def_id, body, cond);
                    t.push(("cond", c));
                    t.push(("expected", J::Bool(*expected)));
                    t.push(("msg", s(format!("{:?}", msg))));
                    t.push(("target", n(target.as_usize())));
                }
                TerminatorKind::Yield { value, resume, resume_arg, .. } => {
                    t.push(("k", s("yield")));
                    let v = self.operand(def_id, body, value);
                    t.push(("value", v));
                    t.push(("target", n(resume.as_usize())));
                    let ra = self.place(body, resume_arg);
                    t.push(("resume_arg", ra));
                }
                TerminatorKind::CoroutineDrop => t.push(("k", s("coroutine_drop"))),
                TerminatorKind::FalseEdge { real_target, .. } => {
                    t.push(("k", s("goto")));
                    t.push(("false_edge", J::Bool(true)));
                    t.push(("target", n(real_target.as_usize())));
                }
                TerminatorKind::FalseUnwind { real_target, .. } => {
                    t.push(("k", s("goto")));
                    t.push(("false_unwind", J::Bool(true)));
                    t.push(("target", n(real_target.as_usize())));
                }
                TerminatorKind::InlineAsm { .. } => t.push(("k", s("asm"))),
            }
            blocks.push(obj(vec![
                ("cleanup", J::Bool(data.is_cleanup)),
                ("stmts", J::Arr(stmts)),
                ("term", obj(t)),
            ]));
        }
        o.push(("blocks", J::Arr(blocks)));
        Some(obj(o))
    }
}

impl Callbacks for Cb {
    fn after_expansion<'tcx>(&mut self, _compiler: &Compiler, tcx: TyCtxt<'tcx>) -> rustc_driver::Compilation {
        let krate = tcx.crate_name(rustc_hir::def_id::LOCAL_CRATE).to_string();
        if !self.crates.iter().any(|c| c == &krate) {
            return rustc_driver::Compilation::Continue;
        }
        let mut cx = Cx {
            tcx,
            types: vec![],
            type_ix: HashMap::new(),
            adts: vec![],
            adt_seen: HashMap::new(),
        };
        let mut bodies = vec![];
        let mut errors = vec![];
        // phase 1: take a private copy of every body while none has been stolen yet
        let mut owned: Vec<(rustc_hir::def_id::LocalDefId, Body<'tcx>)> = vec![];
        for did in tcx.hir_body_owners() {
            let kind = tcx.def_kind(did.to_def_id());
            match kind {
                DefKind::Fn | DefKind::AssocFn | DefKind::Closure | DefKind::SyntheticCoroutineBody => {}
                _ => continue,
            }
            let st = tcx.mir_built(did);
            if st.is_stolen() {
                errors.push(s(tcx.def_path_str(did.to_def_id())));
                continue;
            }
            let b: Body<'tcx> = st.borrow().clone();
            owned.push((did, b));
        }
        // phase 2: export
        for (did, b) in owned.iter() {
            match cx.body(*did, b) {
                Some(j) => bodies.push(j),
                None => errors.push(s(tcx.def_path_str(did.to_def_id()))),
            }
        }
        // trait impl table (including impls without bodies)
        let mut impls = vec![];
        for id in tcx.hir_free_items() {
            let did = id.owner_id.to_def_id();
            if let DefKind::Impl { of_trait } = tcx.def_kind(did) {
                let st = tcx.type_of(did).instantiate_identity().skip_norm_wip();
                let sti = cx.ty(st);
                let mut o: Vec<(&str, J)> = vec![("path", s(cx.path(did))), ("self", n(sti))];
                o.push(("span", s(cx.span_str(tcx.def_span(did)))));
                if of_trait {
                    let tr = tcx.impl_trait_ref(did).instantiate_identity().skip_norm_wip();
                    o.push(("trait", s(cx.path(tr.def_id))));
                    o.push(("trait_full", s(format!("{}", tr))));
                    let ga = cx.gargs(tr.args.as_slice());
                    o.push(("trait_args", ga));
                }
                impls.push(obj(o));
            }
        }
        let adts = J::Obj(std::mem::take(&mut cx.adts));
        let types = J::Arr(std::mem::take(&mut cx.types));
        let out = obj(vec![
            ("crate", s(krate.clone())),
            ("run_id", s(self.run_id.clone())),
            ("features", J::Arr(self.features.iter().map(|f| s(f.clone())).collect())),
            ("cfgs", J::Arr(self.cfgs.iter().map(|f| s(f.clone())).collect())),
            ("rustc", s(option_env!("CFG_VERSION").unwrap_or("nightly").to_string())),
            ("errors", J::Arr(errors)),
            ("impls", J::Arr(impls)),
            ("adts", adts),
            ("types", types),
            ("bodies", J::Arr(bodies)),
        ]);
        let mut text = String::new();
        out.write(&mut text);
        let mut path = format!("{}/{}.json", self.out_dir, krate);
        let mut k = 1;
        // a crate may be compiled more than once in one run (lib + bin); keep all
        while let Ok(old) = std::fs::read_to_string(&path) {
            if old.contains(&format!("\"run_id\":\"{}\"", self.run_id)) {
                path = format!("{}/{}.{}.json", self.out_dir, krate, k);
                k += 1;
            } else {
                break;
            }
        }
        let tmp = format!("{}.tmp{}", path, std::process::id());
        std::fs::write(&tmp, text).expect("mirfacts: cannot write facts");
        std::fs::rename(&tmp, &path).expect("mirfacts: cannot rename facts");
        rustc_driver::Compilation::Continue
    }
}

struct NoCb;
impl Callbacks for NoCb {}

fn main() {
    let mut args: Vec<String> = std::env::args().collect();
    // RUSTC_WRAPPER mode: argv[1] is the path of the real rustc
    if args.len() > 1 && (args[1].ends_with("rustc") || args[1].contains("/rustc")) {
        args.remove(1);
    }
    let mut crate_name = String::new();
    let mut features = vec![];
    let mut cfgs = vec![];
    let mut i = 0;
    while i < args.len() {
        if args[i] == "--crate-name" && i + 1 < args.len() {
            crate_name = args[i + 1].clone();
        }
        if args[i] == "--cfg" && i + 1 < args.len() {
            let c = args[i + 1].clone();
            if let Some(rest) = c.strip_prefix("feature=") {
                features.push(rest.trim_matches('"').to_string());
            } else {
                cfgs.push(c);
            }
        }
        i += 1;
    }
    let crates: Vec<String> = std::env::var("VERIF_CRATES")
        .unwrap_or_default()
        .split(',')
        .filter(|x| !x.is_empty())
        .map(|x| x.to_string())
        .collect();
    let out_dir = std::env::var("VERIF_FACTS_DIR").unwrap_or_default();
    let run_id = std::env::var("VERIF_RUN_ID").unwrap_or_default();
    let wanted = !out_dir.is_empty() && crates.iter().any(|c| c == &crate_name);
    if wanted {
        // analysis wants unoptimised MIR with overflow checks as in a dev build
        let mut cb = Cb {
            crates,
            out_dir,
            run_id,
            features,
            cfgs,
        };
        rustc_driver::run_compiler(&args, &mut cb);
    } else {
        rustc_driver::run_compiler(&args, &mut NoCb);
    }
}
